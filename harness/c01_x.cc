/* C01 e2e (H5), C++ scenarios: usage  c01_x <scenario> <variant> <depth> <rounds>
 * Exceptions thrown below `depth` extra instrumented frames, through destructors (landing pads ending in
 * _Unwind_Resume), re-thrown, thrown out of call-backs invoked by libc (qsort, bsearch, twalk), out of static
 * initialisers (__cxa_guard_abort), in threads (with pthread_exit's forced unwinding) and not caught at all.
 * See c01_common.h for the rules of what may be printed. */
#include <algorithm>
#include <cmath>
#include <cstdarg>
#include <cstdio>
#include <cstdlib>
#include <stdexcept>
#include <string>
#include <vector>
#include <pthread.h>
#include <search.h>
#include <unistd.h>
#include "c01_common.h"

__thread uint64_t c01_h = 0x7654321;
static int g_depth, g_rounds;

extern "C" {
NI long down(int d, body_fn f, int v, int round)
{
	volatile double loc = d * 0.5 + P_K1;
	long x;
	if (d <= 0)
		x = f(v, round);
	else
		x = down(d - 1, f, v, round) + 1;
	mixd(loc);
	return x;
}
NI double fp_leaf(double a, float b, int c) { return a * (P_K2 + 0.5) + b / (c + 1.5); }
/* the quotient needs all 64 mantissa bits of the x87 format: a result that went through a double is another number */
NI long double fp_ld(long double x, int n) { return x * (P_K3 + 0.25L) / 7.0L + n; }
NI struct dd fp_dd(double a, double b) { struct dd r = { a * 0.5 + b, b * 0.25 + P_K1 }; return r; }
NI struct ll fp_ll(long a, long b) { struct ll r = { a + P_K2, b * 3 }; return r; }
NI struct big fp_big(int n) { struct big r; for (int i = 0; i < 5; i++) r.v[i] = n * (i + P_K3); return r; }
NI double fp_var(int n, ...)
{
	va_list ap;
	double s = 0;
	va_start(ap, n);
	for (int i = 0; i < n; i++) {
		if (i & 1)
			s += va_arg(ap, double);
		else
			s += va_arg(ap, int);
	}
	va_end(ap);
	return s;
}
NI long fp_work(int s)
{
	struct dd d = fp_dd(s * 0.5, s * 0.25);
	struct ll l = fp_ll(s, s + 1);
	struct big b = fp_big(s);
	mixd(fp_leaf(s * 0.5, 1.25f, s & 7));
	mixld(fp_ld(s * 1.5L, s & 3));
	mixd(d.a); mixd(d.b); mixu(l.a); mixu(l.b); mixu(b.v[0] + b.v[4]);
	mixd(fp_var(4, s, 0.5, s + 1, 0.25));
	return (long)(c01_h & 0xffff);
}
}

/* per-thread log (the main thread prints directly) */
struct Log {
	std::string s;
	bool direct;
	void add(const char *what, long a, long b)
	{
		char buf[96];
		snprintf(buf, sizeof(buf), "%s(%ld,%ld)", what, a, b);
		if (direct)
			printf("%s\n", buf);
		else
			s += std::string(" ") + buf;
	}
};
static Log main_log = { "", true };
static thread_local Log *cur_log = &main_log;

struct Payload {
	int code;
	double val;
};
struct Guard {
	const char *name;
	int id;
	double keep;
	NI Guard(const char *n, int i) : name(n), id(i), keep(fp_leaf(i, 0.5f, 1)) {}
	NI ~Guard()
	{
		cur_log->add(name, id, (long)(keep * 4));
		mixd(fp_leaf(keep, 0.25f, id & 3)); /* instrumented calls from a landing pad */
	}
};

/* ------------------------------------------------------------------ throw / catch / rethrow */
NI static long exc_thrower(int e, int kind, int val)
{
	Guard g("~thr", e);
	volatile double x = fp_leaf(e, 1.5f, val);
	mixd(x);
	if (e <= 0) {
		switch (kind) {
		case 0: throw val;
		case 1: throw val * 0.5;
		case 2: throw std::runtime_error("boom " + std::to_string(val));
		default: throw Payload{ val, val * 0.25 };
		}
	}
	return exc_thrower(e - 1, kind, val) + 1;
}
NI static long exc_mid(int v, int round)
{
	Guard g("~mid", round);
	int kind = v & 3, e = (v >> 3) & 3, val = P_THROWVAL + round;
	if (v & 4) {
		try {
			return exc_thrower(e, kind, val);
		}
		catch (const std::exception &ex) {
			cur_log->add("mid-rethrows-std", 0, 0);
			throw;
		}
		catch (...) {
			cur_log->add("mid-rethrows", 0, 0);
			fp_work(round);
			throw;
		}
	}
	return exc_thrower(e, kind, val) + 2;
}
NI static long exc_body(int v, int round)
{
	volatile long st = round * 10;
	volatile double fv = fp_leaf(round, 0.5f, 3);
	try {
		st += 1;
		fv += 0.25;
		st += exc_mid(v, round);
		printf("exc: not reached\n");
	}
	catch (int i) {
		printf("caught int %d st=%ld fv=%.4f\n", i, (long)st, (double)fv);
	}
	catch (double d) {
		printf("caught double %.3f st=%ld\n", d, (long)st);
	}
	catch (const std::exception &ex) {
		printf("caught std::exception '%s' st=%ld\n", ex.what(), (long)st);
	}
	catch (...) {
		try {
			throw;
		}
		catch (const Payload &p) {
			printf("caught payload %d %.3f st=%ld\n", p.code, p.val, (long)st);
		}
	}
	mixd(fp_leaf(st, 2.5f, round));
	fp_work(round);
	return st;
}

/* ------------------------------------------------------------------ exceptions out of library call-backs */
#define POISON 666
static int cb_count, cb_extra;
NI static void exccb_bail(int lvl)
{
	Guard g("~bail", lvl);
	if (lvl > 0) {
		exccb_bail(lvl - 1);
		return;
	}
	throw Payload{ P_THROWVAL, cb_count * 0.5 };
}
NI static int exccb_cmp(const void *a, const void *b)
{
	int x = *(const int *)a, y = *(const int *)b;
	cb_count++;
	mixd(fp_leaf(x, 0.5f, y & 3));
	if (x == POISON || y == POISON)
		exccb_bail(cb_extra);
	return (x > y) - (x < y);
}
NI static int exccb_cmp_r(const void *a, const void *b, void *arg)
{
	(*(int *)arg)++;
	return exccb_cmp(a, b);
}
NI static int exccb_plain(const void *a, const void *b) { return *(const int *)a - *(const int *)b; }
NI static void exccb_action(const void *nodep, VISIT which, int depth)
{
	if (which == postorder || which == leaf) {
		int x = **(int *const *)nodep;
		mixu(x);
		if (x == POISON)
			exccb_bail(cb_extra);
	}
}
static void tw_nofree(void *) {}
NI static bool exccb_less(int x, int y)
{
	cb_count++;
	if (x == POISON || y == POISON)
		exccb_bail(cb_extra);
	return x < y;
}
NI static long exccb_run(int *arr, int n, int kind)
{
	Guard g("~run", kind);
	int extra = 0, key;
	void *root = NULL;
	try {
		switch (kind) {
		case 0: qsort(arr, n, sizeof(*arr), exccb_cmp); break;
		case 1: key = arr[n / 2]; bsearch(&key, arr, n, sizeof(*arr), exccb_cmp); break;
		case 2: std::sort(arr, arr + n, exccb_less); break;
		case 3:
			for (int i = 0; i < n; i++)
				tsearch(&arr[i], &root, exccb_plain);
			try {
				twalk(root, exccb_action);
			}
			catch (...) {
				tdestroy(root, tw_nofree);
				throw;
			}
			tdestroy(root, tw_nofree);
			break;
		default: qsort_r(arr, n, sizeof(*arr), exccb_cmp_r, &extra); mixu(extra); break;
		}
	}
	catch (const Payload &p) {
		printf("run caught payload %d %.1f\n", p.code, p.val);
		return -1;
	}
	return 0;
}
NI static long exccb_body(int v, int round)
{
	int good[P_NARR] = P_ARR, bad[P_NARR] = P_ARR;
	long r;
	bad[P_POISON_POS] = POISON;
	cb_extra = (v >> 3) & 1;
	r = exccb_run(good, P_NARR, v & 7);
	printf("exccb round %d good -> %ld [", round, r);
	for (int i = 0; i < P_NARR; i++)
		printf("%d%s", good[i], i < P_NARR - 1 ? " " : "");
	printf("] cmp=%d\n", cb_count);
	r = exccb_run(bad, P_NARR, v & 7);
	printf("exccb round %d bad -> %ld (%s) cmp=%d\n", round, r, r ? "rejected" : "accepted", cb_count);
	fp_work(round);
	return r;
}

/* ------------------------------------------------------------------ threads */
struct TInfo {
	int id, v, depth;
	Log log;
	pthread_t th;
};
static thread_local TInfo *cur_ti;
NI static long thr_leave(int v, int round)
{
	TInfo *ti = cur_ti;
	Guard g("~leave", ti->id);
	uint64_t h = 0xabc + ti->id;
	try {
		exc_thrower(ti->id & 3, 0, ti->id);
	}
	catch (int i) {
		ti->log.add("caught", i, 0);
		h += i;
	}
	for (int i = 0; i < 50; i++)
		h = h * 31 + (uint64_t)(fp_leaf(i, 1.5f, ti->id) * 16);
	if (v == 0)
		return (long)(h & 0xffffff);
	if (v == 1)
		pthread_exit((void *)(h & 0xffffff)); /* forced unwinding runs the destructors */
	throw Payload{ ti->id, (double)(h & 0xffff) };
}
NI static void *thr_main(void *arg)
{
	TInfo *ti = (TInfo *)arg;
	long r = -1;
	cur_ti = ti;
	cur_log = &ti->log;
	try {
		Guard g("~tmain", ti->id);
		r = down(ti->depth, thr_leave, ti->v, 0);
		ti->log.add("returned", 0, 0);
	}
	catch (const Payload &p) {
		ti->log.add("thread-caught", p.code, (long)p.val);
		r = p.code;
	}
	return (void *)r;
}
NI static long excthr_body(int v, int round)
{
	std::vector<TInfo> ti(P_THREADS);
	void *res;
	for (int i = 0; i < P_THREADS; i++) {
		ti[i].id = i + round * 10;
		ti[i].v = v;
		ti[i].depth = (i + g_depth) % 4;
		ti[i].log.direct = false;
		pthread_create(&ti[i].th, NULL, thr_main, &ti[i]);
	}
	for (int i = 0; i < P_THREADS; i++) {
		pthread_join(ti[i].th, &res);
		printf("thread %d:%s -> %lx\n", ti[i].id, ti[i].log.s.c_str(), (unsigned long)res);
	}
	fp_work(round);
	return P_THREADS;
}

/* ------------------------------------------------------------------ throwing static initialiser */
static int guard_attempts;
NI static int guard_init(int fail_until)
{
	Guard g("~init", guard_attempts);
	guard_attempts++;
	if (guard_attempts <= fail_until)
		throw std::runtime_error("init failed " + std::to_string(guard_attempts));
	return 1000 + guard_attempts;
}
NI static long guard_user(int fail_until)
{
	Guard g("~user", fail_until);
	static int value = guard_init(fail_until); /* __cxa_guard_acquire / _abort / _release */
	return value;
}
NI static long excguard_body(int v, int round)
{
	long r = -1;
	for (int i = 0; i < 4 && r < 0; i++) {
		try {
			r = guard_user(2 + v);
		}
		catch (const std::exception &ex) {
			printf("static init threw '%s'\n", ex.what());
			fp_work(i);
		}
	}
	printf("static value %ld after %d attempts\n", r, guard_attempts);
	fp_work(round);
	return r;
}

/* ------------------------------------------------------------------ nobody catches */
NI static long noexcept_fn(int v) noexcept { return exc_thrower(1, 0, v); }
NI static long excterm_body(int v, int round)
{
	Guard g("~term", round);
	fp_work(round);
	if (round < g_rounds - 1) {
		try {
			exc_thrower(1, 1, round);
		}
		catch (double d) {
			printf("round %d caught %.1f\n", round, d);
		}
		return 0;
	}
	printf("throwing for nobody H=%016lx\n", (unsigned long)c01_h);
	fflush(stdout);
	if (v == 0)
		return exc_thrower(2, 0, P_THROWVAL);
	return noexcept_fn(v);
}

static const struct sc {
	const char *name;
	body_fn body;
} SC[] = {
	{ "exc", exc_body }, { "exccb", exccb_body }, { "excthr", excthr_body },
	{ "excguard", excguard_body }, { "excterm", excterm_body },
};

NI static long run_rounds(const struct sc *sc, int v, int depth, int rounds)
{
	long ret = 0;
	for (int r = 0; r < rounds; r++)
		ret += down(depth, sc->body, v, r);
	return ret;
}

int main(int argc, char **argv)
{
	const struct sc *sc = NULL;
	long ret;
	setvbuf(stdout, NULL, _IOLBF, 0);
	if (argc < 5) {
		fprintf(stderr, "usage: %s <scenario> <variant> <depth> <rounds>\n", argv[0]);
		return 2;
	}
	for (unsigned i = 0; i < sizeof(SC) / sizeof(SC[0]); i++)
		if (!strcmp(SC[i].name, argv[1]))
			sc = &SC[i];
	if (!sc)
		return 2;
	g_depth = atoi(argv[3]);
	g_rounds = atoi(argv[4]);
	ret = run_rounds(sc, atoi(argv[2]), g_depth, g_rounds);
	printf("%s ret=%ld H=%016lx\n", sc->name, ret, (unsigned long)c01_h);
	return (int)(P_EXIT_MAIN);
}
