/*
 * C10 e2e: script-driven dlopen timeline (checks/c10.py), compiled with -pg.
 * argv: o<k>=<path>   h[k] = dlopen(path)
 *       n<k>=<path>   h[k] = dlopen(path, RTLD_NOLOAD)   (NULL when the library is not loaded)
 *       r<k>=<sym>    call the function <sym> of h[k]
 *       c<k>          dlclose(h[k])
 * c10_op(i) is called (and recorded) before the i-th operation; the loader's list is
 * logged after every operation by c10_log (not instrumented).
 */
#include <dlfcn.h>
#include <stdio.h>
#include <stdlib.h>
#include <string.h>

extern void c10_log(const char *tag, void *handle);

static volatile int sink;

__attribute__((noinline)) void c10_op(int i)
{
	sink += i;
}

int main(int argc, char **argv)
{
	void *h[10] = { 0 };
	char tag[32];
	int i;

	c10_log("start", NULL);
	for (i = 1; i < argc; i++) {
		char *a = argv[i];
		int k = a[1] - '0';
		void *res = NULL;

		if (k < 0 || k > 9)
			return 2;
		c10_op(i);
		if (a[0] == 'o') {
			res = h[k] = dlopen(a + 3, RTLD_LAZY);
			if (h[k] == NULL) {
				fprintf(stderr, "dlopen %s: %s\n", a + 3, dlerror());
				return 3;
			}
		}
		else if (a[0] == 'n') {
			res = h[k] = dlopen(a + 3, RTLD_LAZY | RTLD_NOLOAD);
		}
		else if (a[0] == 'c') {
			res = h[k];
			if (h[k])
				dlclose(h[k]);
			h[k] = NULL;
		}
		else if (a[0] == 'r' && h[k]) {
			int (*f)(int) = (int (*)(int))dlsym(h[k], a + 3);

			if (f == NULL) {
				fprintf(stderr, "no symbol %s\n", a + 3);
				return 4;
			}
			sink += f(1);
			res = h[k];
		}
		snprintf(tag, sizeof(tag), "op%d", i);
		c10_log(tag, res);
	}
	c10_op(argc);
	return 0;
}
