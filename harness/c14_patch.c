/*
 * C14 correspondence harness (H4): runs the real pattern list code and the real
 * x86_64 prologue patcher of the scratch snapshot of /repo.
 *
 * This TU #includes libmcount/dynamic.c (its pattern list, loops and update /
 * freeze functions are static); arch/x86_64/mcount-dynamic.c is compiled as its
 * own TU and reached through mcount_patch_func / mcount_unpatch_func /
 * mcount_setup_trampoline / mcount_cleanup_trampoline.
 *
 * stdin, one case per line (strings hex-encoded, "-" empty, "~" absent):
 *   pl <ptype> <defmod> <libpath> <soname|~> <nitems> {<neg> <name> <module|~>}… <nsyms> <sym>…
 *   pf <ty> <minsize> <symsize> <addr> <a|r> <tramp> <codehex>
 *   uf <ty> <addr> <symsize> <loc|~> <codehex> [<textsize> <tramp|~> <ngot> {<off> <which>}…
 *      <nplt> {<name> <addr> <size>}…]
 *      (which: 0 = &__fentry__, 1 = &mcount, 2 = some other address; written as 8 bytes at <off>;
 *       the PLT entries become ST_PLT_FUNC symbols of the module's symtab, sorted by address)
 *   flow <ptype> <defmod> <minsize> <nitems> {<neg> <name> <module|~>}… <nmods>
 *        { <lib> <ty> <toff> <tsize> <setupfails> <npages> <codehex>
 *          <nsyms> {<name> <addr> <size> <type>}… <nlocs> {<loc>}… <ngot> {<off> <which>}… }…
 *        (a symbol of type P is a PLT entry: ST_PLT_FUNC; symbols must be sorted by address)
 * stdout per case:
 *   MODEL <line for `uv_C14 C14`>
 *   IMPL <result line in the model's output format>
 * or, when a mandatory token is missing or malformed (nothing of the case is run):
 *   ERROR protocol: <what> (input line <n>)
 */
#define _GNU_SOURCE
#include <errno.h>
#include <setjmp.h>
#include <stdarg.h>
#include <sys/syscall.h>

#include "libmcount/dynamic.c"

/* the tracer's other entry function (glibc's here, libmcount's in a real run) */
extern void mcount(void);

static unsigned long entry_addr(int which)
{
	if (which == 0)
		return (unsigned long)__fentry__;
	if (which == 1)
		return (unsigned long)mcount;
	return (unsigned long)entry_addr; /* a function that is not a tracer entry */
}

/* ---- mprotect interposition: fault injection for the RWX request of setup ---- */
static unsigned long fail_rwx_page[16];
static int nr_fail_rwx;

int mprotect(void *addr, size_t len, int prot)
{
	int i;

	if ((prot & (PROT_WRITE | PROT_EXEC)) == (PROT_WRITE | PROT_EXEC)) {
		for (i = 0; i < nr_fail_rwx; i++) {
			if (fail_rwx_page[i] == (unsigned long)addr) {
				fail_rwx_page[i] = 0; /* one shot: the request of setup */
				errno = EACCES;
				return -1;
			}
		}
	}
	return syscall(SYS_mprotect, addr, len, prot);
}

/* ---- helpers ---- */
static jmp_buf protocol_error;
static const char *protocol_what;

static void bad_input(const char *what)
{
	protocol_what = what;
	longjmp(protocol_error, 1);
}

/* next token or NULL at the end of the line */
static char *opt_tok(char **p)
{
	char *s = *p, *e;

	while (*s == ' ')
		s++;
	if (*s == '\0' || *s == '\n')
		return NULL;
	e = s;
	while (*e && *e != ' ' && *e != '\n')
		e++;
	if (*e)
		*e++ = '\0';
	*p = e;
	return s;
}

/* a mandatory token: a missing one is a protocol error, never a NULL dereference */
static char *tok(char **p)
{
	char *s = opt_tok(p);

	if (s == NULL)
		bad_input("missing token");
	return s;
}

/* a count: decimal, bounded */
static int tok_count(char **p, int max)
{
	char *s = tok(p), *end;
	long v = strtol(s, &end, 10);

	if (*end != '\0' || end == s || v < 0 || v > max)
		bad_input("bad count");
	return (int)v;
}

static int hexval(int c)
{
	if (c >= '0' && c <= '9')
		return c - '0';
	if (c >= 'a' && c <= 'f')
		return c - 'a' + 10;
	return c - 'A' + 10;
}

/* hex -> malloc'ed bytes (NUL terminated), length in *len */
static unsigned char *unhex(const char *h, size_t *len)
{
	size_t n = strcmp(h, "-") ? strlen(h) / 2 : 0, i;
	unsigned char *b;

	if (strcmp(h, "-") && (strlen(h) % 2 || strspn(h, "0123456789abcdefABCDEF") != strlen(h)))
		bad_input("bad hex string");
	b = calloc(n + 1, 1);
	for (i = 0; i < n; i++)
		b[i] = hexval(h[2 * i]) * 16 + hexval(h[2 * i + 1]);
	if (len)
		*len = n;
	return b;
}

static void puthex(const unsigned char *b, size_t n)
{
	size_t i;

	if (n == 0) {
		putchar('-');
		return;
	}
	for (i = 0; i < n; i++)
		printf("%02x", b[i]);
}

static void putstrhex(const char *s)
{
	puthex((const unsigned char *)s, strlen(s));
}

static enum mcount_dynamic_type parse_ty(const char *s)
{
	unsigned i;

	for (i = 0; i < ARRAY_SIZE(mdi_type_names); i++) {
		if (!strcmp(s, mdi_type_names[i]))
			return i;
	}
	bad_input("bad module type");
	return 0;
}

#define REGION_HINT 0x5a0000000000UL
#define REGION_STRIDE 0x100000UL

/* regions of the case being run (unmapped by the protocol error handler) */
#define MAX_LIVE 64
static unsigned char *live_region[MAX_LIVE];
static int live_npages[MAX_LIVE];

static void live_add(unsigned char *p, int npages)
{
	int i;

	for (i = 0; i < MAX_LIVE; i++) {
		if (live_region[i] == NULL) {
			live_region[i] = p;
			live_npages[i] = npages;
			return;
		}
	}
}

static void live_del(unsigned char *p)
{
	int i;

	for (i = 0; i < MAX_LIVE; i++) {
		if (live_region[i] == p)
			live_region[i] = NULL;
	}
}

/* npages mapped RW (zero), the page after them is left unmapped, one PROT_NONE
 * page behind it keeps other allocations away */
static unsigned char *map_region(int k, int npages)
{
	size_t len = (size_t)(npages + 2) * PAGE_SIZE;
	void *want = (void *)(REGION_HINT + k * REGION_STRIDE);
	unsigned char *p;

	p = mmap(want, len, PROT_READ | PROT_WRITE, MAP_PRIVATE | MAP_ANONYMOUS | MAP_FIXED_NOREPLACE,
		 -1, 0);
	if (p == MAP_FAILED)
		p = mmap(NULL, len, PROT_READ | PROT_WRITE, MAP_PRIVATE | MAP_ANONYMOUS, -1, 0);
	if (p == MAP_FAILED) {
		perror("mmap");
		exit(3);
	}
	munmap(p + (size_t)npages * PAGE_SIZE, PAGE_SIZE);
	syscall(SYS_mprotect, p + (size_t)(npages + 1) * PAGE_SIZE, PAGE_SIZE, PROT_NONE);
	live_add(p, npages);
	return p;
}

static void unmap_region(unsigned char *p, int npages)
{
	munmap(p, (size_t)(npages + 2) * PAGE_SIZE);
	live_del(p);
}

static void unmap_live_regions(void)
{
	int i;

	for (i = 0; i < MAX_LIVE; i++) {
		if (live_region[i])
			unmap_region(live_region[i], live_npages[i]);
	}
}

/* one char per page: x = r-x, W = rwx, w = rw-, r = r--, - = none/unmapped */
static void page_perms(unsigned long start, int n, char *out)
{
	FILE *fp = fopen("/proc/self/maps", "r");
	char line[512];
	int i;

	for (i = 0; i < n; i++)
		out[i] = '-';
	out[n] = '\0';
	while (fgets(line, sizeof(line), fp)) {
		unsigned long lo, hi;
		char pr[8];

		if (sscanf(line, "%lx-%lx %7s", &lo, &hi, pr) != 3)
			continue;
		for (i = 0; i < n; i++) {
			unsigned long a = start + (unsigned long)i * PAGE_SIZE;
			char c;

			if (a < lo || a >= hi)
				continue;
			if (pr[0] == 'r' && pr[1] == 'w' && pr[2] == 'x')
				c = 'W';
			else if (pr[0] == 'r' && pr[1] == 'w')
				c = 'w';
			else if (pr[0] == 'r' && pr[2] == 'x')
				c = 'x';
			else if (pr[0] == 'r')
				c = 'r';
			else if (pr[0] == '-' && pr[1] == '-' && pr[2] == '-')
				c = '-';
			else
				c = '?';
			out[i] = c;
		}
	}
	fclose(fp);
}

struct item {
	int neg;
	char *name;
	char *module; /* NULL when absent */
};

static int read_items(char **p, struct item **out)
{
	int n = tok_count(p, 4096), i;
	struct item *it = calloc(n + 1, sizeof(*it));

	for (i = 0; i < n; i++) {
		char *m;

		it[i].neg = tok_count(p, 1);
		it[i].name = (char *)unhex(tok(p), NULL);
		m = tok(p);
		it[i].module = strcmp(m, "~") ? (char *)unhex(m, NULL) : NULL;
	}
	*out = it;
	return n;
}

/* the UFTRACE_PATCH string as cmds/record.c builds it from -P / -U options */
static char *join_items(struct item *it, int n)
{
	size_t len = 1;
	int i;
	char *s;

	for (i = 0; i < n; i++)
		len += strlen(it[i].name) + (it[i].module ? strlen(it[i].module) : 0) + 3;
	s = calloc(len, 1);
	for (i = 0; i < n; i++) {
		if (i)
			strcat(s, ";");
		if (it[i].neg)
			strcat(s, "!");
		strcat(s, it[i].name);
		if (it[i].module) {
			strcat(s, "@");
			strcat(s, it[i].module);
		}
	}
	return s;
}

/* the opaque match relation, from the real engines: item j x name */
static int engine_match(enum uftrace_pattern_type ptype, const char *patt, const char *name)
{
	struct uftrace_pattern p;
	char *pc = xstrdup(patt), *nc = xstrdup(name);
	int r;

	memset(&p, 0, sizeof(p));
	init_filter_pattern(ptype, &p, pc);
	r = match_filter_pattern(&p, nc);
	if (p.type == PATT_REGEX)
		regfree(&p.re);
	free_filter_pattern(&p);
	free(pc);
	free(nc);
	return r;
}

static struct uftrace_mmap *h_new_map(const char *libpath)
{
	struct uftrace_mmap *map = xzalloc(sizeof(*map) + strlen(libpath) + 1);

	strcpy(map->libname, libpath);
	map->len = strlen(libpath);
	return map;
}

static void do_pl(char *p)
{
	enum uftrace_pattern_type ptype = tok_count(&p, 3);
	char *defmod = (char *)unhex(tok(&p), NULL);
	char *libpath = (char *)unhex(tok(&p), NULL);
	char *so_tok = tok(&p);
	char *soname = strcmp(so_tok, "~") ? (char *)unhex(so_tok, NULL) : NULL;
	struct item *it;
	int nitems = read_items(&p, &it);
	int nsyms = tok_count(&p, 65536);
	char **syms = calloc(nsyms + 1, sizeof(*syms));
	char *patch = join_items(it, nitems), *patch_copy;
	struct uftrace_mmap *map = h_new_map(libpath);
	struct patt_list *pl;
	int i, j, n = 0;

	for (i = 0; i < nsyms; i++)
		syms[i] = (char *)unhex(tok(&p), NULL);

	printf("MODEL pl ");
	putstrhex(defmod);
	putchar(' ');
	putstrhex(uftrace_basename(libpath));
	putchar(' ');
	if (soname)
		putstrhex(soname);
	else
		putchar('~');
	putchar(' ');
	putstrhex(patch);
	printf(" %d", nsyms);
	for (i = 0; i < nsyms; i++) {
		putchar(' ');
		putstrhex(syms[i]);
	}
	printf(" %d", nitems);
	for (j = 0; j < nitems; j++) {
		putchar(' ');
		for (i = 0; i < nsyms; i++)
			putchar(engine_match(ptype, it[j].name, syms[i]) ? '1' : '0');
		if (nsyms == 0)
			putchar('-');
	}
	putchar('\n');

	patch_copy = xstrdup(patch);
	parse_pattern_list(patch_copy, defmod, ptype);

	list_for_each_entry(pl, &patterns, list)
		n++;
	printf("IMPL n=%d", n);
	list_for_each_entry(pl, &patterns, list) {
		putchar(' ');
		putstrhex(pl->patt.patt);
		putchar(':');
		putstrhex(pl->module);
		printf(":%c", pl->positive ? '+' : '-');
	}
	printf(" | ");
	for (i = 0; i < nsyms; i++) {
		int r = match_pattern_list(map, soname, syms[i]);

		putchar(r > 0 ? '+' : r < 0 ? '-' : '0');
	}
	printf(" | mod=%d\n", match_pattern_module(libpath) ? 1 : 0);

	release_pattern_list();
	free(patch_copy);
	free(patch);
	free(map);
	for (i = 0; i < nsyms; i++)
		free(syms[i]);
	free(syms);
}

static void do_pf(char *p, bool unpatch)
{
	struct mcount_dynamic_info mdi;
	struct uftrace_mmap *map = h_new_map("/nonexistent/c14/pf");
	struct uftrace_symbol sym;
	char name[] = "f";
	unsigned char *buf, *code;
	size_t len;
	int rc, npages;
	unsigned long loc_arr[1];

	memset(&mdi, 0, sizeof(mdi));
	memset(&sym, 0, sizeof(sym));
	INIT_LIST_HEAD(&mdi.bad_syms);
	mdi.map = map;
	sym.name = name;
	sym.type = ST_GLOBAL_FUNC;

	if (!unpatch) {
		char *ty = tok(&p);
		unsigned minsize = strtoul(tok(&p), NULL, 0);
		char *mode;
		long tv;

		sym.size = strtoul(tok(&p), NULL, 0);
		sym.addr = strtoul(tok(&p), NULL, 0);
		mode = tok(&p);
		tv = strtol(tok(&p), NULL, 0);
		code = unhex(tok(&p), &len);
		npages = (len + 64) / PAGE_SIZE + 1;
		buf = map_region(0, npages);
		syscall(SYS_mprotect, buf, (size_t)npages * PAGE_SIZE, PROT_READ | PROT_WRITE | PROT_EXEC);
		memcpy(buf, code, len);
		map->start = (unsigned long)buf;
		mdi.type = parse_ty(ty);
		mdi.trampoline = mode[0] == 'a' ? (unsigned long)tv : (unsigned long)buf + tv;

		printf("MODEL pf %s %u %u %#lx %#lx %#lx ", ty, minsize, sym.size, (unsigned long)buf,
		       (unsigned long)sym.addr, mdi.trampoline);
		puthex(code, len);
		putchar('\n');

		rc = mcount_patch_func(&mdi, &sym, NULL, minsize);
	}
	else {
		char *ty = tok(&p);
		char *loc, *t;
		struct uftrace_module *mod;
		long textsize;
		int ngot, nplt, i;

		sym.addr = strtoul(tok(&p), NULL, 0);
		sym.size = strtoul(tok(&p), NULL, 0);
		loc = tok(&p);
		code = unhex(tok(&p), &len);
		npages = (len + 64) / PAGE_SIZE + 1;
		buf = map_region(0, npages);
		syscall(SYS_mprotect, buf, (size_t)npages * PAGE_SIZE, PROT_READ | PROT_WRITE | PROT_EXEC);
		map->start = (unsigned long)buf;
		map->end = map->start + len;
		mdi.type = parse_ty(ty);
		mdi.text_addr = map->start;
		if (strcmp(loc, "~")) {
			loc_arr[0] = strtoul(loc, NULL, 0);
			mdi.patch_target = loc_arr;
			mdi.nr_patch_target = 1;
		}

		/* optional group: code segment size, trampoline, GOT contents, PLT symbols */
		t = opt_tok(&p);
		textsize = t ? strtol(t, NULL, 0) : (long)len;
		mdi.text_size = textsize;
		ngot = nplt = 0;
		if (t) {
			t = tok(&p);
			if (strcmp(t, "~"))
				mdi.trampoline = map->start + strtoul(t, NULL, 0);
			ngot = tok_count(&p, 4096);
		}
		for (i = 0; i < ngot; i++) {
			unsigned long off = strtoul(tok(&p), NULL, 0);
			unsigned long v = entry_addr(tok_count(&p, 2));

			if (off + sizeof(v) <= len)
				memcpy(code + off, &v, sizeof(v));
		}
		if (t)
			nplt = tok_count(&p, 4096);
		mod = xzalloc(sizeof(*mod) + 8);
		strcpy(mod->name, "pf");
		mod->symtab.sym = xcalloc(nplt + 1, sizeof(*mod->symtab.sym));
		mod->symtab.nr_sym = nplt;
		for (i = 0; i < nplt; i++) {
			mod->symtab.sym[i].name = (char *)unhex(tok(&p), NULL);
			mod->symtab.sym[i].addr = strtoul(tok(&p), NULL, 0);
			mod->symtab.sym[i].size = strtoul(tok(&p), NULL, 0);
			mod->symtab.sym[i].type = ST_PLT_FUNC;
		}
		map->mod = mod;
		memcpy(buf, code, len);

		printf("MODEL uf %s %#lx %u %s ", ty, (unsigned long)sym.addr, sym.size, loc);
		puthex(code, len);
		printf(" %#lx %zu 0 %ld %#lx %#lx %#lx", map->start, len, textsize, mdi.trampoline,
		       entry_addr(0), entry_addr(1));
		for (i = 0; i < nplt; i++) {
			printf(" P ");
			putstrhex(mod->symtab.sym[i].name);
			printf(" %#lx %u", (unsigned long)mod->symtab.sym[i].addr, mod->symtab.sym[i].size);
		}
		putchar('\n');

		rc = mcount_unpatch_func(&mdi, &sym, NULL);

		for (i = 0; i < nplt; i++)
			free(mod->symtab.sym[i].name);
		free(mod->symtab.sym);
		free(mod);
	}

	printf("IMPL rc=%d ", rc);
	puthex(buf, len);
	putchar('\n');

	unmap_region(buf, npages);
	free(code);
	free(map);
}

struct fmod {
	char *lib;
	char *ty;
	unsigned long toff;
	int tsize;
	int setupfails;
	int npages;
	unsigned char *code;
	size_t codelen;
	int nsyms;
	struct uftrace_symbol *syms;
	int nlocs;
	unsigned long *locs;
	int ngot;
	unsigned char *region;
	struct uftrace_mmap *map;
	struct uftrace_module *mod;
	struct mcount_dynamic_info *mdi;
	char initperms[64], mid[64], post[64];
	unsigned long tramp;
	int tsize_after;
};

static void put_bits(enum uftrace_pattern_type ptype, struct item *it, int nitems, const char *name)
{
	int j;

	for (j = 0; j < nitems; j++)
		putchar(engine_match(ptype, it[j].name, name) ? '1' : '0');
	if (nitems == 0)
		putchar('-');
}

static void do_flow(char *p)
{
	enum uftrace_pattern_type ptype = tok_count(&p, 3);
	char *defmod = (char *)unhex(tok(&p), NULL);
	unsigned minsize = strtoul(tok(&p), NULL, 0);
	struct item *it;
	int nitems = read_items(&p, &it);
	char *patch = join_items(it, nitems), *patch_copy;
	int nmods = tok_count(&p, 16);
	struct fmod *fm = calloc(nmods + 1, sizeof(*fm));
	struct uftrace_sym_info sinfo;
	struct uftrace_mmap *last = NULL;
	char exepath[512];
	int k, i;

	memset(&sinfo, 0, sizeof(sinfo));

	/* 1. read the whole case: a protocol error leaves nothing mapped or linked */
	for (k = 0; k < nmods; k++) {
		struct fmod *m = &fm[k];

		m->lib = (char *)unhex(tok(&p), NULL);
		m->ty = tok(&p);
		parse_ty(m->ty);
		m->toff = strtoul(tok(&p), NULL, 0);
		m->tsize = strtol(tok(&p), NULL, 0);
		m->setupfails = tok_count(&p, 1);
		m->npages = tok_count(&p, 32);
		if (m->npages < 1)
			bad_input("module without pages");
		m->code = unhex(tok(&p), &m->codelen);
		if (m->codelen > (size_t)m->npages * PAGE_SIZE)
			bad_input("code longer than the module's pages");
		m->nsyms = tok_count(&p, 65536);
		m->syms = calloc(m->nsyms + 1, sizeof(*m->syms));
		for (i = 0; i < m->nsyms; i++) {
			m->syms[i].name = (char *)unhex(tok(&p), NULL);
			m->syms[i].addr = strtoul(tok(&p), NULL, 0);
			m->syms[i].size = strtoul(tok(&p), NULL, 0);
			m->syms[i].type = tok(&p)[0];
		}
		m->nlocs = tok_count(&p, 65536);
		m->locs = calloc(m->nlocs + 1, sizeof(*m->locs));
		for (i = 0; i < m->nlocs; i++)
			m->locs[i] = strtoul(tok(&p), NULL, 0);
		m->ngot = tok_count(&p, 4096);
		for (i = 0; i < m->ngot; i++) {
			unsigned long off = strtoul(tok(&p), NULL, 0);
			unsigned long v = entry_addr(tok_count(&p, 2));

			if (off + sizeof(v) <= m->codelen)
				memcpy(m->code + off, &v, sizeof(v));
		}
	}

	/* 2. build the fake modules */
	for (k = 0; k < nmods; k++) {
		struct fmod *m = &fm[k];
		char path[512];

		/* memory: npages of r-x "text segment" holding the code */
		m->region = map_region(k, m->npages);
		memcpy(m->region, m->code, m->codelen);
		syscall(SYS_mprotect, m->region, (size_t)m->npages * PAGE_SIZE, PROT_READ | PROT_EXEC);
		page_perms((unsigned long)m->region, m->npages + 1, m->initperms);

		snprintf(path, sizeof(path), "/nonexistent/c14/%s", m->lib);
		m->map = h_new_map(path);
		m->map->start = (unsigned long)m->region;
		m->map->end = m->map->start + (unsigned long)m->npages * PAGE_SIZE;
		m->mod = xzalloc(sizeof(*m->mod) + strlen(m->lib) + 1);
		strcpy(m->mod->name, m->lib);
		m->mod->symtab.sym = m->syms;
		m->mod->symtab.nr_sym = m->nsyms;
		m->map->mod = m->mod;
		if (last)
			last->next = m->map;
		else
			sinfo.maps = m->map;
		last = m->map;

		m->mdi = xzalloc(sizeof(*m->mdi));
		m->mdi->map = m->map;
		m->mdi->base_addr = m->map->start;
		m->mdi->text_addr = m->map->start + m->toff;
		m->mdi->text_size = m->tsize;
		m->mdi->type = parse_ty(m->ty);
		m->mdi->patch_target = m->locs;
		m->mdi->nr_patch_target = m->nlocs;
		INIT_LIST_HEAD(&m->mdi->bad_syms);
		m->mdi->next = mdinfo;
		mdinfo = m->mdi;

		if (m->setupfails && nr_fail_rwx < (int)ARRAY_SIZE(fail_rwx_page))
			fail_rwx_page[nr_fail_rwx++] = (unsigned long)PAGE_ADDR(m->mdi->text_addr);
	}

	snprintf(exepath, sizeof(exepath), "/nonexistent/c14/%s", defmod);
	sinfo.exec_map = h_new_map(exepath);
	sinfo.filename = exepath;

	printf("MODEL flow ");
	putstrhex(defmod);
	putchar(' ');
	putstrhex(patch);
	printf(" %u %#lx %#lx", minsize, (unsigned long)__fentry__, entry_addr(1));
	for (k = 0; k < nmods; k++) {
		struct fmod *m = &fm[k];
		size_t full = (size_t)(m->npages + 1) * PAGE_SIZE;
		unsigned char *img = calloc(full, 1);

		memcpy(img, m->code, m->codelen);
		printf(" | ");
		putstrhex(m->lib);
		printf(" %s %#lx %#lx %d %d %d %s ", m->ty, (unsigned long)m->region,
		       (unsigned long)m->region + m->toff, m->tsize, m->setupfails, m->npages,
		       m->initperms);
		puthex(img, full);
		free(img);
		for (i = 0; i < m->nsyms; i++) {
			int t = m->syms[i].type;

			printf(" S ");
			putstrhex(m->syms[i].name);
			printf(" %#lx %u %c ", (unsigned long)m->syms[i].addr, m->syms[i].size,
			       t == ST_PLT_FUNC ? 'P' :
			       (t == ST_LOCAL_FUNC || t == ST_GLOBAL_FUNC || t == ST_WEAK_FUNC) ? '1' : '0');
			put_bits(ptype, it, nitems, m->syms[i].name);
		}
		for (i = 0; i < m->nlocs; i++) {
			char fake[64];

			snprintf(fake, sizeof(fake), "<%lx>", m->locs[i]);
			printf(" L %#lx ", m->locs[i]);
			put_bits(ptype, it, nitems, fake);
		}
	}
	putchar('\n');
	fflush(stdout);

	memset(&stats, 0, sizeof(stats));
	min_size = minsize;
	patch_copy = xstrdup(patch);

	do_dynamic_update(&sinfo, patch_copy, ptype);

	for (k = 0; k < nmods; k++) {
		struct fmod *m = &fm[k];

		page_perms((unsigned long)m->region, m->npages + 1, m->mid);
		m->tramp = m->mdi->trampoline;
		m->tsize_after = m->mdi->text_size;
	}

	freeze_dynamic_update(); /* frees the mdi's */
	mdinfo = NULL;
	mcount_dynamic_finish();

	printf("IMPL ");
	for (k = 0; k < nmods; k++) {
		struct fmod *m = &fm[k];
		size_t full = (size_t)(m->npages + 1) * PAGE_SIZE;
		unsigned char *img = calloc(full, 1);

		page_perms((unsigned long)m->region, m->npages + 1, m->post);
		memcpy(img, m->region, (size_t)m->npages * PAGE_SIZE);
		if (m->post[m->npages] != '-')
			memcpy(img + (size_t)m->npages * PAGE_SIZE,
			       m->region + (size_t)m->npages * PAGE_SIZE, PAGE_SIZE);
		printf("tramp=%#lx tsize=%d mid=%s post=%s ", m->tramp, m->tsize_after, m->mid,
		       m->post);
		puthex(img, full);
		printf(" | ");
		free(img);
	}
	printf("stats %d %d %d %d\n", stats.total, stats.failed, stats.skipped, stats.nomatch);

	for (k = 0; k < nmods; k++) {
		struct fmod *m = &fm[k];

		unmap_region(m->region, m->npages);
		for (i = 0; i < m->nsyms; i++)
			free(m->syms[i].name);
		free(m->syms);
		free(m->locs);
		free(m->code);
		free(m->lib);
		free(m->map);
		free(m->mod);
	}
	nr_fail_rwx = 0;
	free(sinfo.exec_map);
	free(patch_copy);
	free(patch);
	free(fm);
}

int main(void)
{
	char *line = NULL;
	size_t cap = 0;
	static int lineno;

	logfp = stderr;
	outfp = stdout;

	while (getline(&line, &cap, stdin) > 0) {
		char *p = line;
		char *cmd = opt_tok(&p);

		lineno++;
		if (cmd == NULL || cmd[0] == '#')
			continue;
		if (setjmp(protocol_error)) {
			/* nothing of the case has run; drop what was set up for it */
			unmap_live_regions();
			mdinfo = NULL;
			nr_fail_rwx = 0;
			release_pattern_list();
			printf("ERROR protocol: %s (input line %d)\n", protocol_what, lineno);
			fflush(stdout);
			continue;
		}
		if (!strcmp(cmd, "pl"))
			do_pl(p);
		else if (!strcmp(cmd, "pf"))
			do_pf(p, false);
		else if (!strcmp(cmd, "uf"))
			do_pf(p, true);
		else if (!strcmp(cmd, "flow"))
			do_flow(p);
		else
			bad_input("unknown command");
		fflush(stdout);
	}
	return 0;
}
