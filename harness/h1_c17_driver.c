/*
 * H1 driver for C17 (read-trigger and watchpoint events).  Started from
 * harness/h1_driver.c; linked statically with the libmcount sources of the
 * scratch snapshot.  The value sources libmcount reads are defined here, so the
 * executable's definitions win over libc's:
 *   clock_gettime()            scripted clock            (T, TICK)
 *   getrusage()                page-fault counters       (RU <maj> <min> | RU fail)
 *   fopen("/proc/self/statm")  vmsize/rss/shared pages   (SM <a> <b> <c>)
 *   sched_getcpu()             cpu number                (CPU <n>)
 * and three watched globals (wv8: 8 bytes, wv4: 4 bytes, wv1: 1 byte) that
 * `UFTRACE_WATCH=var:wv8` finds in this executable's symbol table (V <k> <hex>).
 *
 * stdin: one op per line (all ops of h1_driver.c plus the ones above and)
 *   AE <id>          an asynchronous (SDT-like) event: mcount_save_event()
 *   TH <k>           the following ops run on thread k (0 = main, 1..3 = workers)
 * stdout: one line per op
 *   <opno> ... recs=<hex of every new byte of the current thread's buffers>
 */
#define _GNU_SOURCE
#include <dlfcn.h>
#include <errno.h>
#include <pthread.h>
#include <sched.h>
#include <stdint.h>
#include <stdio.h>
#include <stdlib.h>
#include <string.h>
#include <sys/resource.h>
#include <sys/time.h>
#include <time.h>
#include <unistd.h>

#include "libmcount/internal.h"
#include "libmcount/mcount.h"
#include "utils/utils.h"

/* ---- scripted value sources ---- */
static uint64_t h1_now = 1000;
static uint64_t h1_tick;
static unsigned long h1_clock_reads;

int clock_gettime(clockid_t id, struct timespec *ts)
{
	ts->tv_sec = h1_now / 1000000000ULL;
	ts->tv_nsec = h1_now % 1000000000ULL;
	h1_now += h1_tick;
	h1_clock_reads++;
	return 0;
}

static long h1_majflt, h1_minflt;
static int h1_ru_fail;
static unsigned long h1_ru_reads;

int getrusage(__rusage_who_t who, struct rusage *ru)
{
	h1_ru_reads++;
	if (h1_ru_fail)
		return -1;
	memset(ru, 0, sizeof(*ru));
	ru->ru_majflt = h1_majflt;
	ru->ru_minflt = h1_minflt;
	return 0;
}

static int h1_cpu;

int sched_getcpu(void)
{
	return h1_cpu;
}

static char h1_statm[128] = "0 0 0 0 0 0 0\n";

FILE *fopen(const char *path, const char *mode)
{
	static FILE *(*real)(const char *, const char *);

	if (path && !strcmp(path, "/proc/self/statm"))
		return fmemopen(h1_statm, strlen(h1_statm), "r");
	if (!real)
		real = dlsym(RTLD_NEXT, "fopen");
	return real(path, mode);
}

/* watched globals: looked up by name in the executable's symbol table */
volatile unsigned long wv8 __attribute__((used));
volatile unsigned int wv4 __attribute__((used));
volatile unsigned char wv1 __attribute__((used));

/* ---- dummy traced functions: only their addresses / symbols are used ---- */
#define DUMMY(n)                                                                                   \
	__attribute__((noinline, used)) void n(void)                                               \
	{                                                                                          \
		asm volatile("nop;nop;nop;nop;nop;nop;nop;nop;nop;nop;nop;nop;nop;nop;nop;nop");   \
	}
DUMMY(f0) DUMMY(f1) DUMMY(f2) DUMMY(f3)
extern void f4(void), f5(void), f6(void), f7(void);
__attribute__((noinline, used)) void g_big(void)
{
	asm volatile(".rept 200\n nop\n .endr");
}

typedef void (*fn_t)(void);
static fn_t funcs[] = { f0, f1, f2, f3, f4, f5, f6, f7, g_big };
#define NFUNC (sizeof(funcs) / sizeof(funcs[0]))

extern int mcount_entry(unsigned long *parent_loc, unsigned long child, struct mcount_regs *regs);
extern unsigned long mcount_exit(long *retval);
extern void __cyg_profile_func_enter(void *child, void *parent);
extern void __cyg_profile_func_exit(void *child, void *parent);
extern unsigned long mcount_return_fn;

/* ---- per script-thread context ---- */
struct hframe {
	int kind; /* 0 = pg, 1 = cyg */
	int fn;
	int hijacked;
	unsigned long orig;
	unsigned long slot[4];
};

struct tctx {
	struct hframe hstack[2048];
	int hdepth;
	int cur_buf;
	unsigned cur_off;
	struct mcount_regs regs;
	long retval;
};

static struct tctx tctxs[4];
static int opno;

static void dump_new_records(struct tctx *t)
{
	struct mcount_thread_data *mtdp = get_thread_data();
	struct mcount_shmem *shmem;

	printf(" recs=");
	if (mtdp == NULL || check_thread_data(mtdp) || mtdp->shmem.buffer == NULL) {
		printf("-");
		return;
	}
	shmem = &mtdp->shmem;
	while (t->cur_buf < shmem->nr_buf) {
		struct mcount_shmem_buffer *b = shmem->buffer[t->cur_buf];
		unsigned size = b->size;

		for (; t->cur_off < size; t->cur_off++)
			printf("%02x", (unsigned char)b->data[t->cur_off]);
		if (shmem->curr > t->cur_buf) {
			t->cur_buf++;
			t->cur_off = 0;
			continue;
		}
		break;
	}
}

/*
 * the 32-bit word save_trigger_read() reads as the "argument size" on the unchanged tree
 * (finding F17c): the one at argbuf + <frame's slice> + event_idx.  For a frame without
 * events that is the first word of the next frame's slice: stale or uninitialised memory,
 * so the model takes it as an input.
 */
static void print_probe(int at_exit)
{
	struct mcount_thread_data *mtdp = get_thread_data();
	int maxst = getenv("UFTRACE_MAX_STACK") ? atoi(getenv("UFTRACE_MAX_STACK")) : 1024;
	int r;
	unsigned eidx = ARGBUF_SIZE;

	if (mtdp == NULL || check_thread_data(mtdp) || mtdp->argbuf == NULL) {
		printf(" w=na");
		return;
	}
	r = at_exit ? mtdp->idx - 1 : mtdp->idx;
	if (r < 0 || r >= maxst) {
		printf(" w=na");
		return;
	}
	if (at_exit)
		eidx = mtdp->rstack[r].event_idx;
	if (eidx >= ARGBUF_SIZE && r + 1 >= maxst) {
		printf(" w=oob");
		return;
	}
	printf(" w=%u", *(uint32_t *)((char *)mtdp->argbuf + (size_t)r * ARGBUF_SIZE + eidx));
}

/* hook ops: executed on the thread that owns `t` */
static void do_hook_op(struct tctx *t, const char *line)
{
	char op[16] = "", a1[32] = "", a2[32] = "", a3[32] = "";
	int n = sscanf(line, "%15s %31s %31s %31s", op, a1, a2, a3);

	if (!strcmp(op, "E")) {
		int fn = atoi(a2);
		struct hframe *h = &t->hstack[t->hdepth];
		int rc = 0, e;

		if (fn < 0 || fn >= (int)NFUNC || t->hdepth >= 2047) {
			printf("%d bad-op\n", opno);
			return;
		}
		h->fn = fn;
		h->orig = 0xcafe0000UL + t->hdepth * 16 + 1;
		h->slot[0] = (unsigned long)&h->slot[3];
		h->slot[1] = h->orig;
		h->hijacked = 0;
		printf("%d", opno);
		print_probe(0);
		errno = 4242;
		if (!strcmp(a1, "pg")) {
			unsigned long off = n >= 4 ? strtoul(a3, NULL, 0) : 0;

			h->kind = 0;
			rc = mcount_entry(&h->slot[1], (unsigned long)funcs[fn] + off, &t->regs);
			h->hijacked = h->slot[1] != h->orig;
		}
		else {
			h->kind = 1;
			__cyg_profile_func_enter((void *)funcs[fn], (void *)h->orig);
		}
		e = errno;
		t->hdepth++;
		if (getenv("H1_DEBUG_PROBE")) {
			struct mcount_thread_data *mtdp = get_thread_data();
			printf(" after=%u argbuf=%p", *(uint32_t *)((char *)mtdp->argbuf + (size_t)mtdp->idx * ARGBUF_SIZE), mtdp->argbuf);
		}
		printf(" rc=%d hij=%d errno=%s", rc, h->hijacked, e == 4242 ? "ok" : "BAD");
		dump_new_records(t);
		printf("\n");
	}
	else if (!strcmp(op, "X")) {
		struct hframe *h;
		int e;
		const char *ret = "-";

		if (t->hdepth == 0) {
			printf("%d bad-op\n", opno);
			return;
		}
		h = &t->hstack[--t->hdepth];
		printf("%d", opno);
		print_probe(1);
		errno = 4242;
		if (h->kind == 0) {
			if (h->hijacked) {
				long rv = t->retval;
				unsigned long back = mcount_exit(&rv);

				ret = back == h->orig ? "ok" : "BAD";
			}
		}
		else
			__cyg_profile_func_exit((void *)funcs[h->fn], (void *)h->orig);
		e = errno;
		printf(" ret=%s errno=%s", ret, e == 4242 ? "ok" : "BAD");
		dump_new_records(t);
		printf("\n");
	}
	else if (!strcmp(op, "AE")) {
		struct mcount_event_info mei;
		int rc;

		memset(&mei, 0, sizeof(mei));
		mei.id = strtoul(a1, NULL, 0);
		rc = mcount_save_event(&mei);
		printf("%d ae=%d", opno, rc);
		dump_new_records(t);
		printf("\n");
	}
	else if (!strcmp(op, "FLUSH")) {
		struct mcount_thread_data *mtdp = get_thread_data();

		int maxst = getenv("UFTRACE_MAX_STACK") ? atoi(getenv("UFTRACE_MAX_STACK")) : 1024;

		if (mtdp && !check_thread_data(mtdp) && mtdp->idx > 0 && mtdp->idx <= maxst) {
			mcount_rstack_restore(mtdp);
			record_trace_data(mtdp, &mtdp->rstack[mtdp->idx - 1], NULL);
		}
		printf("%d flush", opno);
		dump_new_records(t);
		printf("\n");
	}
	else if (!strcmp(op, "END")) {
		struct mcount_thread_data *mtdp = get_thread_data();

		if (!mtdp || check_thread_data(mtdp)) {
			printf("%d end nothread\n", opno);
			return;
		}
		printf("%d end idx=%d ridx=%d pend=%d", opno, mtdp->idx, mtdp->record_idx, mtdp->nr_events);
		printf("\n");
	}
	else
		printf("%d bad-op\n", opno);
}

/* ---- worker threads ---- */
static pthread_mutex_t wmtx = PTHREAD_MUTEX_INITIALIZER;
static pthread_cond_t wcond = PTHREAD_COND_INITIALIZER;
static const char *wline[4];
static int wdone[4];
static pthread_t wthr[4];
static int wstarted[4];

static void *worker(void *arg)
{
	int k = (int)(long)arg;

	pthread_mutex_lock(&wmtx);
	for (;;) {
		while (wline[k] == NULL)
			pthread_cond_wait(&wcond, &wmtx);
		do_hook_op(&tctxs[k], wline[k]);
		wline[k] = NULL;
		wdone[k] = 1;
		pthread_cond_broadcast(&wcond);
	}
	return NULL;
}

static void run_on(int k, const char *line)
{
	if (k == 0) {
		do_hook_op(&tctxs[0], line);
		return;
	}
	pthread_mutex_lock(&wmtx);
	if (!wstarted[k]) {
		wstarted[k] = 1;
		pthread_create(&wthr[k], NULL, worker, (void *)(long)k);
	}
	wdone[k] = 0;
	wline[k] = line;
	pthread_cond_broadcast(&wcond);
	while (!wdone[k])
		pthread_cond_wait(&wcond, &wmtx);
	pthread_mutex_unlock(&wmtx);
}

int main(void)
{
	char line[256];
	int cur = 0;

	setvbuf(stdout, NULL, _IOFBF, 1 << 16);
	{
		unsigned i;

		printf("SYMS");
		for (i = 0; i < NFUNC; i++)
			printf(" %lx", (unsigned long)funcs[i]);
		printf(" tramp=%lx vars=%lx,%lx,%lx\n", mcount_return_fn, (unsigned long)&wv8,
		       (unsigned long)&wv4, (unsigned long)&wv1);
	}

	while (fgets(line, sizeof(line), stdin)) {
		char op[16] = "", a1[32] = "", a2[32] = "", a3[32] = "";
		int n = sscanf(line, "%15s %31s %31s %31s", op, a1, a2, a3);
		struct tctx *t = &tctxs[cur];

		if (n < 1 || op[0] == '#')
			continue;
		opno++;
		if (!strcmp(op, "T")) {
			h1_now = strtoull(a1, NULL, 0);
			printf("%d ok\n", opno);
		}
		else if (!strcmp(op, "TICK")) {
			h1_tick = strtoull(a1, NULL, 0);
			printf("%d ok\n", opno);
		}
		else if (!strcmp(op, "A")) {
			int k = atoi(a1);
			unsigned long v = strtoull(a2, NULL, 16);
			unsigned long *r[6] = { &t->regs.rdi, &t->regs.rsi, &t->regs.rdx,
						&t->regs.rcx, &t->regs.r8,  &t->regs.r9 };

			if (k >= 0 && k < 6)
				*r[k] = v;
			printf("%d ok\n", opno);
		}
		else if (!strcmp(op, "RV")) {
			t->retval = strtoull(a1, NULL, 16);
			printf("%d ok\n", opno);
		}
		else if (!strcmp(op, "RU")) {
			if (!strcmp(a1, "fail"))
				h1_ru_fail = 1;
			else {
				h1_ru_fail = 0;
				h1_majflt = strtol(a1, NULL, 0);
				h1_minflt = strtol(a2, NULL, 0);
			}
			printf("%d ok\n", opno);
		}
		else if (!strcmp(op, "SM")) {
			snprintf(h1_statm, sizeof(h1_statm), "%s %s %s 0 0 0 0\n", a1, a2, a3);
			printf("%d ok\n", opno);
		}
		else if (!strcmp(op, "CPU")) {
			h1_cpu = atoi(a1);
			printf("%d ok\n", opno);
		}
		else if (!strcmp(op, "V")) {
			unsigned long v = strtoull(a2, NULL, 16);

			switch (atoi(a1)) {
			case 0:
				wv8 = v;
				break;
			case 1:
				wv4 = v;
				break;
			default:
				wv1 = v;
				break;
			}
			printf("%d ok\n", opno);
		}
		else if (!strcmp(op, "TH")) {
			int k = atoi(a1);

			if (k >= 0 && k < 4)
				cur = k;
			printf("%d ok\n", opno);
		}
		else if (!strcmp(op, "END")) {
			run_on(cur, line);
			break;
		}
		else
			run_on(cur, line);
	}
	fflush(stdout);
	return 0;
}
