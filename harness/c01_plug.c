/* C01 e2e (H5): the library the `dl` scenario of harness/c01_w.c loads with dlopen(); built with
 * the same instrumentation flags as the program.  Constructor and destructor are observable. */
#include <stdio.h>
#include <stdlib.h>
#include <math.h>
#include <setjmp.h>
#include "c01_common.h"

static int plug_loaded;
__attribute__((constructor)) static void plug_init(void) { plug_loaded++; printf("plug: loaded %d\n", plug_loaded); }
__attribute__((destructor)) static void plug_fini(void) { printf("plug: unloaded\n"); }

NI static int plug_cmp(const void *a, const void *b) { return *(const int *)a - *(const int *)b; }
NI static double plug_inner(double x, int n) { return n <= 0 ? x : plug_inner(x * 1.5 + P_K1, n - 1) + 0.125; }
NI long plug_calc(long x, long (*cb)(long))
{
	int arr[P_NARR] = P_ARR;
	qsort(arr, P_NARR, sizeof(arr[0]), plug_cmp);
	return cb(x) * 3 + arr[0] + arr[P_NARR - 1] + (long)fp_leaf(x, 0.5f, 2);
}
NI double plug_fcalc(double x, int n) { struct dd r = fp_dd(x, n); return plug_inner(x, n) + sqrt(r.a + r.b + 4.0); }
/* a longjmp() done by the library on behalf of the program (the error exit of libpng, libjpeg, lua, ...) */
NI void plug_bail(jmp_buf jb, int val) { longjmp(jb, val); }
NI long plug_visit(long (*cb)(long), long n) { long s = 0; for (long i = 0; i < n; i++) s += cb(i); return s; }
