"""C09 — argument capture after the filters of a RUNNING process were updated through the libmcount agent.
Loaded by checks/c09.py (`bind(K)`).

  `uftrace record --agent --keep-pid -A … -R … ./prog` starts a generated -pg program that calls its target functions
  (2-4 parameters of kinds int / long / char / const char * in random order, each logging its own values through
  write(2)), then blocks in read(0) on a fifo.  Meanwhile `uftrace live -p PID <option>` sends a (harmless) filter /
  trigger update: the agent deep-copies the whole trigger tree (utils/filter.c deep_copy_triggers /
  deep_copy_filter), applies the option to the copy and swaps it in.  The program is released and calls the
  target functions again.  Monitor = the property: the replay text of every call, before and after the update,
  is the call the program logged; the traced program's output and exit status are those of the untraced run.
  H4 tie for the copy itself: harness/c09_deepcopy.c (#include of utils/filter.c) compares the spec list of every
  filter of a copied tree with the original, field by field and in order — Lean: c09_deep_copy_preserves_spec_order.
"""
import os
import re
import signal
import subprocess
import time

K = None
C = None


def bind(mod):
    global K, C
    K = mod
    C = mod.C


KINDS = {
    "i32": ("int", "%d", "i32"),
    "i64": ("long", "%ld", "i64"),
    "s": ("const char *", "%s", "s"),
    "u8": ("unsigned char", "%u", "u8"),
}
WORDS = ["before", "after-the-update", "", "x", "a b c", "label/7", "0x1234", "<0xdead>", "zzzzzzzzzzzzzzzzzzzzzzzzzzzzzzzzzzzzzzzz",
         "tab-less", "UPPER lower 123", "-1", "NULL"]


class AgentCase:
    def __init__(self, name):
        self.name = name
        self.fns = []        # (name, [kind, …], retkind or None)
        self.calls = [[], []]  # phase -> [(fn index, [values])]
        self.client = []

    def options(self):
        o = []
        for nm, kinds, ret in self.fns:
            o += ["-A", "%s@%s" % (nm, ",".join("arg%d/%s" % (i + 1, KINDS[k][2]) for i, k in enumerate(kinds)))]
            if ret:
                o += ["-R", "%s@retval/%s" % (nm, KINDS[ret][2])]
        o += ["-A", "helper@arg1/i32"]
        return o


def rand_val(rng, k):
    if k == "i32":
        return rng.choice((0, 1, -1, 41, 2147483647, -2147483648, rng.randrange(-10 ** 6, 10 ** 6)))
    if k == "i64":
        return rng.choice((0, 7, -7, 1 << 40, -(1 << 40), (1 << 63) - 1, rng.randrange(-10 ** 12, 10 ** 12)))
    if k == "u8":
        return rng.randrange(256)
    return rng.choice(WORDS)


def gen_case(rng, i):
    c = AgentCase("agent%d" % i)
    if i == 0:
        c.fns = [("set_label", ["i32", "s", "i64"], "i64")]
    else:
        for j in range(rng.randrange(1, 3)):
            n = rng.randrange(2, 5)
            kinds = [rng.choice(("i32", "i64", "s", "s", "u8")) for _ in range(n)]
            if len(set(kinds)) == 1 and kinds[0] != "s":
                kinds[rng.randrange(n)] = "s"
            c.fns.append(("work%d" % j, kinds, rng.choice((None, "i32", "i64"))))
    for ph in (0, 1):
        for _ in range(rng.randrange(2, 5)):
            f = rng.randrange(len(c.fns))
            c.calls[ph].append((f, [rand_val(rng, k) for k in c.fns[f][1]]))
    c.client = rng.choice((["-T", "helper@depth=1"], ["-N", "never_called"], ["-T", "helper@time=1us"],
                           ["-T", "helper@depth=1"]))
    return c


def cstr(s):
    return '"' + "".join("\\%03o" % b for b in s.encode()) + '"'


def program(c):
    src = ['#include <stdio.h>', '#include <string.h>', '#include <unistd.h>',
           '__attribute__((no_instrument_function)) static void out(const char *b, int n) { if (write(1, b, n) < 0) _exit(3); }',
           '__attribute__((noinline)) int helper(int n) { asm volatile(""); return n + 1; }',
           '__attribute__((noinline)) int never_called(int n) { asm volatile(""); return n + 2; }']
    for nm, kinds, ret in c.fns:
        params = ", ".join("%s a%d" % (KINDS[k][0], i) for i, k in enumerate(kinds))
        rt = KINDS[ret][0] if ret else "void"
        fmt = " ".join("[" + KINDS[k][1] + "]" for k in kinds)
        args = ", ".join(("(unsigned)a%d" % i) if k == "u8" else "a%d" % i for i, k in enumerate(kinds))
        body = ['__attribute__((noinline)) %s %s(%s)' % (rt, nm, params), '{', '\tchar b[900];',
                '\tint n = snprintf(b, sizeof(b), "%s %s\\n", %s);' % (nm, fmt, args), '\tout(b, n);']
        if ret:
            # the return value: the first integer parameter plus 1000 (or 1000)
            ints = [i for i, k in enumerate(kinds) if k in ("i32", "u8")]
            x = ("a%d" % ints[0]) if ints else "0"
            body.append('\treturn (long)%s + 1000;' % x if ret == "i64" else '\treturn (int)((unsigned)%s + 1000u);' % x)
        body.append('}')
        src += body
    src += ['int main(void)', '{', '\tchar ch;']
    for ph in (0, 1):
        for f, vals in c.calls[ph]:
            nm, kinds, _ret = c.fns[f]
            a = ", ".join(cstr(v) if k == "s" else ("%dL" % v if k == "i64" and v != -(1 << 63) else str(v))
                          for k, v in zip(kinds, vals))
            src.append("\t%s(%s);" % (nm, a))
            src.append("\thelper(%d);" % ph)
        if ph == 0:
            src += ['\tout("PHASE\\n", 6);', '\tif (read(0, &ch, 1) < 0) return 1;']
    src += ['\treturn 0;', '}', '']
    return "\n".join(src)


def expected_lines(c):
    """replay text (-f none) of the target calls, from the case description"""
    out = []
    for ph in (0, 1):
        for f, vals in c.calls[ph]:
            nm, kinds, ret = c.fns[f]
            a = ", ".join('"%s"' % v if k == "s" else str(v) for k, v in zip(kinds, vals))
            t = "%s(%s)" % (nm, a)
            if ret:
                ints = [v for k, v in zip(kinds, vals) if k in ("i32", "u8")]
                rv = (ints[0] if ints else 0) + 1000
                if ret == "i32":
                    rv = (rv + (1 << 31)) % (1 << 32) - (1 << 31)
                t += " = %d" % rv
            out.append((ph, t + ";"))
    return out


def _b(x):
    return x if isinstance(x, bytes) else (x or "").encode()


def kill_group(p):
    try:
        os.killpg(p.pid, signal.SIGKILL)
    except (ProcessLookupError, PermissionError):
        pass


def group_alive(pgid):
    try:
        os.killpg(pgid, 0)
        return True
    except ProcessLookupError:
        return False
    except PermissionError:
        return True


def run_case(ctx, c, idx):
    """-> dict(error=… | harness=…, lines=[…])"""
    uft = os.path.join(ctx.src, "uftrace")
    d = os.path.join(ctx.scratch, "agent-%d" % idx)
    os.makedirs(d, exist_ok=True)
    src = program(c)
    open(os.path.join(d, "p.c"), "w").write(src)
    exe = os.path.join(d, "p")
    r = C.sh(["gcc", "-O0", "-pg", "-o", exe, os.path.join(d, "p.c")])
    res = {"src": src, "record": None}
    if r.returncode != 0:
        res["harness"] = "gcc: " + r.stdout[-300:]
        return res
    env = dict(os.environ)
    env.pop("UFTRACE_DIR", None)
    rc0, native, _e, _t = C.run_bounded([exe], 20, input=b"g", env=env, cwd=d, text=False)
    native = _b(native)
    if rc0 != 0:
        res["harness"] = "the generated program fails without tracing: rc=%s" % rc0
        return res
    fifo = os.path.join(d, "go")
    os.mkfifo(fifo)
    outp = os.path.join(d, "prog.out")
    cmd = [uft, "record", "--libmcount-path=" + os.path.join(ctx.src, "libmcount"), "--agent", "--keep-pid", "--no-event",
           "--no-libcall", "--no-pager"] + c.options() + ["-d", os.path.join(d, "data"), exe]
    res["record"] = " ".join(cmd[:1] + cmd[2:]) + "  ;  uftrace live -p <pid> " + " ".join(c.client)
    # own process group, hard deadline, the whole group is killed at the end (same guarantees as C.run_bounded;
    # the run is interactive: the client talks to the agent while the program waits on the fifo)
    rfd = os.open(fifo, os.O_RDONLY | os.O_NONBLOCK)
    wfd = os.open(fifo, os.O_WRONLY)
    fout = open(outp, "wb")
    ferr = open(os.path.join(d, "record.err"), "wb")
    os.set_blocking(rfd, True)
    p = subprocess.Popen(cmd, stdin=rfd, stdout=fout, stderr=ferr, env=env, cwd=d, start_new_session=True)
    os.close(rfd)
    deadline = time.time() + 60
    try:
        sock = "/tmp/uftrace/%d.socket" % p.pid
        while True:
            if p.poll() is not None:
                res["error"] = "uftrace record --agent ended before the program was released: rc=%s %s" % (
                    p.returncode, open(os.path.join(d, "record.err"), "rb").read()[-300:].decode("utf-8", "replace"))
                return res
            if os.path.exists(sock) and b"PHASE\n" in open(outp, "rb").read():
                break
            if time.time() > deadline:
                res["harness"] = "the agent socket did not appear / the program did not reach its wait point"
                return res
            time.sleep(0.05)
        crc, cout, cerr, cto = C.run_bounded([uft, "live", "-p", str(p.pid)] + c.client, 30, env=env, cwd=d)
        if crc != 0 or cto:
            res["harness"] = "agent client failed: rc=%s %s" % (crc, (cout + cerr)[-300:])
            return res
        time.sleep(1.0)          # the agent installs the new table right after the connection is closed
        os.write(wfd, b"g")
        os.close(wfd)
        wfd = -1
        try:
            p.wait(timeout=max(1, deadline - time.time()))
        except subprocess.TimeoutExpired:
            res["error"] = "the traced program did not finish after the agent update"
            return res
        while group_alive(p.pid) and time.time() < deadline:
            time.sleep(0.05)
        if group_alive(p.pid):
            res["error"] = "the recorder did not finish"
            return res
    finally:
        if wfd >= 0:
            os.close(wfd)
        kill_group(p)
        try:
            p.wait(timeout=5)
        except subprocess.TimeoutExpired:
            pass
        fout.close()
        ferr.close()
    res["rc"] = p.returncode
    res["traced_out"] = open(outp, "rb").read()
    res["native_out"] = native
    rrc, rep, rerr, _t = C.run_bounded([uft, "replay", "-d", os.path.join(d, "data"), "--no-pager", "--color=no", "-f", "none"], 30, env=env, cwd=d, text=False)
    rep, rerr = _b(rep), _b(rerr)
    res["replay_rc"] = rrc
    res["replay"] = (rep + rerr).decode("utf-8", "replace")
    res["lines"] = [l.strip() for l in rep.decode("utf-8", "replace").split("\n") if re.match(r"\s*(work\d|set_label)\(", l)]
    return res


def run_family(ctx, made_ok, thorough):
    cov = {"ran": 0, "calls": 0, "calls_after_update": 0, "skipped": None}
    if not made_ok or not os.path.exists(os.path.join(ctx.src, "uftrace")):
        cov["skipped"] = "no uftrace build"
        return cov
    cases = [gen_case(ctx.rng, i) for i in range(3 if not thorough else 20)]
    from concurrent.futures import ThreadPoolExecutor
    with ThreadPoolExecutor(3) as ex:
        results = list(ex.map(lambda ic: run_case(ctx, ic[1], ic[0]), enumerate(cases)))
    nharness = 0
    for c, r in zip(cases, results):
        base = {"family": "agent (record --agent --keep-pid; uftrace live -p PID updates the filters while the program waits)",
                "case": c.name, "functions": [(nm, kinds, ret) for nm, kinds, ret in c.fns],
                "calls_before_update": c.calls[0], "calls_after_update": c.calls[1], "client_options": c.client,
                "record": r.get("record"), "program": r.get("src")}
        if "harness" in r:
            nharness += 1
            cov.setdefault("harness_problems", []).append(r["harness"][:200])
            continue
        if "error" in r:
            C.violation(ctx, "agent-%s-run" % c.name, dict(base, kind="property-violated-on-implementation", what=r["error"]))
            continue
        cov["ran"] += 1
        if r["rc"] != 0 or r["traced_out"] != r["native_out"]:
            C.violation(ctx, "agent-%s-run" % c.name, dict(base, kind="property-violated-on-implementation",
                        what="the traced program behaves differently: rc=%s, stdout %r, untraced %r"
                             % (r["rc"], r["traced_out"][-300:], r["native_out"][-300:])))
            continue
        want = expected_lines(c)
        # the program's own log must agree with the case description (harness sanity)
        logged = [l for l in r["traced_out"].decode("utf-8", "replace").split("\n") if re.match(r"(work\d|set_label) \[", l)]
        if len(logged) != len(want):
            nharness += 1
            cov.setdefault("harness_problems", []).append("log has %d of %d calls" % (len(logged), len(want)))
            continue
        got = r["lines"]
        cov["calls"] += len(want)
        cov["calls_after_update"] += sum(1 for ph, _t in want if ph == 1)
        if got != [t for _ph, t in want]:
            i = next((i for i in range(max(len(got), len(want))) if i >= len(got) or i >= len(want) or got[i] != want[i][1]), 0)
            C.violation(ctx, "agent-%s-%d" % (c.name, i), dict(base, kind="property-violated-on-implementation",
                        what="call #%d (%s the agent update): the program called %r, replay shows %r"
                             % (i, "after" if i < len(want) and want[i][0] == 1 else "before",
                                want[i][1] if i < len(want) else None, got[i] if i < len(got) else None),
                        program_log=logged, replay=r["replay"].split("\n")[:60], replay_rc=r["replay_rc"],
                        theorem="c09_deep_copy_preserves_spec_order (the copied trigger tree lays the payload out as the "
                                "info file describes it) + c09_parse_pack"))
    if nharness == len(cases):
        C.violation(ctx, "agent-harness", {"kind": "harness-failed", "what": "no agent case could be run",
                                            "problems": cov.get("harness_problems")}, no_failing_input=True)
    return cov
