/*
 * H1 driver for C03 / C04: the real libmcount (libmcount/record.c, misc.c, mcount.c, utils/shmem.c
 * of the scratch snapshot, linked statically) is the PRODUCER; this file plays the recorder's part
 * by hand against the real shared-memory buffers and the real `.channel` FIFO, under a scripted
 * schedule, and injects allocation failures.
 *
 * Producer threads are real pthreads (thread k = tid k of the model); each executes one op at a
 * time when the script tells it to.  An op calls the real record_trace_data() on a shadow stack
 * prepared by the script (so that batch composition, record sizes and payloads are chosen freely),
 * the real mcount_prepare() / mtd_dtor().
 *
 * stdin (one op per line), stdout: one line per op "<ok|disabled> <state>" in the format of the
 * Lean driver (lean/Driver/C03.lean, showState):
 *   RESET <nwriters> <maxsize> <fixed>
 *   P <k> prepare | finish | ftrig
 *   P <k> rtd <ok> <failkind> <np> {<ip> <payload>}*np <ownip> <ownpayload> <ownwritten> <exit>
 *   K <k>
 *   R read | R flush <k> <i> | R flushall | R stop | R remaining
 *   W <w> pick | write | splice
 *   SEGVSELF <ncyg> <sig>      enter ncyg functions through __cyg_profile_func_enter, then raise(sig)
 *   STEPKILL <k> <nth> rtd …   (C04) run the rtd op in a forked, ptrace-single-stepped copy and stop it
 *                              at the nth observable change of the thread's current buffer header
 *
 * (C04) a call history through the real hooks on the main thread, under whatever record-time filters the
 * UFTRACE_* environment sets (lib/mcgen.py), ended by a real signal / a finish trigger; the records are read
 * from the shared-memory buffers the dead process leaves behind:
 *   T <n> | TICK <n>           scripted clock (TICK 0: the clock stands still between T ops)
 *   E pg <i> | E cyg <i>       mcount_entry() with a fake return slot / __cyg_profile_func_enter() of function i
 *                              (0..7 = f0..f7, 8 = g_big)
 *   X                          return from the innermost open call of the script
 *   RAISE <sig>                raise(sig): the real segv_handler runs on the shadow stack the history built
 */
#define _GNU_SOURCE
#include <dlfcn.h>
#include <errno.h>
#include <fcntl.h>
#include <pthread.h>
#include <signal.h>
#include <stdint.h>
#include <stdio.h>
#include <stdlib.h>
#include <string.h>
#include <sys/mman.h>
#include <sys/ptrace.h>
#include <sys/stat.h>
#include <sys/syscall.h>
#include <sys/types.h>
#include <sys/wait.h>
#include <time.h>
#include <unistd.h>

#include "libmcount/internal.h"
#include "libmcount/mcount.h"
#include "uftrace.h"
#include "utils/utils.h"

extern void mtd_dtor(void *arg);
extern void __cyg_profile_func_enter(void *child, void *parent);

/* ---- scripted clock ---- */
static uint64_t h1_now = 1000;
static uint64_t h1_tick = 1;
int clock_gettime(clockid_t id, struct timespec *ts)
{
	ts->tv_sec = h1_now / 1000000000ULL;
	ts->tv_nsec = h1_now % 1000000000ULL;
	h1_now += h1_tick;
	return 0;
}

/* ---- allocation failure injection (only while a producer op with ok=0 runs) ---- */
static volatile int fail_armed;
static volatile int fail_kind; /* 0 shm_open, 1 realloc, 2 mmap, 3 ftruncate */
static volatile int fail_fired;

extern void *__libc_realloc(void *p, size_t n);

int shm_open(const char *name, int oflag, mode_t mode)
{
	char path[256];

	if (fail_armed && fail_kind == 0 && (oflag & O_CREAT)) {
		fail_fired++;
		errno = ENOSPC;
		return -1;
	}
	snprintf(path, sizeof(path), "/dev/shm%s", name);
	return open(path, oflag | O_CLOEXEC | O_NOFOLLOW, mode);
}

void *realloc(void *p, size_t n)
{
	if (fail_armed && fail_kind == 1) {
		fail_fired++;
		errno = ENOMEM;
		return NULL;
	}
	return __libc_realloc(p, n);
}

void *mmap(void *addr, size_t len, int prot, int flags, int fd, off_t off)
{
	if (fail_armed && fail_kind == 2 && (flags & MAP_SHARED)) {
		fail_fired++;
		errno = ENOMEM;
		return MAP_FAILED;
	}
	return (void *)syscall(SYS_mmap, addr, len, prot, flags, fd, off);
}

int ftruncate(int fd, off_t len)
{
	if (fail_armed && fail_kind == 3) {
		fail_fired++;
		errno = ENOSPC;
		return -1;
	}
	return syscall(SYS_ftruncate, fd, len);
}

/* ---- producer threads ---- */
#define MAXT 8
#define MAXREC 64

struct rtd_op {
	int ok, failkind, np, exit_, ownwritten;
	unsigned long ip[MAXREC];
	unsigned payload[MAXREC];
};

struct worker {
	pthread_t th;
	pthread_mutex_t mu;
	pthread_cond_t cv;
	int cmd; /* 0 idle, 1 prepare, 2 rtd, 3 finish, 4 ftrig, 9 quit */
	int done;
	struct rtd_op op;
	struct mcount_thread_data *mtdp;
	int tid;
	int prepared;
	int killed;
	int finished;
} workers[MAXT + 1];

static unsigned payload_of[1 << 16]; /* by ip */

static void do_rtd(struct worker *w)
{
	struct mcount_thread_data *mtdp = w->mtdp;
	struct rtd_op *op = &w->op;
	int i, n = op->np;

	for (i = 0; i <= n; i++) {
		struct mcount_ret_stack *rs = &mtdp->rstack[i];

		memset(rs, 0, sizeof(*rs));
		rs->parent_loc = &mtdp->cygprof_dummy;
		rs->child_ip = op->ip[i];
		rs->parent_ip = 0x1234;
		rs->depth = i;
		rs->dyn_idx = MCOUNT_INVALID_DYNIDX;
		rs->start_time = h1_now++;
		rs->flags = MCOUNT_FL_CYGPROF;
		rs->event_idx = ARGBUF_SIZE;
		if (op->payload[i]) {
			unsigned char *ab = (unsigned char *)mtdp->argbuf + i * ARGBUF_SIZE;
			unsigned k;

			rs->flags |= MCOUNT_FL_ARGUMENT;
			*(unsigned *)ab = op->payload[i];
			for (k = 0; k < op->payload[i]; k++)
				ab[4 + k] = 0xa0 + (k & 0xf);
		}
	}
	if (op->ownwritten)
		mtdp->rstack[n].flags |= MCOUNT_FL_WRITTEN;
	if (op->exit_)
		mtdp->rstack[n].end_time = h1_now++;
	mtdp->idx = n + 1;
	fail_kind = op->failkind;
	fail_armed = op->ok ? 0 : w->tid;
	record_trace_data(mtdp, &mtdp->rstack[n], NULL);
	fail_armed = 0;
	mtdp->idx = 0;
}

static void do_cmd(struct worker *w, int cmd);

static void *worker_main(void *arg)
{
	struct worker *w = arg;

	w->tid = syscall(SYS_gettid);
	pthread_mutex_lock(&w->mu);
	for (;;) {
		while (w->cmd == 0)
			pthread_cond_wait(&w->cv, &w->mu);
		if (w->cmd == 9)
			break;
		do_cmd(w, w->cmd);
		w->cmd = 0;
		w->done = 1;
		pthread_cond_broadcast(&w->cv);
	}
	pthread_mutex_unlock(&w->mu);
	return NULL;
}

static int inline_mode; /* H1C03_INLINE=1: producer 1 is the main thread (needed for STEP: fork keeps it) */

static void do_cmd(struct worker *w, int cmd)
{
	switch (cmd) {
	case 1:
		w->mtdp = mcount_prepare();
		if (w->mtdp) {
			w->mtdp->recursion_marker = false;
			w->prepared = 1;
		}
		break;
	case 2:
		do_rtd(w);
		break;
	case 4:
		mcount_global_flags |= MCOUNT_GFL_FINISH;
		/* fall through */
	case 3:
		w->mtdp->idx = 0;
		mtd_dtor(w->mtdp);
		w->finished = 1;
		break;
	}
}

static void run_cmd(struct worker *w, int cmd)
{
	if (inline_mode && w == &workers[1]) {
		do_cmd(w, cmd);
		return;
	}
	pthread_mutex_lock(&w->mu);
	w->done = 0;
	w->cmd = cmd;
	pthread_cond_broadcast(&w->cv);
	while (!w->done)
		pthread_cond_wait(&w->cv, &w->mu);
	pthread_mutex_unlock(&w->mu);
}

static int k_of_tid(int tid)
{
	int k;

	for (k = 1; k <= MAXT; k++)
		if (workers[k].tid == tid)
			return k;
	return 0;
}

/* ---- the stand-in recorder ---- */
struct wbuf {
	int k, idx;
};
#define QMAX 4096
struct wlist {
	struct wbuf b[QMAX];
	int n;
};
static void wl_push(struct wlist *l, struct wbuf b)
{
	l->b[l->n++] = b;
}
static struct wbuf wl_pop(struct wlist *l)
{
	struct wbuf b = l->b[0];

	memmove(&l->b[0], &l->b[1], sizeof(b) * --l->n);
	return b;
}

struct msg {
	int type, k, idx, n;
};
static struct msg pipeq[QMAX];
static int npipe;
static struct wlist shmlist, writelist;
static struct {
	int k; /* 0 = not registered */
	struct wlist head, bufs;
} writers[16];
static int nwriters = 1, buf_done, lost_count, kicks;
static int fifo_fd = -1;
static unsigned bufsize;
static char sess[32];

struct ilist {
	long *v;
	int n, cap;
};
static struct ilist files[MAXT + 1];
static void il_push(struct ilist *l, long v)
{
	if (l->n == l->cap) {
		l->cap = l->cap ? l->cap * 2 : 256;
		l->v = __libc_realloc(l->v, l->cap * sizeof(long));
	}
	l->v[l->n++] = v;
}

/* decode `size` bytes of a buffer into item ids: entry 2*ip, exit 2*ip+1, LOST -n, torn ~ */
static void decode_items(const unsigned char *data, unsigned size, struct ilist *out, char *txt, size_t txtlen)
{
	unsigned off = 0;
	size_t pos = 0;

	if (txt)
		txt[0] = 0;
	while (off + 16 <= size) {
		uint64_t w;
		unsigned type, more;
		unsigned long addr;
		long id;
		char one[32];
		int torn = 0;

		memcpy(&w, data + off + 8, 8);
		type = w & 3;
		more = (w >> 2) & 1;
		addr = w >> 16;
		off += 16;
		if (type == UFTRACE_LOST) {
			id = -(long)addr;
			snprintf(one, sizeof(one), "L%lu", addr);
		}
		else {
			id = addr * 2 + (type == UFTRACE_EXIT);
			if (more) {
				unsigned p = payload_of[addr & 0xffff];

				if (off + p > size)
					torn = 1;
				else
					off += p;
			}
			snprintf(one, sizeof(one), "%s%ld", torn ? "~" : "", id);
		}
		if (out)
			il_push(out, torn ? -1000000 - id : id);
		if (txt && pos + strlen(one) + 2 < txtlen)
			pos += snprintf(txt + pos, txtlen - pos, "%s%s", pos ? "," : "", one);
		if (torn)
			break;
	}
	if (off != size && txt && pos + 8 < txtlen)
		snprintf(txt + pos, txtlen - pos, "%sTRAIL%u", pos ? "," : "", size - off);
}

static void drain_fifo(int curk)
{
	static unsigned char buf[1 << 16];
	static size_t have;

	for (;;) {
		ssize_t r = read(fifo_fd, buf + have, sizeof(buf) - have);

		if (r <= 0)
			break;
		have += r;
	}
	for (;;) {
		struct uftrace_msg m;
		struct msg q = { 0, 0, 0, 0 };

		if (have < sizeof(m))
			break;
		memcpy(&m, buf, sizeof(m));
		if (have < sizeof(m) + m.len)
			break;
		if (m.type == UFTRACE_MSG_REC_START || m.type == UFTRACE_MSG_REC_END) {
			char id[64];
			int tid = 0, seq = 0;

			memcpy(id, buf + sizeof(m), m.len);
			id[m.len] = 0;
			if (!sess[0]) {
				/* tell the wrapper at once (unbuffered): it removes the session's files even if
				 * this process dies */
				sscanf(id, "/uftrace-%16[0-9a-f]-", sess);
				dprintf(2, "SESS %s\n", sess);
			}
			sscanf(id, "/uftrace-%16[0-9a-f]-%d-%d", sess, &tid, &seq);
			q.type = m.type;
			q.k = k_of_tid(tid);
			q.idx = seq;
			pipeq[npipe++] = q;
		}
		else if (m.type == UFTRACE_MSG_LOST) {
			int n;

			memcpy(&n, buf + sizeof(m), 4);
			q.type = m.type;
			q.k = curk;
			q.n = n;
			pipeq[npipe++] = q;
		}
		else if (m.type == UFTRACE_MSG_FINISH) {
			q.type = m.type;
			pipeq[npipe++] = q;
		}
		have -= sizeof(m) + m.len;
		memmove(buf, buf + sizeof(m) + m.len, have);
	}
}

static struct mcount_shmem_buffer *map_buf(struct wbuf b)
{
	char name[128];
	int fd;
	void *p;

	snprintf(name, sizeof(name), "/dev/shm/uftrace-%s-%d-%03d", sess, workers[b.k].tid, b.idx);
	fd = open(name, O_RDWR);
	if (fd < 0)
		return NULL;
	p = (void *)syscall(SYS_mmap, NULL, bufsize, PROT_READ | PROT_WRITE, MAP_SHARED, fd, 0);
	close(fd);
	return p == MAP_FAILED ? NULL : p;
}

/* copy_to_buffer */
static void enqueue(struct wbuf b)
{
	int i;

	for (i = 0; i < nwriters; i++)
		if (writers[i].k == b.k) {
			wl_push(&writers[i].bufs, b);
			return;
		}
	wl_push(&writelist, b);
	kicks++;
}

/* record_mmap_file */
static void record_mmap(struct wbuf b)
{
	struct mcount_shmem_buffer *sb = map_buf(b);

	if (!sb)
		return;
	if ((sb->flag & SHMEM_FL_RECORDING) && sb->size)
		enqueue(b);
	syscall(SYS_munmap, sb, bufsize);
}

/* write_buffer (+ flag = WRITTEN) */
static void write_out(struct wbuf b, int set_written)
{
	struct mcount_shmem_buffer *sb = map_buf(b);

	if (!sb)
		return;
	decode_items((unsigned char *)sb->data, sb->size, &files[b.k], NULL, 0);
	sb->size = 0;
	__sync_synchronize();
	if (set_written)
		sb->flag = SHMEM_FL_WRITTEN;
	syscall(SYS_munmap, sb, bufsize);
}

static int shm_remove(struct wbuf b)
{
	int i;

	for (i = 0; i < shmlist.n; i++)
		if (shmlist.b[i].k == b.k && shmlist.b[i].idx == b.idx) {
			memmove(&shmlist.b[i], &shmlist.b[i + 1], sizeof(b) * (shmlist.n - i - 1));
			shmlist.n--;
			return 1;
		}
	return 0;
}

/* ---- state dump in the Lean driver's format ---- */
static void wl_print(struct wlist *l)
{
	int i;

	for (i = 0; i < l->n; i++)
		printf("%s%d.%d", i ? "," : "", l->b[i].k, l->b[i].idx);
}

static void dump_state(const char *pre)
{
	int k, i, first = 1;
	static char txt[1 << 16];

	printf("%s ", pre);
	for (k = 1; k <= MAXT; k++) {
		struct worker *w = &workers[k];
		struct mcount_shmem *sh;

		if (!w->prepared)
			continue;
		sh = &w->mtdp->shmem;
		printf("%sT%d alive=%d done=%d curr=", first ? "" : " | ", k, !w->killed, (int)sh->done);
		first = 0;
		if (sh->curr < 0)
			printf("-");
		else
			printf("%d", sh->curr);
		printf(" losts=%d bufs=[", sh->losts);
		for (i = 0; sh->buffer && i < sh->nr_buf; i++) {
			struct mcount_shmem_buffer *b = sh->buffer[i];

			decode_items((unsigned char *)b->data, b->size, NULL, txt, sizeof(txt));
			printf("%s%s%s%s:%s", i ? ";" : "", (b->flag & SHMEM_FL_RECORDING) ? "R" : "",
			       (b->flag & SHMEM_FL_WRITTEN) ? "W" : "", (b->flag & SHMEM_FL_NEW) ? "N" : "", txt);
		}
		printf("]");
	}
	printf(" | PIPE=[");
	for (i = 0; i < npipe; i++) {
		struct msg *m = &pipeq[i];

		if (i)
			printf(",");
		if (m->type == UFTRACE_MSG_REC_START)
			printf("S%d.%d", m->k, m->idx);
		else if (m->type == UFTRACE_MSG_REC_END)
			printf("E%d.%d", m->k, m->idx);
		else if (m->type == UFTRACE_MSG_LOST)
			printf("L%d.%d", m->k, m->n);
		else
			printf("F");
	}
	printf("] SHM=[");
	wl_print(&shmlist);
	printf("] WL=[");
	wl_print(&writelist);
	printf("] WR=[");
	for (i = 0; i < nwriters; i++) {
		if (i)
			printf(";");
		if (writers[i].k)
			printf("%d:", writers[i].k);
		else
			printf("-:");
		wl_print(&writers[i].head);
		printf(":");
		wl_print(&writers[i].bufs);
	}
	printf("] LOST=%d", lost_count);
	for (k = 1; k <= MAXT; k++) {
		if (!workers[k].prepared)
			continue;
		printf(" F%d=[", k);
		for (i = 0; i < files[k].n; i++) {
			long v = files[k].v[i];

			if (i)
				printf(",");
			if (v <= -1000000)
				printf("~%ld", -1000000 - v);
			else if (v < 0)
				printf("L%ld", -v);
			else
				printf("%ld", v);
		}
		printf("]");
	}
	printf("\n");
}

/* ---- dummy functions for the SEGV test ---- */
#define DUMMY(n)                                                                                   \
	__attribute__((noinline, used)) void n(void)                                               \
	{                                                                                          \
		asm volatile("nop;nop;nop;nop;nop;nop;nop;nop;nop;nop;nop;nop;nop;nop;nop;nop");   \
	}
DUMMY(f0) DUMMY(f1) DUMMY(f2) DUMMY(f3)
extern void f4(void), f5(void), f6(void), f7(void);
/* a bigger function for size filters */
__attribute__((noinline, used)) void g_big(void)
{
	asm volatile(".rept 200\n nop\n .endr");
}
typedef void (*fn_t)(void);
static fn_t funcs[] = { f0, f1, f2, f3, f4, f5, f6, f7, g_big };
#define NFUNC (sizeof(funcs) / sizeof(funcs[0]))

/* ---- (C04) the script's own call stack for the hook history (as harness/h1_driver.c) ---- */
extern int mcount_entry(unsigned long *parent_loc, unsigned long child, struct mcount_regs *regs);
extern unsigned long mcount_exit(long *retval);
extern void __cyg_profile_func_exit(void *child, void *parent);
struct hframe {
	int kind; /* 0 = pg, 1 = cyg */
	int fn;
	int hijacked;
	unsigned long orig;
	unsigned long slot[4]; /* slot[1] is the fake return slot; slot[0] plays parent_loc[-1] */
};
static struct hframe hstack[4096];
static int hdepth;

static int parse_rtd(char **tok, int nt, struct rtd_op *op)
{
	int i, p = 0;

	if (nt < 3)
		return -1;
	op->ok = atoi(tok[p++]);
	op->failkind = atoi(tok[p++]);
	op->np = atoi(tok[p++]);
	if (op->np < 0 || op->np >= MAXREC - 1 || nt < 3 + 2 * op->np + 4)
		return -1;
	for (i = 0; i < op->np; i++) {
		op->ip[i] = strtoul(tok[p++], NULL, 0);
		op->payload[i] = atoi(tok[p++]);
	}
	op->ip[op->np] = strtoul(tok[p++], NULL, 0);
	op->payload[op->np] = atoi(tok[p++]);
	op->ownwritten = atoi(tok[p++]);
	op->exit_ = atoi(tok[p++]);
	for (i = 0; i <= op->np; i++)
		payload_of[op->ip[i] & 0xffff] = op->payload[i];
	return 0;
}

/*
 * C04: what <tid>.dat of thread k would hold if the process were killed NOW and the recorder ran its
 * shutdown (read the rest of the pipe, finish the queued buffers, flush_shmem_list, remaining buffers).
 * Read-only: works on the shared buffers and on copies of the recorder's lists.
 */
static struct mcount_shmem_buffer *cached_map(struct wbuf b)
{
	static struct mcount_shmem_buffer *cache[MAXT + 1][256];

	if (b.idx < 0 || b.idx >= 256)
		return NULL;
	if (!cache[b.k][b.idx])
		cache[b.k][b.idx] = map_buf(b);
	return cache[b.k][b.idx];
}

static void view_add(struct wbuf b, int need_flag, char *out, size_t outlen)
{
	static char txt[1 << 15];
	struct mcount_shmem_buffer *sb = cached_map(b);
	unsigned size;

	if (!sb)
		return;
	size = *(volatile unsigned *)&sb->size;
	if (need_flag && !((*(volatile unsigned *)&sb->flag & SHMEM_FL_RECORDING) && size))
		return;
	decode_items((unsigned char *)sb->data, size, NULL, txt, sizeof(txt));
	if (txt[0]) {
		size_t l = strlen(out);

		snprintf(out + l, outlen - l, "%s%s", l ? "," : "", txt);
	}
}

static void kill_view(int k, char *out, size_t outlen)
{
	struct wlist shm = shmlist;
	int i, j;

	out[0] = 0;
	for (i = 0; i < files[k].n; i++) {
		long v = files[k].v[i];
		size_t l = strlen(out);

		if (v <= -1000000)
			snprintf(out + l, outlen - l, "%s~%ld", l ? "," : "", -1000000 - v);
		else if (v < 0)
			snprintf(out + l, outlen - l, "%sL%ld", l ? "," : "", -v);
		else
			snprintf(out + l, outlen - l, "%s%ld", l ? "," : "", v);
	}
	/* queued: the writer working for k, then the write list */
	for (i = 0; i < nwriters; i++)
		if (writers[i].k == k) {
			for (j = 0; j < writers[i].head.n; j++)
				view_add(writers[i].head.b[j], 0, out, outlen);
			for (j = 0; j < writers[i].bufs.n; j++)
				view_add(writers[i].bufs.b[j], 0, out, outlen);
		}
	for (j = 0; j < writelist.n; j++)
		if (writelist.b[j].k == k)
			view_add(writelist.b[j], 0, out, outlen);
	/* the rest of the pipe */
	for (i = 0; i < npipe; i++) {
		struct wbuf b = { pipeq[i].k, pipeq[i].idx };

		if (pipeq[i].k != k)
			continue;
		if (pipeq[i].type == UFTRACE_MSG_REC_START)
			wl_push(&shm, b);
		else if (pipeq[i].type == UFTRACE_MSG_REC_END) {
			for (j = 0; j < shm.n; j++)
				if (shm.b[j].k == b.k && shm.b[j].idx == b.idx) {
					memmove(&shm.b[j], &shm.b[j + 1], sizeof(b) * (shm.n - j - 1));
					shm.n--;
					break;
				}
			view_add(b, 1, out, outlen);
		}
	}
	/* flush_shmem_list */
	for (j = 0; j < shm.n; j++)
		if (shm.b[j].k == k)
			view_add(shm.b[j], 1, out, outlen);
}

/*
 * Run one rtd op in a forked copy of this process (same thread, same shared buffers, same FIFO) under
 * PTRACE_SINGLESTEP; after every instruction compute the kill view; print the distinct ones in order.
 */
static void step_trace(struct worker *w, int k)
{
	static char view[1 << 15], last[1 << 15], all[1 << 18];
	pid_t pid;
	int st;
	long steps = 0;
	size_t pos = 0;

	fflush(stdout);
	kill_view(k, last, sizeof(last));
	pos += snprintf(all + pos, sizeof(all) - pos, "[%s]", last);
	/* raw fork: libmcount's pthread_atfork child handler would give the copy fresh buffers */
	pid = syscall(SYS_fork);
	if (pid == 0) {
		ptrace(PTRACE_TRACEME, 0, 0, 0);
		syscall(SYS_kill, syscall(SYS_getpid), SIGSTOP);
		do_rtd(w);
		syscall(SYS_exit_group, 0);
	}
	waitpid(pid, &st, 0);
	while (WIFSTOPPED(st)) {
		int sig = WSTOPSIG(st);

		if (sig == SIGSTOP || sig == SIGTRAP)
			sig = 0;
		if (ptrace(PTRACE_SINGLESTEP, pid, 0, sig) < 0)
			break;
		if (waitpid(pid, &st, 0) < 0)
			break;
		steps++;
		drain_fifo(k);
		kill_view(k, view, sizeof(view));
		if (strcmp(view, last)) {
			strcpy(last, view);
			if (pos + strlen(view) + 4 < sizeof(all))
				pos += snprintf(all + pos, sizeof(all) - pos, "|[%s]", view);
		}
	}
	printf("ok STEPS exit=%d instructions=%ld views=%s\n", WIFEXITED(st) ? WEXITSTATUS(st) : -WTERMSIG(st), steps,
	       all);
}

int main(void)
{
	static char line[1 << 16];
	char path[512];
	int k;

	setvbuf(stdout, NULL, _IOFBF, 1 << 16);
	snprintf(path, sizeof(path), "%s/.channel", getenv("UFTRACE_DIR") ?: ".");
	fifo_fd = open(path, O_RDONLY | O_NONBLOCK);
	bufsize = getenv("UFTRACE_BUFFER") ? strtoul(getenv("UFTRACE_BUFFER"), NULL, 0) : 4096;
	inline_mode = getenv("H1C03_INLINE") != NULL;

	printf("SYMS");
	for (k = 0; k < (int)NFUNC; k++)
		printf(" %lx", (unsigned long)funcs[k]);
	printf("\n");

	for (k = 1; k <= MAXT; k++) {
		pthread_mutex_init(&workers[k].mu, NULL);
		pthread_cond_init(&workers[k].cv, NULL);
	}

	while (fgets(line, sizeof(line), stdin)) {
		char *tok[256];
		int nt = 0;
		char *sp, *t;

		for (t = strtok_r(line, " \t\n", &sp); t && nt < 256; t = strtok_r(NULL, " \t\n", &sp))
			tok[nt++] = t;
		if (nt == 0 || tok[0][0] == '#')
			continue;
		if (!strcmp(tok[0], "RESET")) {
			nwriters = atoi(tok[1]);
			dump_state("ok");
		}
		else if (!strcmp(tok[0], "P") && nt >= 3) {
			struct worker *w;

			k = atoi(tok[1]);
			w = &workers[k];
			if (k < 1 || k > MAXT) {
				printf("bad-op\n");
				continue;
			}
			if (inline_mode && k == 1 && !w->tid)
				w->tid = syscall(SYS_gettid);
			if (!w->th && !w->killed && !(inline_mode && k == 1)) {
				pthread_create(&w->th, NULL, worker_main, w);
				while (!w->tid)
					sched_yield();
			}
			if (w->killed || w->finished) {
				dump_state("disabled");
				continue;
			}
			if (!strcmp(tok[2], "prepare")) {
				if (w->prepared) {
					dump_state("disabled");
					continue;
				}
				run_cmd(w, 1);
			}
			else if (!w->prepared) {
				dump_state("disabled");
				continue;
			}
			else if (!strcmp(tok[2], "finish"))
				run_cmd(w, 3);
			else if (!strcmp(tok[2], "ftrig"))
				run_cmd(w, 4);
			else if (!strcmp(tok[2], "rtd")) {
				if (parse_rtd(tok + 3, nt - 3, &w->op) < 0) {
					printf("bad-op\n");
					continue;
				}
				run_cmd(w, 2);
			}
			else {
				printf("bad-op\n");
				continue;
			}
			drain_fifo(k);
			dump_state("ok");
		}
		else if (!strcmp(tok[0], "STEP") && nt >= 4 && !strcmp(tok[2], "rtd")) {
			struct worker *w;

			k = atoi(tok[1]);
			w = &workers[k];
			if (!inline_mode || k != 1 || !w->prepared || w->killed || w->finished ||
			    parse_rtd(tok + 3, nt - 3, &w->op) < 0) {
				printf("bad-op\n");
				continue;
			}
			step_trace(w, k);
		}
		else if (!strcmp(tok[0], "K") && nt >= 2) {
			k = atoi(tok[1]);
			workers[k].killed = 1;
			dump_state("ok");
		}
		else if (!strcmp(tok[0], "R") && nt >= 2) {
			if (!strcmp(tok[1], "read")) {
				struct msg m;
				struct wbuf b;

				if (npipe == 0) {
					dump_state("disabled");
					continue;
				}
				m = pipeq[0];
				memmove(&pipeq[0], &pipeq[1], sizeof(m) * --npipe);
				b.k = m.k;
				b.idx = m.idx;
				if (m.type == UFTRACE_MSG_REC_START)
					wl_push(&shmlist, b);
				else if (m.type == UFTRACE_MSG_REC_END) {
					shm_remove(b);
					record_mmap(b);
				}
				else if (m.type == UFTRACE_MSG_LOST)
					lost_count += m.n;
				dump_state("ok");
			}
			else if (!strcmp(tok[1], "flush") && nt >= 4) {
				struct wbuf b = { atoi(tok[2]), atoi(tok[3]) };
				struct worker *w = &workers[b.k];
				int i, inpipe = 0, stopped, found = 0;

				for (i = 0; i < npipe; i++)
					if ((pipeq[i].type == UFTRACE_MSG_REC_START || pipeq[i].type == UFTRACE_MSG_REC_END) &&
					    pipeq[i].k == b.k)
						inpipe = 1;
				for (i = 0; i < shmlist.n; i++)
					if (shmlist.b[i].k == b.k && shmlist.b[i].idx == b.idx)
						found = 1;
				stopped = w->killed || w->finished || (mcount_global_flags & MCOUNT_GFL_FINISH);
				if (!found || !stopped || inpipe) {
					dump_state("disabled");
					continue;
				}
				shm_remove(b);
				record_mmap(b);
				dump_state("ok");
			}
			else if (!strcmp(tok[1], "flushall")) {
				/* flush_shmem_list: every entry, in order (entries of threads that have not stopped,
				 * or with messages still in the pipe, are left alone as in the model) */
				struct wlist todo = shmlist;
				int j;

				for (j = 0; j < todo.n; j++) {
					struct wbuf b = todo.b[j];
					struct worker *w = &workers[b.k];
					int i, inpipe = 0;

					for (i = 0; i < npipe; i++)
						if ((pipeq[i].type == UFTRACE_MSG_REC_START ||
						     pipeq[i].type == UFTRACE_MSG_REC_END) &&
						    pipeq[i].k == b.k)
							inpipe = 1;
					if (inpipe || !(w->killed || w->finished || (mcount_global_flags & MCOUNT_GFL_FINISH)))
						continue;
					shm_remove(b);
					record_mmap(b);
				}
				dump_state("ok");
			}
			else if (!strcmp(tok[1], "stop")) {
				buf_done = 1;
				dump_state("ok");
			}
			else if (!strcmp(tok[1], "remaining")) {
				int i, idle = 1;

				for (i = 0; i < nwriters; i++)
					if (writers[i].k || writers[i].head.n)
						idle = 0;
				if (!buf_done || !idle || writelist.n == 0) {
					dump_state("disabled");
					continue;
				}
				write_out(wl_pop(&writelist), 0);
				dump_state("ok");
			}
			else
				printf("bad-op\n");
		}
		else if (!strcmp(tok[0], "W") && nt >= 3) {
			int wi = atoi(tok[1]);

			if (wi < 0 || wi >= nwriters) {
				dump_state("disabled");
				continue;
			}
			if (!strcmp(tok[2], "pick")) {
				struct wbuf first;
				int i, j;

				if (writers[wi].k || writers[wi].head.n || (kicks == 0 && !buf_done)) {
					dump_state("disabled");
					continue;
				}
				if (kicks)
					kicks--;
				if (writelist.n) {
					first = wl_pop(&writelist);
					writers[wi].k = first.k;
					wl_push(&writers[wi].head, first);
					for (i = j = 0; i < writelist.n; i++) {
						if (writelist.b[i].k == first.k)
							wl_push(&writers[wi].head, writelist.b[i]);
						else
							writelist.b[j++] = writelist.b[i];
					}
					writelist.n = j;
				}
				dump_state("ok");
			}
			else if (!strcmp(tok[2], "write")) {
				if (writers[wi].head.n == 0) {
					dump_state("disabled");
					continue;
				}
				write_out(wl_pop(&writers[wi].head), 1);
				dump_state("ok");
			}
			else if (!strcmp(tok[2], "splice")) {
				if (!writers[wi].k || writers[wi].head.n) {
					dump_state("disabled");
					continue;
				}
				writers[wi].head = writers[wi].bufs;
				writers[wi].bufs.n = 0;
				if (writers[wi].head.n == 0)
					writers[wi].k = 0;
				dump_state("ok");
			}
			else
				printf("bad-op\n");
		}
		else if (!strcmp(tok[0], "T") && nt >= 2) {
			h1_now = strtoull(tok[1], NULL, 0);
			printf("h ok\n");
		}
		else if (!strcmp(tok[0], "TICK") && nt >= 2) {
			h1_tick = strtoull(tok[1], NULL, 0);
			printf("h ok\n");
		}
		else if (!strcmp(tok[0], "E") && nt >= 3) {
			static struct mcount_regs regs;
			int fn = atoi(tok[2]), rc = 0;
			struct hframe *h = &hstack[hdepth];

			if (fn < 0 || fn >= (int)NFUNC || hdepth >= 4095) {
				printf("bad-op\n");
				continue;
			}
			h->fn = fn;
			h->orig = 0xcafe0000UL + hdepth * 16 + 1;
			h->slot[0] = (unsigned long)&h->slot[3];
			h->slot[1] = h->orig;
			h->hijacked = 0;
			if (!strcmp(tok[1], "pg")) {
				h->kind = 0;
				rc = mcount_entry(&h->slot[1], (unsigned long)funcs[fn], &regs);
				h->hijacked = h->slot[1] != h->orig;
			}
			else {
				h->kind = 1;
				__cyg_profile_func_enter((void *)funcs[fn], (void *)h->orig);
			}
			hdepth++;
			printf("h rc=%d hij=%d\n", rc, h->hijacked);
		}
		else if (!strcmp(tok[0], "X")) {
			struct hframe *h;
			const char *ret = "-";

			if (hdepth == 0) {
				printf("bad-op\n");
				continue;
			}
			h = &hstack[--hdepth];
			if (h->kind == 0) {
				/* still hijacked (mtd_dtor after a finish trigger restores the return addresses) */
				if (h->hijacked && h->slot[1] != h->orig) {
					long rv = 0;
					unsigned long back = mcount_exit(&rv);

					ret = back == h->orig ? "ok" : "BAD";
				}
			}
			else
				__cyg_profile_func_exit((void *)funcs[h->fn], (void *)h->orig);
			printf("h ret=%s\n", ret);
		}
		else if (!strcmp(tok[0], "RAISE") && nt >= 2) {
			struct mcount_thread_data *mtdp = get_thread_data();
			int i, restored = 1;

			printf("raising %s idx=%d\n", tok[1], mtdp && !check_thread_data(mtdp) ? mtdp->idx : -1);
			fflush(stdout);
			raise(atoi(tok[1]));
			/* only if the signal is not fatal (never for 6 / 11): the handler restored the return slots */
			for (i = 0; i < hdepth; i++)
				if (hstack[i].kind == 0 && hstack[i].slot[1] != hstack[i].orig)
					restored = 0;
			printf("survived restored=%d\n", restored);
		}
		else if (!strcmp(tok[0], "SEGVSELF") && nt >= 3) {
			int n = atoi(tok[1]), sig = atoi(tok[2]), i;

			for (i = 0; i < n; i++)
				__cyg_profile_func_enter((void *)funcs[i % 8], (void *)0xcafe0001UL);  /* f0..f7 */
			printf("raising %d idx=%d\n", sig, ((struct mcount_thread_data *)get_thread_data())->idx);
			fflush(stdout);
			raise(sig);
			printf("survived\n");
		}
		else
			printf("bad-op\n");
		fflush(stdout);
	}
	printf("SESS %s\n", sess);
	fflush(stdout);
	_exit(0);
}
