# C07 harness: `uftrace script -S c07_log.py` prints every call the script interface is shown
# as  E:<display depth>:<name>:<timestamp ns>:<tid>  /  X:<display depth>:<name>:<timestamp ns>:<tid>
def uftrace_begin(ctx):
    pass


def uftrace_entry(ctx):
    print("E:%d:%s:%d:%d" % (ctx["depth"], ctx["name"], ctx["timestamp"], ctx["tid"]))


def uftrace_exit(ctx):
    print("X:%d:%s:%d:%d" % (ctx["depth"], ctx["name"], ctx["timestamp"], ctx["tid"]))


def uftrace_end():
    pass
