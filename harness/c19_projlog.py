"""C19 / H5 ground truth for the project family: runs a script the way the python interpreter
itself would (sys.path[0] = the directory the script really is in, PATH lookup for a bare name), inside
exec() of a `-m` module like python/uftrace.py does, with a pure-Python profile function that logs
the event stream to the file named by C19_LOG:

    c:<name> <M|D|L> <co_filename>    call            r:<name> <M|D|L>    return
    C:<name> L   c_call     R:<name> L   c_return     X:<name> L   c_exception

Names are computed independently of trace-python.c from the rules it documents:
"<module>.<qualname>" with the module taken from the frame's globals, the prefix dropped for
functions of __main__ (except "<module>"); C functions "<module>.<qualname>", the qualname alone when
it has a dot and there is no module, "builtins." otherwise.  Program code is M (a function of the module __main__) or D (its file lies under
the directory of the script), L = library; every C function is L.
Nothing is decorated or rewritten in the program: every Python-level call is seen by sys.setprofile.

usage: PYTHONPATH=/verif/harness python3 -m c19_projlog <script as the user typed it> [args]"""
import os
import sys

_log = open(os.environ["C19_LOG"], "w", buffering=1)      # line buffered: os._exit loses nothing
sys.argv = sys.argv[1:]
_given = sys.argv[0]
if not (os.path.exists(_given) or _given[0] == "/"):
    for _d in os.environ.get("PATH", "").split(":"):
        if os.path.isfile(_d + "/" + _given):
            _given = _d + "/" + _given
            sys.argv[0] = _given
            break
_pathname = _given if _given[0] == "/" else os.getcwd() + "/" + _given
_main_dir = os.path.dirname(os.path.realpath(_pathname))
_first = [None]
_write = _log.write
_getpid = os.getpid
_pid = [os.getpid(), _log]


def _trace(frame, event, arg):
    global _write
    if _getpid() != _pid[0]:
        # a forked child: its events go to a log of its own, <C19_LOG>.<pid>
        _pid[0] = _getpid()
        _pid[1] = open("%s.%d" % (os.environ["C19_LOG"], _pid[0]), "w", buffering=1)
        _write = _pid[1].write
    if _first[0] is None:
        _first[0] = frame
    if frame is _first[0]:
        return
    if event == "call" or event == "return":
        code = frame.f_code
        name = getattr(code, "co_qualname", code.co_name)
        mod = frame.f_globals.get("__name__")
        is_main = mod == "__main__"
        if isinstance(mod, str) and (not is_main or name == "<module>"):
            name = mod + "." + name
        fn = code.co_filename
        cls = "M" if is_main else "L"
        if not is_main and fn.startswith(_main_dir) and fn[len(_main_dir):len(_main_dir) + 1] == "/":
            cls = "D"
        if event == "call":
            _write("c:%s %s %s\n" % (name, cls, fn.replace(" ", "?")))
        else:
            _write("r:%s %s\n" % (name, cls))
    else:
        if type(arg).__name__ != "builtin_function_or_method":
            return
        name = getattr(arg, "__qualname__", None) or arg.__name__
        mod = arg.__module__
        if isinstance(mod, str):
            name = mod + "." + name
        elif "." not in name:
            name = "builtins." + name
        _write("%s:%s L\n" % ({"c_call": "C", "c_return": "R", "c_exception": "X"}[event], name))


_real_exit = os._exit


def os_exit(n):
    _real_exit(n)


os._exit = os_exit

new_globals = globals()
new_globals["__file__"] = _pathname
sys.path.insert(0, _main_dir)
code = open(sys.argv[0]).read()
sys.setprofile(_trace)
exec(code, new_globals)
sys.setprofile(None)
