/* second source file of dummy traced functions (distinct location for -L) */
#define DUMMY(n)                                                                                   \
	__attribute__((noinline, used)) void n(void)                                               \
	{                                                                                          \
		asm volatile("nop;nop;nop;nop;nop;nop;nop;nop;nop;nop;nop;nop;nop;nop;nop;nop");   \
	}
DUMMY(f4) DUMMY(f5) DUMMY(f6) DUMMY(f7)
