"""C03, family (e): the recorder's writer pool, the REAL code of cmds/record.c (harness/c03_writer.c #includes it:
read_record_mmap's REC_START/REC_END, record_mmap_file, copy_to_buffer, writer_thread x 2-4 real threads,
write_buf_list, stop_all_writers, flush_shmem_list, record_remaining_buffer) stepped by generated schedules and
compared after every step with Writers.Sess (lean/Uft/Model/Writers.lean, driver ops `WP ...`).

Schedules: 2-6 tasks, a producer that runs ahead of the writers (many finished buffers of several tasks queued
before a writer wakes up), 2-4 writers, buffers handed to a busy writer, stale kicks, a buffer announced twice
(REC_START twice, as libmcount does for the first buffer of a fork child whose parent thread it had not seen),
buffers still listed when the session ends (final flush).

Monitor (the property on the implementation's output alone): when the session is over, the sequence of buffers
appended to each task's file is exactly that task's buffers 0,1,2,.. once each, in order; every write is one whole
tagged buffer of that task; a writer hands a buffer back only emptied and marked WRITTEN."""
import os
import random
import re
import subprocess


class Mirror:
    """Writers.Sess in Python: only used to pick enabled actions while generating"""

    def __init__(self, nw):
        self.shm, self.wl, self.log, self.kicks, self.stopped = [], [], [], 0, False
        self.w = [{"tid": None, "head": [], "bufs": []} for _ in range(nw)]

    def idle(self, i):
        return self.w[i]["tid"] is None and not self.w[i]["head"]

    def mmap_file(self, wb):
        if wb in self.log:
            return
        for w in self.w:
            if w["tid"] == wb[0]:
                w["bufs"].append(wb)
                return
        self.wl.append(wb)
        self.kicks += 1

    def start(self, wb):
        self.shm.append(wb)

    def end(self, wb):
        if wb in self.shm:
            self.shm.remove(wb)
        self.mmap_file(wb)

    def can_pick(self, i):
        return not self.stopped and self.idle(i) and self.kicks > 0

    def pick(self, i):
        self.kicks -= 1
        if self.wl:
            first = self.wl[0]
            self.w[i]["tid"] = first[0]
            self.w[i]["head"] = [b for b in self.wl if b[0] == first[0]]
            self.wl = [b for b in self.wl if b[0] != first[0]]

    def can_write(self, i):
        return bool(self.w[i]["head"])

    def write(self, i):
        wb = self.w[i]["head"].pop(0)
        if wb not in self.log:
            self.log.append(wb)

    def can_splice(self, i):
        return self.w[i]["tid"] is not None and not self.w[i]["head"]

    def splice(self, i):
        w = self.w[i]
        w["head"], w["bufs"] = w["bufs"], []
        if not w["head"]:
            w["tid"] = None

    def all_idle(self):
        return all(self.idle(i) for i in range(len(self.w)))


def gen_script(rng, nw, ntid, nops, style):
    """-> (harness lines, model lines or None per harness line, expected buffers per tid)"""
    m = Mirror(nw)
    tids = rng.sample(range(3, 60), ntid)
    nxt = {t: 0 for t in tids}
    open_ = {t: None for t in tids}          # the task's current (announced, not ended) buffer
    H, M = ["init %d" % nw], ["WP init %d" % nw]

    def emit(h, ml=True):
        H.append(h)
        M.append(("WP " + " ".join(h.split()[:3]) if h.startswith("start") else "WP " + h) if ml else None)

    ahead = style["ahead"]
    # a short-lived task (a fork child that does little) announces its first buffer and never fills it
    short = set(t for t in tids[1:] if rng.random() < style.get("short", 0))
    for _ in range(nops):
        acts = []
        for t in tids:
            if not (t in short and nxt[t] > 0):
                acts.append(("prod", t, ahead))
        for i in range(nw):
            if m.can_pick(i):
                acts.append(("pick", i, 2 if not m.wl else 3))
            if m.can_write(i):
                acts.append(("write", i, 3))
            if m.can_splice(i):
                acts.append(("splice", i, 3))
        tot = sum(a[2] for a in acts)
        x = rng.uniform(0, tot)
        for a in acts:
            x -= a[2]
            if x <= 0:
                break
        if a[0] == "prod":
            t = a[1]
            if open_[t] is None:
                wb = (t, nxt[t])
                nxt[t] += 1
                open_[t] = wb
                m.start(wb)
                emit("start %d %d %d" % (wb[0], wb[1], rng.randint(1, 6)))
                if wb[1] == 0 and rng.random() < style["dup"]:
                    m.start(wb)
                    emit("start %d %d 1" % wb)
            else:
                wb = open_[t]
                open_[t] = None
                m.end(wb)
                emit("end %d %d" % wb)
        else:
            getattr(m, a[0])(a[1])
            emit("%s %d" % (a[0], a[1]))
    # some tasks end their last buffer, the others leave it to the final flush
    for t in tids:
        if open_[t] is not None and t not in short and rng.random() < 0.5:
            m.end(open_[t])
            emit("end %d %d" % open_[t])
            open_[t] = None
    # the writers finish what is queued
    guard = 0
    while (m.wl or not m.all_idle()) and guard < 10000:
        guard += 1
        acts = [(k, i) for i in range(nw) for k in ("pick", "write", "splice") if getattr(m, "can_" + k)(i)]
        if not acts:
            break
        k, i = rng.choice(acts)
        getattr(m, k)(i)
        emit("%s %d" % (k, i))
    emit("drain", ml=False)        # no-op when implementation and model agree
    emit("stop")
    emit("flushall")
    emit("remaining")
    return H, M, {t: nxt[t] for t in tids}


def build(ctx):
    """compile harness/c03_writer.c with the flags the snapshot's own Makefile uses for cmds/record.c (make must have run)"""
    src = ctx.src
    rec_c, rec_o = os.path.join(src, "cmds/record.c"), os.path.join(src, "cmds/record.o")
    r = subprocess.run(["make", "-C", src, "-s", "-n", "V=1", "CFLAGS=-Wno-error -DUFTRACE_VERIF", "-W", rec_c, rec_o],
                       stdout=subprocess.PIPE, stderr=subprocess.STDOUT, text=True)
    cmdl = [l for l in r.stdout.split("\n") if " -c " in l and l.rstrip().endswith("cmds/record.c")]
    if not cmdl:
        return None, "cannot find the compile command of cmds/record.c:\n" + r.stdout[-1500:]
    import shlex
    words = shlex.split(cmdl[-1])
    words = words[:words.index("-c")]
    exe = os.path.join(ctx.scratch, "c03writer")
    here = os.path.dirname(os.path.abspath(__file__))
    cmd = words + ["-w", "-no-pie", "-o", exe, os.path.join(here, "c03_writer.c"),
                   os.path.join(src, "utils/debug.o"), os.path.join(src, "utils/utils.o"),
                   "-Wl,--unresolved-symbols=ignore-all", "-ldl", "-pthread", "-lrt"]
    r = subprocess.run(cmd, stdout=subprocess.PIPE, stderr=subprocess.STDOUT, text=True)
    if r.returncode != 0 or not os.path.exists(exe):
        return None, r.stdout
    return exe, r.stdout


def parse_log(line):
    m = re.search(r"LOG=\[([^\]]*)\]", line)
    if not m or not m.group(1):
        return []
    return [tuple(int(x) for x in e.split(".")) for e in m.group(1).split(",")]


def monitor(last_line, expect, complete):
    """the property on the implementation's own output"""
    bad = []
    if " BAD=" in last_line:
        bad.append(last_line.split(" BAD=", 1)[1])
    log = parse_log(last_line)
    for t, n in sorted(expect.items()):
        got = [i for (tt, i) in log if tt == t]
        want = list(range(n))
        if complete and got != want:
            what = "duplicated" if len(set(got)) < len(got) else ("lost" if set(got) != set(want) else "out of order")
            bad.append("task %d: buffers appended to %d.dat = %s, emitted %s (%s)" % (t, t, got, want, what))
        elif not complete and (len(set(got)) < len(got) or got != sorted(got)):
            bad.append("task %d: buffers appended to %d.dat = %s (not each once, in order)" % (t, t, got))
    for (tt, i) in log:
        if tt not in expect:
            bad.append("a buffer of unknown task %d was written" % tt)
    return bad


def run_family(ctx, C, run_model):
    exe, blog = build(ctx)
    if not exe:
        C.violation(ctx, "writer-build", {"kind": "harness-build-failed", "harness": "harness/c03_writer.c",
                                          "log": blog[-3000:]}, True)
        return {"built": False}
    rng = random.Random(ctx.seed * 7919 + 31)
    n = 40 if ctx.tier == "quick" else 1200
    cases = []
    import json
    try:
        corpus = json.load(open(os.path.join(C.VERIF, "corpus", "C03", "writer_schedules.json")))["schedules"]
    except (OSError, ValueError, KeyError):
        corpus = []
    for e in corpus:
        H = ["init %d" % e["writers"]] + list(e["script"])
        M = [None if h == "drain" else ("WP " + " ".join(h.split()[:3]) if h.startswith("start") else "WP " + h) for h in H]
        expect = {}
        for h in H:
            w = h.split()
            if w[0] == "start":
                expect[int(w[1])] = max(expect.get(int(w[1]), 0), int(w[2]) + 1)
        cases.append((e["writers"], len(expect), {"corpus": e["name"]}, H, M, expect))
    for k in range(n):
        nw = rng.choice([2, 2, 3, 4]) if k % 8 else 1
        ntid = rng.randint(2, 6)
        style = {"ahead": rng.choice([1, 2, 4, 8]), "dup": rng.choice([0, 0.3, 1]), "short": rng.choice([0, 0.3, 0.6])}
        cases.append((nw, ntid, style) + gen_script(rng, nw, ntid, rng.randint(40, 220), style))
    mlines, spans = [], []
    for (_, _, _, H, M, _) in cases:
        ml = [x for x in M if x is not None]
        spans.append((len(mlines), len(ml)))
        mlines += ml
    mout = run_model("C03", mlines)
    st = {"built": True, "schedules": len(cases), "corpus_schedules": len(corpus), "steps_compared": 0, "model_code_disagreements": 0, "monitor_failures": 0,
          "writes": 0, "max_pending_tasks": 0, "max_pending_buffers": 0, "handed_to_busy_writer": 0,
          "double_announced": 0, "written_by_final_flush": 0, "distinct_states": 0}
    distinct = set()
    found = []
    for ci, ((nw, ntid, style, H, M, expect), (off, cnt)) in enumerate(zip(cases, spans)):
        rc, out, err, to = C.run_bounded([exe], 60, input="\n".join(H) + "\n")
        lines = out.split("\n")
        if lines and lines[-1] == "":
            lines.pop()
        mo = mout[off:off + cnt]
        first_diff = None
        mi = 0
        for k, h in enumerate(H):
            il = lines[k] if k < len(lines) else "<no answer: rc=%s %s%s>" % (rc, "TIMEOUT " if to else "", err[-200:])
            if M[k] is None:
                continue
            ml = mo[mi] if mi < len(mo) else "<no model answer>"
            mi += 1
            st["steps_compared"] += 1
            distinct.add(hash(ml.split(" LOG=")[0]))
            mm = re.search(r"WL=\[([^\]]*)\] WR=\[([^\]]*)\]", ml)
            if mm:
                wl = [e.split(".")[0] for e in mm.group(1).split(",") if e]
                st["max_pending_buffers"] = max(st["max_pending_buffers"], len(wl))
                st["max_pending_tasks"] = max(st["max_pending_tasks"], len(set(wl)))
                st["handed_to_busy_writer"] += sum(1 for w in mm.group(2).split(";") if w.count(":") == 2 and w.split(":")[2])
            if first_diff is None and C.norm(il) != C.norm(ml):
                first_diff = (k, h, il, ml)
        complete = len(lines) == len(H) and rc == 0
        mon = monitor(lines[-1] if lines else "", expect, complete)
        if not complete:
            mon.append("the recorder code did not finish the schedule: rc=%s%s, %d of %d answers, last: %s" % (
                rc, " (timeout)" if to else "", len(lines), len(H), (lines[-1] if lines else err[-200:])[:300]))
        final = parse_log(lines[-1]) if lines else []
        st["writes"] += len(final)
        starts = [tuple(h.split()[1:3]) for h in H if h.startswith("start")]
        st["double_announced"] += len(starts) - len(set(starts))
        if len(lines) >= 3:
            st["written_by_final_flush"] += len(final) - len(parse_log(lines[-3]))
        if first_diff:
            st["model_code_disagreements"] += 1
        if mon:
            st["monitor_failures"] += 1
        if first_diff or mon:
            upto = len(H) if mon else first_diff[0] + 1
            found.append((0 if mon else 1, len(H), "writerpool%d" % ci, {
                "kind": "property-violated-on-implementation" if mon else "model-code-disagreement",
                "what": mon[:4],
                "config": {"writers": nw, "tasks": ntid, "style": style},
                "writer_script": H[:upto],
                "model_script": [x for x in M[:upto] if x is not None],
                "first_difference_at_op": first_diff[0] if first_diff else None,
                "op": first_diff[1] if first_diff else None,
                "impl_state": first_diff[2] if first_diff else None,
                "model_state": first_diff[3] if first_diff else None,
                "run": "harness/c03_writer.c (built by harness/c03_writers.py build()) < writer_script",
                "theorem": "c03_quiescent_exact / c03_one_writer_per_tid / c03_session_writes_once" if mon else
                           "correspondence Writers.Sess vs cmds/record.c (writer_thread, copy_to_buffer, "
                           "record_remaining_buffer)",
            }, not mon))
    # failing inputs of the property first, the shortest schedules first
    for _, _, name, obj, nfi in sorted(found, key=lambda f: f[:3])[:3]:
        C.violation(ctx, name, obj, no_failing_input=nfi)
    st["distinct_states"] = len(distinct)
    return st


def replay_script(ctx, C, run_model, r):
    exe, blog = build(ctx)
    if not exe:
        print(blog[-2000:])
        return 1
    rc, out, err, to = C.run_bounded([exe], 60, input="\n".join(r["writer_script"]) + "\n")
    lines = [l for l in out.split("\n") if l]
    mo = run_model("C03", r["model_script"])
    print("IMPL :", lines[-1] if lines else err[-300:])
    print("MODEL:", mo[-1] if mo else None)
    expect = {}
    for h in r["writer_script"]:
        w = h.split()
        if w[0] == "start":
            expect[int(w[1])] = max(expect.get(int(w[1]), 0), int(w[2]) + 1)
    mon = monitor(lines[-1] if lines else "", expect, r["writer_script"][-1] == "remaining" and rc == 0)
    for x in mon:
        print("MONITOR:", x)
    return 1 if mon or not lines or not mo or (r["writer_script"][-1] != "remaining" and C.norm(lines[-1]) != C.norm(mo[-1])) else 0
