"""C09 — the readable-region cache of libmcount (check_mem_region / find_mem_region / update_mem_regions)
against an address space that changes between traced calls.  Loaded by checks/c09.py (`bind(K)`).

  H1 family "mr": HISTORIES of (map / map PROT_NONE / unmap / unmap tail / grow heap / write string / query) events.
      The H1 driver (harness/h1_c09_driver.c, real libmcount linked in-process) really mmap()s / munmap()s pages of an
      arena at a fixed address, really moves the program break, and for every query
        - reads /proc/self/maps (the address space of that instant),
        - calls the snapshot's check_mem_region() directly (the verdict alone),
        - passes the pointer as a string argument through mcount_entry (the whole capture path: save_argument ->
          save_to_argbuf -> check_mem_region -> copy loop) and prints the payload.
      Model: Uft.MemRegion (checkCoded / strCall, driver ops MR SPACE / MEM / CHK / STR), stepped with the very maps
      the driver printed: verdict and outcome are compared query by query.
      Monitor (Python, independent of the model; the property): a string that can be loaded now is shown as that
      string, a pointer into a page that cannot be read is shown as <0x…>, the process never faults.
  H5 family "mre": generated -pg programs that mmap / munmap pages at fixed addresses and grow the heap between calls
      of note(const char *, int) under the snapshot's `uftrace record`; the replay text of every call is compared
      with the program's own log (written through write(2) before the call).
  Shapes of the code as it is that fault the traced program are kept out of the random histories and shown by
  directed cases: C09-S3 (heap rounding; open entry in known_findings.json -> KNOWN-FINDING; unguarded capture,
  the driver really dies with SIGSEGV) and C09-STALE (a cached region that was unmapped; guarded: the driver skips
  the load; proposed_fixes/C09-MEMPROBE.diff).
"""
import os
import re

K = None
C = None
h1 = None


def bind(mod):
    global K, C, h1
    K = mod
    C = mod.C
    h1 = mod.h1


PAGE = 4096
ARENA = 0x100000000000
NSLOT = 8
SLOT_PAGES = 4            # a slot = 3 usable pages + 1 page that is never mapped (no VMA merging between slots)
ROOM = 1024 - 4 - 32      # max_size of save_to_argbuf for the first value
FN = 1


def slot_base(s):
    return ARENA + s * SLOT_PAGES * PAGE


class Hist:
    def __init__(self, name, directed=None):
        self.name = name
        self.directed = directed      # None | "miss-then-map" | "S3" | "STALE" | …
        self.events = []              # tuples, see script()
        self.failed = None

    def describe(self):
        out = []
        for e in self.events:
            if e[0] == "map":
                out.append("mmap(%#x, %d pages, %s, MAP_FIXED)" % (e[1], e[2], "PROT_NONE" if e[3] == "n" else "RW"))
            elif e[0] == "unmap":
                out.append("munmap(%#x, %d pages)" % (e[1], e[2]))
            elif e[0] == "brk":
                out.append("sbrk(%#x)" % e[1])
            elif e[0] == "str":
                out.append("strcpy(%s, %r)" % (e[1], e[2]))
            elif e[0] == "q":
                out.append("f1((char *)%s)   [%s%s]" % (e[1], "guarded" if e[2] else "unguarded",
                                                     ", verdict asked first" if e[3] else ""))
        return out


class Track:
    """the generator's own view of the arena (independent of the model): page -> 'r' | 'n', and the bytes"""
    def __init__(self):
        self.pg = {}
        self.ever_r = set()
        self.bytes = {}        # readable page -> bytearray(PAGE)
        self.strs = []         # addresses strings were written to (hints for the query generator)
        self.queried_bad = []  # slots that were passed while unreadable
        self.grown = 0

    def map(self, a, n, prot):
        for i in range(n):
            self.pg[a + i * PAGE] = prot
            self.bytes.pop(a + i * PAGE, None)
            if prot == "r":
                self.ever_r.add(a + i * PAGE)
                self.bytes[a + i * PAGE] = bytearray(PAGE)

    def unmap(self, a, n):
        for i in range(n):
            self.pg.pop(a + i * PAGE, None)
            self.bytes.pop(a + i * PAGE, None)

    def write(self, a, data):
        for i, c in enumerate(data + b"\0"):
            self.bytes[(a + i) & ~(PAGE - 1)][(a + i) & (PAGE - 1)] = c
        self.strs.append(a)

    def rlen(self, s):
        """number of readable pages at the base of slot s"""
        n = 0
        while n < 3 and self.pg.get(slot_base(s) + n * PAGE) == "r":
            n += 1
        return n

    def state(self, s):
        b = slot_base(s)
        if self.pg.get(b) == "n":
            return "n"
        return "r" if self.pg.get(b) == "r" else "-"

    def content(self, a):
        out = bytearray()
        while True:
            pg = self.bytes.get(a & ~(PAGE - 1))
            if pg is None:
                return None          # runs into a page that cannot be read
            c = pg[a & (PAGE - 1)]
            if c == 0 or len(out) >= 200:
                return bytes(out)
            out.append(c)
            a += 1


def rand_text(rng, n):
    kind = rng.randrange(4)
    if kind == 0:
        return bytes(rng.choice(b"abcdefghijklmnopqrstuvwxyz _-/.") for _ in range(n))
    if kind == 1:
        return bytes(rng.randrange(1, 256) for _ in range(n))
    if kind == 2:
        return ("é世界-%d" % rng.randrange(1000)).encode()[:max(n, 1)]
    return bytes(rng.choice(b"<>0x123456789abcdef") for _ in range(n))


def gen_hist(rng, i, nev):
    h = Hist("mr%d" % i)
    t = Track()
    ev = h.events
    nbrk = 0

    def add_str(a_lo, a_hi, spec=None):
        n = rng.choice((0, 1, 5, 12, 30, 60, 90))
        s = rand_text(rng, n)
        if rng.random() < 0.25:
            a = a_hi - (len(s) + 1)         # the NUL is the last byte of the readable range
        else:
            a = rng.randrange(a_lo, max(a_lo + 1, a_hi - len(s) - 1))
        if a < a_lo:
            return None
        return a, s

    for _ in range(nev):
        r = rng.random()
        s = rng.randrange(NSLOT)
        if t.queried_bad and rng.random() < 0.5:
            s = rng.choice(t.queried_bad)
        b = slot_base(s)
        st = t.state(s)
        if r < 0.22:
            # map readable pages at the base of the slot (a PROT_NONE range is only replaced as a whole)
            n = rng.randrange(1, 4)
            if st == "n":
                n = 3
            ev.append(("map", b, n, "r"))
            t.map(b, n, "r")
            if rng.random() < 0.8:
                w = add_str(b, b + n * PAGE)
                if w:
                    ev.append(("str", "%x" % w[0], w[1]))
                    t.write(w[0], w[1])
        elif r < 0.27:
            if st == "-":
                ev.append(("map", b, 3, "n"))
                t.map(b, 3, "n")
        elif r < 0.36:
            if st != "-":
                ev.append(("unmap", b, 3))
                t.unmap(b, 3)
        elif r < 0.41:
            n = t.rlen(s)
            if n >= 2:
                k = rng.randrange(1, n)
                ev.append(("unmap", b + k * PAGE, n - k))
                t.unmap(b + k * PAGE, n - k)
        elif r < 0.46 and nbrk < 2:
            d = rng.choice((0x1000, 0x3000, 0x21000))
            ev.append(("brk", d))
            nbrk += 1
            t.grown = d
            txt = rand_text(rng, rng.choice((0, 3, 20)))
            off = rng.randrange(0, d - 64)
            ev.append(("str", "K+%x" % off, txt))
            ev.append(("q", "K+%x" % off, 1, 1, True, txt))
        elif r < 0.52:
            n = t.rlen(s)
            if n:
                w = add_str(b, b + n * PAGE)
                if w:
                    ev.append(("str", "%x" % w[0], w[1]))
                    t.write(w[0], w[1])
        else:
            # a query.  Shapes that fault the traced program with today's code are not generated: a page that was
            # readable earlier and is not now (C09-STALE), the slack behind the program break (C09-S3), a string
            # running into a page that cannot be read (C09-PAGECROSS)
            mode = rng.random()
            safe, chk = (1, 1) if mode < 0.7 else (0, 0)
            n = t.rlen(s)
            kind = rng.random()
            if n and kind < 0.6:
                ks = [k for k in t.strs if b <= k < b + n * PAGE]
                if ks and rng.random() < 0.8:
                    k = rng.choice(sorted(ks))
                    a = k + (rng.randrange(0, len(t.content(k) or b"") + 1) if rng.random() < 0.3 else 0)
                else:
                    a = rng.randrange(b, b + n * PAGE)
                cont = t.content(a)
                if cont is not None and len(cont) < 98:
                    ev.append(("q", "%x" % a, safe, chk, True, cont))
            elif kind < 0.9:
                # a page of the arena that cannot be read and never could
                cand = [b + k * PAGE for k in range(SLOT_PAGES) if t.pg.get(b + k * PAGE) != "r"
                        and (b + k * PAGE) not in t.ever_r]
                if cand:
                    a = rng.choice(cand) + rng.choice((0, 1, 16, PAGE - 1, rng.randrange(PAGE)))
                    ev.append(("q", "%x" % a, safe, chk, False, None))
                    if s not in t.queried_bad and st == "-":
                        t.queried_bad.append(s)
            else:
                a = rng.choice((0x10, 0xfff, ARENA - PAGE + 5, ARENA + 300 * PAGE + 7, 0x7ffffffff000 + 0x2000,
                                (1 << 47) + 0x1000, (1 << 64) - 1, (1 << 64) - PAGE))
                ev.append(("q", "%x" % a, safe, chk, False, None))
    return h


def directed_hists():
    """(name, tag, events): the minimal shapes, run on every check"""
    out = []
    b = slot_base(2)
    # unreadable first, readable later (and back to a fresh unreadable neighbour)
    for nm, safe, chk in (("miss-then-map", 1, 1), ("miss-then-map-capture-only", 0, 0)):
        h = Hist("mr-" + nm, "miss-then-map")
        h.events = [("q", "%x" % (b + 0x40), safe, chk, False, None),
                    ("map", b, 1, "r"), ("str", "%x" % (b + 0x40), b"hello from the arena"),
                    ("q", "%x" % (b + 0x40), safe, chk, True, b"hello from the arena"),
                    ("str", "%x" % (b + 0x40), b"second message"),
                    ("q", "%x" % (b + 0x40), safe, chk, True, b"second message"),
                    ("q", "%x" % (b + PAGE + 0x40), safe, chk, False, None),
                    ("q", "%x" % (b + 0x40), safe, chk, True, b"second message")]
        out.append(h)
    # PROT_NONE first, then readable
    h = Hist("mr-none-then-rw", "miss-then-map")
    h.events = [("map", b, 3, "n"), ("q", "%x" % (b + 2 * PAGE + 1), 1, 1, False, None), ("map", b, 3, "r"),
                ("str", "%x" % (b + 2 * PAGE + 1), b"now readable"), ("q", "%x" % (b + 2 * PAGE + 1), 1, 1, True, b"now readable")]
    out.append(h)
    # growing a mapping: the page behind the cached end
    h = Hist("mr-grow-mapping", "miss-then-map")
    h.events = [("map", b, 1, "r"), ("str", "%x" % b, b"one"), ("q", "%x" % b, 1, 1, True, b"one"),
                ("q", "%x" % (b + PAGE), 1, 1, False, None), ("map", b, 2, "r"), ("str", "%x" % (b + PAGE), b"two"),
                ("q", "%x" % (b + PAGE), 0, 0, True, b"two"), ("q", "%x" % b, 1, 1, True, b"")]
    out.append(h)
    # heap growth: the grown range is ours
    h = Hist("mr-heap-grow", "heap")
    h.events = [("q", "10", 1, 1, False, None), ("brk", 0x21000), ("str", "K+20000", b"on the grown heap"),
                ("q", "K+20000", 1, 1, True, b"on the grown heap")]
    out.append(h)
    # C09-STALE (guarded: the driver does not load): cached, unmapped, passed again
    h = Hist("mr-stale", "STALE")
    h.events = [("q", "10", 1, 1, False, None), ("map", b, 1, "r"), ("str", "%x" % b, b"first"),
                ("q", "%x" % b, 1, 1, True, b"first"), ("unmap", b, 1), ("q", "%x" % b, 1, 1, False, None)]
    out.append(h)
    # nested cache entries: a small mapping is cached, then a larger one around it (find_mem_region descends by
    # start address only and can pass the small stale entry without seeing the larger one)
    h = Hist("mr-overlap", "OVERLAP")
    h.events = [("q", "10", 1, 1, False, None)]
    for sl in (7, 6, 5, 4, 3, 1, 0):          # the shape of the rb-tree decides: several places
        o = slot_base(sl)
        h.events += [("map", o, 2, "r"), ("map", o, 1, "n"), ("str", "%x" % (o + PAGE + 8), b"inner"),
                     ("q", "%x" % (o + PAGE + 8), 1, 1, True, b"inner"), ("map", o, 3, "r"), ("str", "%x" % (o + 8), b"outer"),
                     ("q", "%x" % (o + 8), 1, 1, True, b"outer"), ("str", "%x" % (o + 2 * PAGE + 8), b"behind the inner entry"),
                     ("q", "%x" % (o + 2 * PAGE + 8), 1, 1, True, b"behind the inner entry")]
    out.append(h)
    # C09-S3 (unguarded: the real capture): 1 MB behind the program break
    h = Hist("mr-s3", "S3")
    h.events = [("q", "B+2000", 0, 1, False, None)]
    out.append(h)
    return out


def script(h):
    """driver ops; h.qops = [(index of the MRQ op, index of E, index of X, event)]"""
    s = ["FILL a5"]
    h.qops = []
    t = 1000
    for e in h.events:
        if e[0] == "map":
            s.append("MRMAP %x %d %s" % (e[1], e[2], e[3]))
        elif e[0] == "unmap":
            s.append("MRUNMAP %x %d" % (e[1], e[2]))
        elif e[0] == "brk":
            s.append("MRBRK %x" % e[1])
        elif e[0] == "str":
            s.append("MRSTR %s %s" % (e[1], e[2].hex() or "-"))
        elif e[0] == "q":
            qi = len(s)
            s.append("MRQ %s %d %d" % (e[1], e[2], e[3]))
            s.append("R 0 @")
            s.append("T %d" % t)
            s.append("E %d" % FN)
            s.append("T %d" % (t + 5))
            s.append("X")
            h.qops.append((qi, qi + 3, qi + 5, e))
            t += 100
    s.append("END")
    return s


ENV = {"UFTRACE_BUFFER": "4194304", "UFTRACE_MAX_STACK": "8", "UFTRACE_PATTERN": "regex",
       "UFTRACE_ARGUMENT": "^f%d$@arg1/s" % FN}


def run_hist(ctx, exe, h, idx):
    h.script = script(h)
    r = h1.run(ctx, exe, ENV, h.script, idx, timeout=60)
    K.cleanup_shm(r)
    out = r["lines"]
    h.crash = None
    h.queries = []
    for l in out:
        m = re.match(r"(\d+) CRASH sig=(\d+)", l)
        if m:
            h.crash = (int(m.group(1)), int(m.group(2)))
    if not out or not out[0].startswith("SYMS "):
        h.failed = "rc=%s stderr=%s" % (r["rc"], r["stderr"][-300:])
        return h
    body = out[1:]
    if not h.crash and len(body) != len(h.script):
        h.failed = "rc=%s lines=%d/%d stderr=%s" % (r["rc"], len(body), len(h.script), r["stderr"][-300:])
        return h
    for i, l in enumerate(body):
        if re.match(r"\d+ (failed|bad-op)", l):
            h.failed = "driver op %r -> %r" % (h.script[i], l)
            return h
    for qi, ei, xi, e in h.qops:
        if qi >= len(body) or not body[qi].split(" ", 1)[1].startswith("addr="):
            break
        kv = dict(x.split("=", 1) for x in body[qi].split()[1:])
        q = {"ev": e, "addr": int(kv["addr"], 16), "maps": kv["maps"], "chk": int(kv["chk"]), "rd": int(kv["rd"]),
             "skip": int(kv["skip"]), "got": None, "crashed": False, "opno": qi + 1}
        if h.crash and h.crash[0] in (qi + 1, ei + 1, xi + 1):
            q["crashed"] = True
        elif ei < len(body) and not q["skip"]:
            m = re.search(r"hij=(\d) .*arg=(\d) sz=(\d+) mem=(\S+)", body[ei])
            if m and m.group(1) == "1" and m.group(2) == "1":
                mem = bytes.fromhex(m.group(4).replace("-", ""))
                if len(mem) >= 2:
                    ln = mem[0] | mem[1] << 8
                    q["got"] = mem[2:2 + ln]
                    q["sz"] = int(m.group(3))
            else:
                q["got"] = ("no-payload: " + body[ei][:120]).encode()
        h.queries.append(q)
    return h


def readable_by_maps(maps, a):
    for ent in maps.split(";"):
        s, e, r, _k = ent.split(":")
        if r == "r" and int(s, 16) <= a < int(e, 16):
            return True
    return False


def shown(b):
    """what the packer stores for a string (ARG_STR_MAX)"""
    return b if len(b) < 98 else b[:95] + b"..."


def model_lines(h):
    """the queries of one history for uv_C09; returns (lines, [(query, index of CHK line or None, index of STR line)])"""
    lines = ["MR FIX 0"]
    idx = []
    for q in h.queries:
        lines.append("MR SPACE " + q["maps"])
        e = q["ev"]
        chunks = []
        if e[4]:
            chunks.append("%x:%s00" % (q["addr"], (e[5] or b"").hex()))
        lines.append("MR MEM 0 " + (";".join(chunks) or "-"))
        ci = None
        if e[3]:
            ci = len(lines)
            lines.append("MR CHK %x" % q["addr"])
        si = len(lines)
        lines.append("MR STR %x %d" % (q["addr"], ROOM))
        idx.append((q, ci, si))
    return lines, idx


def evaluate(ctx, hists, kf, cov):
    """monitor + model comparison; reports violations / known findings"""
    nq = nbad = nstr = ntrans = nmodel = 0
    all_lines, spans = [], []
    for h in hists:
        if h.failed:
            continue
        ls, idx = model_lines(h)
        spans.append((h, len(all_lines), idx))
        all_lines += ls
    mout = K.run_model(all_lines) if all_lines else []
    mres = {}
    for h, off, idx in spans:
        for q, ci, si in idx:
            q["m_chk"] = mout[off + ci] if ci is not None else None
            q["m_str"] = mout[off + si]

    pending = {}
    for h in hists:
        if h.failed:
            C.violation(ctx, "mr-harness-" + h.name, {"kind": "implementation-crashed-or-harness-failed", "family": "mr",
                                                       "history": h.describe(), "what": h.failed,
                                                       "driver_script": h.script[:80]}, no_failing_input=True)
            continue
        seen_bad = set()
        for qn, q in enumerate(h.queries):
            nq += 1
            e = q["ev"]
            a = q["addr"]
            page_ok = readable_by_maps(q["maps"], a)
            exp_readable = e[4]
            base = {"family": "mr (address-space histories against check_mem_region)", "history": h.name,
                    "events": h.describe(), "query_no": qn, "pointer": "%#x" % a,
                    "page_readable_now": page_ok, "string_loadable_now": bool(q["rd"]),
                    "verdict_of_check_mem_region": q["chk"] if q["chk"] >= 0 else "not asked",
                    "captured": None if q["got"] is None else repr(q["got"]),
                    "model": {"chk": q["m_chk"], "str": q["m_str"]},
                    "env": ENV, "driver_script": h.script[:120]}
            if bool(q["rd"]) != bool(exp_readable) or page_ok != bool(exp_readable):
                C.violation(ctx, "mr-harness-%s-%d" % (h.name, qn), dict(base, kind="harness-failed",
                            what="the generator expected the pointer to be %sreadable, /proc/self/maps says otherwise"
                                 % ("" if exp_readable else "un")), no_failing_input=True)
                break
            want = shown(e[5] or b"") if exp_readable else b"<0x%x>" % a
            fail = None
            if q["crashed"]:
                fail = "the traced program received signal %d while the hook captured the string argument" % h.crash[1]
            elif q["skip"]:
                fail = ("check_mem_region() says the pointer is readable, the page is not mapped readable: the copy "
                        "loop would load from it and the traced program would die (the driver did not execute the load)")
            elif q["got"] is None:
                fail = "no payload"
            elif q["got"] != want:
                fail = ("the function received %s, the recorded argument is %r"
                        % (("the string %r" % want) if exp_readable else ("an unreadable pointer (expected %r)" % want),
                           q["got"]))
            if exp_readable:
                nstr += 1
                if a & ~(PAGE - 1) in seen_bad:
                    ntrans += 1
            else:
                nbad += 1
                seen_bad.add(a & ~(PAGE - 1))
            if exp_readable and q["chk"] == 0 and not fail:
                fail = "check_mem_region() says unreadable for a readable pointer"
            m_why = re.search(r"why=(\w+)", q["m_str"] or "")
            if fail:
                why = m_why.group(1) if m_why else None
                if h.directed == "S3" and why == "heapslack" and (q["crashed"] or q["skip"]) and "C09-S3" in kf:
                    C.known(ctx, kf["C09-S3"], "C09-S3 check_mem_region accepts every address up to the heap end rounded "
                            "up to 128 MB: f1((char *)sbrk(0) + 0x2000) under -A f1@arg1/s -> %s (pointer %#x; the "
                            "model with the code as it is: %s; repaired: shown as an address)"
                            % ("SIGSEGV in the hook" if q["crashed"] else "would fault", a, q["m_str"]))
                    cov["s3_demonstrated"] = True
                    break
                if h.directed == "OVERLAP" and exp_readable and not q["crashed"] and not q["skip"] and "tidy=0" in (q["m_str"] or ""):
                    pending["C09-OVERLAP"] = ("find_mem_region descends by start address only: with a smaller cached entry inside a "
                                              "larger mapping a readable pointer behind the inner entry is not found, also not "
                                              "after the rescan: history %s -> %#x recorded as %r, the function received %r"
                                              % ("; ".join(h.describe()), a, q["got"], want))
                    break
                if h.directed == "STALE" and why == "stale" and q["skip"]:
                    pending["C09-STALE"] = ("a region that entered the readable-region cache and was unmapped afterwards is "
                                            "still believed readable (the cache is never invalidated): history %s -> "
                                            "verdict readable for %#x, model %s" % ("; ".join(h.describe()), a, q["m_str"]))
                    break
                C.violation(ctx, "mr-%s-%d" % (h.name, qn), dict(base, kind="property-violated-on-implementation",
                            what=fail, expected=repr(want),
                            theorem="c09_readable_string_captured / c09_unreadable_shown_as_address / c09_never_faults"))
                break
            # ---- model, query by query ----
            nmodel += 1
            mism = []
            if q["m_chk"] is not None:
                mk = dict(x.split("=") for x in q["m_chk"].split())
                if int(mk.get("chk", -1)) != q["chk"] and not (mk.get("tidy") == "0" and q["chk"] == 0):
                    mism.append("verdict: check_mem_region = %d, model %s" % (q["chk"], q["m_chk"]))
            ms = (q["m_str"] or "").split()[0] if q["m_str"] else ""
            if q["got"] is not None:
                if q["got"] == b"<0x%x>" % a and not exp_readable:
                    impl = "bad=%x" % a
                else:
                    impl = "str=" + (q["got"].hex() or "-")
                mwant = ms
                if ms.startswith("str=") and ms != "str=-":
                    mwant = "str=" + shown(bytes.fromhex(ms[4:])).hex()
                if impl != mwant:
                    mism.append("outcome: implementation %s, model %s" % (impl, q["m_str"]))
            if mism:
                C.violation(ctx, "mr-model-%s-%d" % (h.name, qn), dict(base, kind="model-code-disagreement",
                            what="; ".join(mism), theorem="Uft.MemRegion.checkCoded / strCall = check_mem_region / "
                            "save_to_argbuf (c09_never_faults, c09_unreadable_shown_as_address are stated over it)"),
                            no_failing_input=True)
                break
    for fid, what in pending.items():
        if fid in kf:
            C.known(ctx, kf[fid], fid + " " + what)
        else:
            print("PENDING-FINDING: property=C09 %s %s [not recorded in known_findings.json; proposed fix "
                  "proposed_fixes/C09-MEMPROBE.diff]" % (fid, what))
    cov.update({"histories": len(hists), "queries": nq, "queries_readable": nstr, "queries_unreadable": nbad,
                "unreadable_then_readable_transitions": ntrans, "model_compared": nmodel,
                "pending": sorted(pending)})
    return cov


def run_family(ctx, exe, kf, thorough):
    rng = ctx.rng
    hists = directed_hists()
    for i in range(24 if not thorough else 400):
        hists.append(gen_hist(rng, i, rng.choice((12, 25, 40))))
    from concurrent.futures import ThreadPoolExecutor
    with ThreadPoolExecutor(8) as ex:
        list(ex.map(lambda ih: run_hist(ctx, exe, ih[1], 20000 + ih[0]), enumerate(hists)))
    cov = {}
    evaluate(ctx, hists, kf, cov)
    return cov


# ---------------------------------------------------------------------------------------------
# e2e: generated programs under `uftrace record`
# ---------------------------------------------------------------------------------------------
E2E_HEAD = r'''
#define _GNU_SOURCE
#include <stdio.h>
#include <stdlib.h>
#include <string.h>
#include <sys/mman.h>
#include <unistd.h>
static void logline(const char *tag, const char *p, int k, int readable)
{
	char b[400];
	int n;
	if (readable)
		n = snprintf(b, sizeof(b), "%s %d S %s\n", tag, k, p);
	else
		n = snprintf(b, sizeof(b), "%s %d P %p\n", tag, k, (void *)p);
	if (write(1, b, n) < 0)
		_exit(3);
}
static volatile int sink;
__attribute__((noinline)) int note(const char *msg, int k) { sink += k; asm volatile("" :: "r"(msg)); return k + 1; }
static void *map_at(unsigned long a, int n, int prot)
{
	void *p = mmap((void *)a, n * 4096UL, prot, MAP_PRIVATE | MAP_ANONYMOUS | MAP_FIXED, -1, 0);
	if (p != (void *)a) _exit(4);
	return p;
}
int main(void)
{
	char *grown = NULL;
	(void)grown;
'''


def e2e_program(h):
    """C source for a history (same event tuples as the H1 family; B+/K+ addresses through sbrk)"""
    src = [E2E_HEAD]
    k = 0
    calls = []

    def addr(t):
        if t.startswith("K+"):
            return "(grown + 0x%s)" % t[2:]
        return "((char *)0x%sUL)" % t
    for e in h.events:
        if e[0] == "map":
            src.append("\tmap_at(0x%xUL, %d, %s);" % (e[1], e[2], "PROT_NONE" if e[3] == "n" else "PROT_READ | PROT_WRITE"))
        elif e[0] == "unmap":
            src.append("\tmunmap((void *)0x%xUL, %d * 4096UL);" % (e[1], e[2]))
        elif e[0] == "brk":
            src.append("\tgrown = sbrk(0x%x);" % e[1])
        elif e[0] == "str":
            src.append("\tmemcpy(%s, \"%s\", %d);" % (addr(e[1]), "".join("\\%03o" % c for c in e[2]) + "\\000", len(e[2]) + 1))
        elif e[0] == "q":
            src.append("\tlogline(\"note\", %s, %d, %d);" % (addr(e[1]), k, 1 if e[4] else 0))
            src.append("\tnote(%s, %d);" % (addr(e[1]), k))
            calls.append((k, e))
            k += 1
    src.append("\treturn 0;\n}\n")
    return "\n".join(src), calls


def e2e_histories(rng, n):
    out = []
    b = slot_base(1)
    h = Hist("mre-miss-then-map", "miss-then-map")
    h.events = [("q", "%x" % (b + 8), 0, 0, False, None), ("map", b, 1, "r"), ("str", "%x" % (b + 8), b"hello from the arena"),
                ("q", "%x" % (b + 8), 0, 0, True, b"hello from the arena"), ("str", "%x" % (b + 8), b"second message"),
                ("q", "%x" % (b + 8), 0, 0, True, b"second message")]
    out.append(h)
    for i in range(n):
        g = gen_hist(rng, 1000 + i, rng.choice((15, 30)))
        g.name = "mre%d" % i
        # text-comparable strings only: printable ASCII without quote / backslash (the byte-exact families are H1 / H3)
        ev = []
        for e in g.events:
            if e[0] == "str":
                e = (e[0], e[1], bytes(c if 32 < c < 127 and c not in (34, 92) else 0x41 + c % 26 for c in e[2]))
            ev.append(e)
        # contents of later queries follow the rewritten strings
        g.events = _recompute_contents(ev)
        out.append(g)
    return out


def _recompute_contents(events):
    """replay the events on a Track to get the expected contents of each query after strings were rewritten"""
    t = Track()
    out = []
    heap = {}
    for e in events:
        if e[0] == "map":
            t.map(e[1], e[2], e[3])
        elif e[0] == "unmap":
            t.unmap(e[1], e[2])
        elif e[0] == "str":
            if e[1].startswith("K+"):
                heap = {int(e[1][2:], 16): e[2]}
            else:
                t.write(int(e[1], 16), e[2])
        elif e[0] == "brk":
            heap = {}
        elif e[0] == "q" and e[4]:
            if e[1].startswith("K+"):
                e = e[:5] + (heap.get(int(e[1][2:], 16), b""),)
            else:
                e = e[:5] + (t.content(int(e[1], 16)),)
        out.append(e)
    return out


REPLAY_NOTE = re.compile(rb'note\((.*), (\d+)\)')


def run_e2e(ctx, made_ok, thorough):
    res = {"ran": 0, "calls": 0, "transitions": 0}
    if not made_ok:
        return res
    uft = os.path.join(ctx.src, "uftrace")
    if not os.path.exists(uft):
        return res
    hs = e2e_histories(ctx.rng, 3 if not thorough else 30)
    env = dict(os.environ)
    env.pop("UFTRACE_DIR", None)

    def one(ih):
        i, h = ih
        d = os.path.join(ctx.scratch, "mre-%d" % i)
        os.makedirs(d, exist_ok=True)
        src, calls = e2e_program(h)
        open(os.path.join(d, "p.c"), "w").write(src)
        r = C.sh(["gcc", "-O1", "-pg", "-o", os.path.join(d, "p"), os.path.join(d, "p.c")])
        if r.returncode != 0:
            return h, "gcc: " + r.stdout[-300:], None
        rc0, native, _e, to0 = C.run_bounded([os.path.join(d, "p")], 20, env=env, cwd=d, text=False)
        rc, out, err, to = C.run_bounded(["timeout", "40", uft, "record", "--libmcount-path=" + os.path.join(ctx.src, "libmcount"),
                                          "--no-event", "--no-libcall", "--no-pager", "-A", "note@arg1/s,arg2/i32",
                                          "-d", os.path.join(d, "data"), os.path.join(d, "p")], 60, env=env, cwd=d, text=False)
        rrc, rep, rerr, rto = C.run_bounded(["timeout", "20", uft, "replay", "-d", os.path.join(d, "data"), "--no-pager",
                                             "--color=no", "-f", "none", "-F", "note"], 30, env=env, cwd=d, text=False)
        _b = lambda x: x if isinstance(x, bytes) else (x or "").encode()
        return h, None, {"calls": calls, "native_rc": rc0, "native": _b(native), "rc": rc, "out": _b(out), "err": _b(err)[-400:],
                         "timed_out": to, "replay_rc": rrc, "replay": _b(rep), "src": src}

    from concurrent.futures import ThreadPoolExecutor
    with ThreadPoolExecutor(4) as ex:
        results = list(ex.map(one, enumerate(hs)))
    for h, err, r in results:
        if err:
            C.violation(ctx, "mre-harness-" + h.name, {"kind": "harness-failed", "what": err}, no_failing_input=True)
            continue
        res["ran"] += 1
        base = {"family": "mre (generated program under uftrace record: pointers that become valid over time)",
                "history": h.name, "events": h.describe(), "program": r["src"],
                "record": "uftrace record --no-event --no-libcall -A note@arg1/s,arg2/i32 ./p ; uftrace replay -f none -F note"}
        if r["native_rc"] != 0:
            C.violation(ctx, "mre-harness-" + h.name, dict(base, kind="harness-failed",
                        what="the generated program fails without tracing: rc=%s" % r["native_rc"]), no_failing_input=True)
            continue
        if r["rc"] != 0 or r["timed_out"] or r["out"] != r["native"]:
            C.violation(ctx, "mre-%s-run" % h.name, dict(base, kind="property-violated-on-implementation",
                        what="the traced program behaves differently: rc=%s timed_out=%s, stdout %s; stderr: %s"
                             % (r["rc"], r["timed_out"], "differs" if r["out"] != r["native"] else "equal",
                                r["err"].decode("utf-8", "replace"))))
            continue
        # expected text of every call from the program's own log
        want = []
        for l in r["out"].split(b"\n"):
            m = re.match(rb"note (\d+) (S|P) (.*)$", l)
            if m:
                want.append((int(m.group(1)), (b'"' + m.group(3) + b'"') if m.group(2) == b"S" else b'"<' + m.group(3) + b'>"'))
        got = [(int(m.group(2)), m.group(1)) for m in (REPLAY_NOTE.search(l) for l in r["replay"].split(b"\n")) if m]
        res["calls"] += len(want)
        seen_bad = set()
        for (k, e) in r["calls"]:
            pg = e[1] if e[1].startswith("K+") else int(e[1], 16) & ~(PAGE - 1)
            if not e[4]:
                seen_bad.add(pg)
            elif pg in seen_bad:
                res["transitions"] += 1
        if len(want) != len(r["calls"]) or r["replay_rc"] != 0:
            C.violation(ctx, "mre-harness-" + h.name, dict(base, kind="harness-failed",
                        what="log has %d of %d calls, replay rc=%s" % (len(want), len(r["calls"]), r["replay_rc"])),
                        no_failing_input=True)
            continue
        if got != want:
            i = next((i for i in range(max(len(got), len(want))) if i >= len(got) or i >= len(want) or got[i] != want[i]), 0)
            C.violation(ctx, "mre-%s-%d" % (h.name, i), dict(base, kind="property-violated-on-implementation",
                        what="call #%d: the program logged %r, replay shows %r" % (
                            i, want[i] if i < len(want) else None, got[i] if i < len(got) else None),
                        program_log=r["out"].decode("utf-8", "replace").split("\n")[:60],
                        replay=r["replay"].decode("utf-8", "replace").split("\n")[:60],
                        theorem="c09_readable_string_captured / c09_unreadable_shown_as_address"))
    return res
