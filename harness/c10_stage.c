/* C10 e2e: a program that is installed under several path names with one base name and runs as a chain of
 * exec()s: `stage <next path> <next path> ...` does its own work and then exec()s argv[1] with the rest.
 * -DVARB builds a different binary of the same name (other functions, other layout).
 * The functions called per hop are known by construction: main, a_work, a_leaf (or b_work, b_extra, b_tail),
 * then execv unless it is the last hop.  See checks/c10.py run_install_e2e. */
#include <unistd.h>

#ifdef VARB
__attribute__((noinline)) int b_extra(int x) { return x * 7 + 1; }
__attribute__((noinline)) int b_tail(int x) { return x ^ 5; }
__attribute__((noinline)) int b_work(int x) { return b_extra(x) + b_tail(x); }
#define WORK b_work
#else
__attribute__((noinline)) int a_leaf(int x) { return x + 3; }
__attribute__((noinline)) int a_work(int x) { return a_leaf(x) * 2; }
#define WORK a_work
#endif

int main(int argc, char **argv)
{
	volatile int r = WORK(argc);

	if (argc > 1) {
		execv(argv[1], argv + 1);
		return 3;
	}
	return r == -12345;
}
