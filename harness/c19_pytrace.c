/*
 * C19 correspondence harness (H4): drives the real uftrace_trace_python() of
 * python/trace-python.c (the whole file is #included, so its static functions
 * apply_filters / can_trace / init_filters / init_uftrace / convert_function_addr
 * run unchanged) inside an embedded Python interpreter, with our own
 * cygprof_enter / cygprof_exit plugged into the file's function pointers.
 *
 * Input (stdin), one case per line:
 *   <fixed-ignored> <NONE|SINGLE|NESTED> <regex|glob|simple> <UFTRACE_FILTER|-> <lib names a,b|-> | <ev> <ev> ...
 *   ev = c:<name> call   r:<name> return   C:<name> c_call   R:<name> c_return
 *        X:<name> c_exception   o:<name> some other event string ("exception") with a C
 *        function as argument (sys.setprofile never sends one; the code's fall-through)
 * Output per case:
 *   MODEL <the same line>
 *   IMPL  <E<addr> | X ...> | <count_in> <count_out> <libcall_count> | <addr>:<T|P>:<name> ...
 *   (IMPL CRASH signal=<n> | exit=<n> when the code under test did not survive the case)
 * Every case runs in a forked child of the initialised interpreter: a fresh process as far as
 * the file's static state is concerned.
 *
 * Names: a python function named "m.f" lives in module "m" (f_globals.__name__)
 * with qualname "f"; a name without a dot lives in __main__.  Functions listed
 * as lib have a co_filename outside the main script's directory; the others
 * (not in __main__) have one inside it.  C functions "m.f" are PyCFunction
 * objects with m_module "m" (NULL for "builtins").
 */
#include "python/trace-python.c"

#include <stdio.h>
#include <stdlib.h>
#include <string.h>
#include <sys/wait.h>

#define MAIN_DIR "/uv/main"
#define MAXOUT (1 << 16)

static char outbuf[MAXOUT];
static int outlen;

static void h_enter(unsigned long child, unsigned long parent)
{
	outlen += snprintf(outbuf + outlen, MAXOUT - outlen, "E%lu ", child);
}

static void h_exit(unsigned long child, unsigned long parent)
{
	outlen += snprintf(outbuf + outlen, MAXOUT - outlen, "X ");
}

static PyObject *ns_type; /* types.SimpleNamespace */
static PyObject *py_frames; /* dict: key "name|L" or "name|M" -> fake frame */
static PyObject *c_funcs; /* dict: name -> PyCFunction */

static PyObject *h_dummy(PyObject *self, PyObject *args)
{
	Py_RETURN_NONE;
}

static PyObject *make_ns(void)
{
	PyObject *args = PyTuple_New(0);
	PyObject *o = PyObject_Call(ns_type, args, NULL);
	Py_DECREF(args);
	return o;
}

static void set_attr(PyObject *o, const char *k, PyObject *v)
{
	PyObject_SetAttrString(o, k, v);
	Py_DECREF(v);
}

/* a fake frame for python function `name` */
static PyObject *get_py_frame(const char *name, int is_lib)
{
	char key[512], file[600];
	PyObject *f, *code, *glob;
	const char *dot = strchr(name, '.');
	char mod[256];
	const char *qual;

	snprintf(key, sizeof(key), "%s|%c", name, is_lib ? 'L' : 'M');
	f = PyDict_GetItemString(py_frames, key);
	if (f)
		return f;

	if (dot) {
		snprintf(mod, sizeof(mod), "%.*s", (int)(dot - name), name);
		qual = dot + 1;
	}
	else {
		strcpy(mod, "__main__");
		qual = name;
	}
	if (is_lib)
		snprintf(file, sizeof(file), "/usr/lib/python3/%s.py", mod);
	else if (dot)
		snprintf(file, sizeof(file), MAIN_DIR "/%s.py", mod);
	else
		snprintf(file, sizeof(file), MAIN_DIR "/main.py");

	code = make_ns();
	set_attr(code, "co_qualname", PyUnicode_FromString(qual));
	set_attr(code, "co_name", PyUnicode_FromString(qual));
	set_attr(code, "co_filename", PyUnicode_FromString(file));
	set_attr(code, "co_firstlineno", PyLong_FromLong(1));
	glob = PyDict_New();
	{
		PyObject *m = PyUnicode_FromString(mod);
		PyDict_SetItemString(glob, "__name__", m);
		Py_DECREF(m);
	}
	f = make_ns();
	set_attr(f, "f_code", code);
	set_attr(f, "f_globals", glob);
	PyDict_SetItemString(py_frames, key, f);
	Py_DECREF(f);
	return f; /* borrowed (the dict keeps it) */
}

static PyObject *get_c_func(const char *name)
{
	PyObject *fn = PyDict_GetItemString(c_funcs, name);
	const char *dot = strchr(name, '.');
	PyMethodDef *def;
	PyObject *mod = NULL;

	if (fn)
		return fn;
	def = calloc(1, sizeof(*def));
	def->ml_name = strdup(dot ? dot + 1 : name);
	def->ml_meth = h_dummy;
	def->ml_flags = METH_VARARGS;
	if (dot && strncmp(name, "builtins.", 9)) {
		char modname[256];
		snprintf(modname, sizeof(modname), "%.*s", (int)(dot - name), name);
		mod = PyUnicode_FromString(modname);
	}
	fn = PyCFunction_NewEx(def, NULL, mod);
	Py_XDECREF(mod);
	PyDict_SetItemString(c_funcs, name, fn);
	Py_DECREF(fn);
	return fn;
}

static void free_code_tree(void)
{
	struct rb_node *n;

	while ((n = rb_first(&code_tree)) != NULL) {
		struct uftrace_python_symbol *s = rb_entry(n, struct uftrace_python_symbol, node);
		rb_erase(n, &code_tree);
		free(s->name);
		free(s);
	}
}

static int in_list(const char *list, const char *name)
{
	size_t n = strlen(name);
	const char *p = list;

	if (!strcmp(list, "-"))
		return 0;
	while (p && *p) {
		const char *e = strchr(p, ',');
		size_t l = e ? (size_t)(e - p) : strlen(p);
		if (l == n && !strncmp(p, name, n))
			return 1;
		p = e ? e + 1 : NULL;
	}
	return 0;
}

/* the state of a process in which the module has just been initialised with this environment */
static void fresh_state(const char *filt, const char *ptype, const char *mode)
{
	/* ---- fresh "process": tear down the previous case's state ---- */
	remove_filters();
	if (symtab) {
		munmap(symtab, uftrace_symtab_size);
		close(uftrace_shmem_fd);
		uftrace_shmem_unlink(uftrace_shmem_name);
		symtab = NULL;
	}
	if (dbg_info) {
		munmap(dbg_info, uftrace_dbginfo_size);
		close(uftrace_shmem_dbg_fd);
		uftrace_shmem_unlink(uftrace_shmem_dbg_name);
		dbg_info = NULL;
	}
	free(main_file);
	free(main_dir);
	main_file = main_dir = NULL;
	free_code_tree();
	memset(&filter_state, 0, sizeof(filter_state));
	libcall_count = 0;
	libcall_mode = UFT_PY_LIBCALL_SINGLE; /* the static initialiser */

	/* ---- environment as cmds/record.c sets it up ---- */
	if (!strcmp(filt, "-"))
		unsetenv("UFTRACE_FILTER");
	else
		setenv("UFTRACE_FILTER", filt, 1);
	setenv("UFTRACE_PATTERN", ptype, 1);
	if (!strcmp(mode, "SINGLE"))
		unsetenv("UFTRACE_PY_LIBCALL");
	else
		setenv("UFTRACE_PY_LIBCALL", mode, 1);

	init_uftrace(); /* real: libcall mode, symtab, init_filters() */
}

/* ---- "code" cases: convert_function_addr() over a history of code objects ------------------
 *   code <lib names|-> | n:<k>=<name>  d:<k>  e:<k> ...
 * n: make frame object k with a new code object of function <name>; d: drop frame k (its code object
 * dies with it, the allocator may hand both blocks out again); e: a `call` event on frame k.
 *   MODEL code <libs> | a:<id>=<name> f:<id> e:<id> ...   (id = the code object's address, numbered in
 *                                                          order of first appearance: reuse shows)
 *   IMPL  <name>:<symbol address> ...                     (one per e:, what convert_function_addr returned)
 */
#define MAXSLOT 256
static PyObject *slot_frame[MAXSLOT];
static void *seen_ptr[4096];
static int n_seen;

static int ptr_id(void *p)
{
	int i;

	for (i = 0; i < n_seen; i++) {
		if (seen_ptr[i] == p)
			return i;
	}
	if (n_seen < 4096)
		seen_ptr[n_seen++] = p;
	return n_seen - 1;
}

static PyObject *new_frame_for(const char *name, int is_lib)
{
	char file[600], mod[256];
	PyObject *f, *code, *glob, *m;
	const char *dot = strchr(name, '.');
	const char *qual;

	if (dot) {
		snprintf(mod, sizeof(mod), "%.*s", (int)(dot - name), name);
		qual = dot + 1;
	}
	else {
		strcpy(mod, "__main__");
		qual = name;
	}
	if (is_lib)
		snprintf(file, sizeof(file), "<string>");
	else
		snprintf(file, sizeof(file), MAIN_DIR "/%s.py", dot ? mod : "main");
	f = make_ns();
	code = make_ns();
	set_attr(code, "co_qualname", PyUnicode_FromString(qual));
	set_attr(code, "co_name", PyUnicode_FromString(qual));
	set_attr(code, "co_filename", PyUnicode_FromString(file));
	set_attr(code, "co_firstlineno", PyLong_FromLong(1));
	glob = PyDict_New();
	m = PyUnicode_FromString(mod);
	PyDict_SetItemString(glob, "__name__", m);
	Py_DECREF(m);
	set_attr(f, "f_code", code);
	set_attr(f, "f_globals", glob);
	return f;
}

static void run_code_case(char *line)
{
	char *save = NULL, *tok, *copy = strdup(line);
	char *libs;
	static char mbuf[MAXOUT], ibuf[MAXOUT];
	int ml = 0, il = 0;

	strtok_r(copy, " ", &save); /* "code" */
	libs = strtok_r(NULL, " ", &save);
	tok = strtok_r(NULL, " ", &save);
	if (!libs || !tok || strcmp(tok, "|"))
		_exit(2);
	fresh_state("-", "regex", "SINGLE");
	while ((tok = strtok_r(NULL, " ", &save)) != NULL) {
		int k = atoi(tok + 2);

		if (tok[1] != ':' || k < 0 || k >= MAXSLOT)
			_exit(2);
		if (tok[0] == 'n') {
			const char *name = strchr(tok, '=');
			PyObject *code;

			if (!name || slot_frame[k])
				_exit(2);
			name++;
			slot_frame[k] = new_frame_for(name, in_list(libs, name));
			code = PyObject_GetAttrString(slot_frame[k], "f_code");
			ml += snprintf(mbuf + ml, MAXOUT - ml, " a:%d=%s", ptr_id(code), name);
			Py_DECREF(code);
		}
		else if (tok[0] == 'd') {
			PyObject *code;

			if (!slot_frame[k])
				_exit(2);
			code = PyObject_GetAttrString(slot_frame[k], "f_code");
			ml += snprintf(mbuf + ml, MAXOUT - ml, " f:%d", ptr_id(code));
			Py_DECREF(code);
			Py_CLEAR(slot_frame[k]);
		}
		else if (tok[0] == 'e') {
			PyObject *code;
			struct uftrace_python_symbol *sym;

			if (!slot_frame[k])
				_exit(2);
			code = PyObject_GetAttrString(slot_frame[k], "f_code");
			ml += snprintf(mbuf + ml, MAXOUT - ml, " e:%d", ptr_id(code));
			Py_DECREF(code);
			sym = convert_function_addr(slot_frame[k], Py_None, true);
			if (sym)
				il += snprintf(ibuf + il, MAXOUT - il, " %s:%u", sym->name, (unsigned)sym->addr);
			else
				il += snprintf(ibuf + il, MAXOUT - il, " -");
		}
		else
			_exit(2);
	}
	printf("MODEL code %s |%s\n", libs, mbuf);
	printf("IMPL%s\n", ibuf);
	fflush(stdout);
	if (symtab)
		uftrace_shmem_unlink(uftrace_shmem_name);
	if (dbg_info)
		uftrace_shmem_unlink(uftrace_shmem_dbg_name);
	_exit(0);
}

int main(void)
{
	char *line = NULL;
	size_t cap = 0;
	PyObject *types, *dummy_frame, *exec_fn, *r, *args;

	setenv("UFTRACE_SHMEM", "1", 1);
	setenv("UFTRACE_PYMAIN", MAIN_DIR "/main.py", 1);
	unsetenv("UFTRACE_FILTER");
	unsetenv("UFTRACE_PATTERN");
	unsetenv("UFTRACE_PY_LIBCALL");
	unsetenv("UFTRACE_DEBUG");

	Py_Initialize();
	types = PyImport_ImportModule("types");
	ns_type = PyObject_GetAttrString(types, "SimpleNamespace");
	py_frames = PyDict_New();
	c_funcs = PyDict_New();
	if (!ns_type) {
		fprintf(stderr, "no SimpleNamespace\n");
		return 2;
	}

	/* the real module init: sets skip_first_frame, calls init_uftrace() */
	if (PyInit_uftrace_python() == NULL) {
		fprintf(stderr, "module init failed\n");
		return 2;
	}
	cygprof_enter = h_enter;
	cygprof_exit = h_exit;

	/* python3: the first frame seen is uftrace.py's own (builtins.exec); it is
	 * remembered in a function-static variable and skipped for ever */
	dummy_frame = make_ns();
	exec_fn = get_c_func("builtins.exec");
	args = Py_BuildValue("(OsO)", dummy_frame, "c_call", exec_fn);
	r = uftrace_trace_python(NULL, args);
	Py_XDECREF(r);
	Py_DECREF(args);
	if (outlen != 0) {
		printf("INFO first-frame-not-skipped\n");
		outlen = 0;
	}

	while (getline(&line, &cap, stdin) > 0) {
		char *save = NULL, *tok, *copy;
		char *fixed, *mode, *ptype, *filt, *libs;
		union uftrace_python_symtab *st;
		char *p, *end;
		pid_t pid;
		int status = 0;

		line[strcspn(line, "\n")] = 0;
		if (!*line || *line == '#')
			continue;

		/*
		 * One process per case: the child starts from the state the module is in right after
		 * its initialisation (whatever static state the file has, known to this harness or
		 * not), so a case can neither see nor damage what another case left behind.
		 */
		fflush(stdout);
		pid = fork();
		if (pid < 0) {
			perror("fork");
			return 2;
		}
		if (pid > 0) {
			char shm[64];

			while (waitpid(pid, &status, 0) < 0 && errno == EINTR)
				;
			if (WIFEXITED(status) && WEXITSTATUS(status) == 0)
				continue;
			/* the real code crashed (or gave up) on this case: say so, clean up after it */
			printf("MODEL %s\n", line);
			if (WIFSIGNALED(status))
				printf("IMPL CRASH signal=%d\n", WTERMSIG(status));
			else
				printf("IMPL CRASH exit=%d\n", WEXITSTATUS(status));
			snprintf(shm, sizeof(shm), "/uftrace-python-%d", (int)pid);
			uftrace_shmem_unlink(shm);
			snprintf(shm, sizeof(shm), "/uftrace-python-dbg-%d", (int)pid);
			uftrace_shmem_unlink(shm);
			continue;
		}
		if (!strncmp(line, "code ", 5))
			run_code_case(line); /* does not return */
		copy = strdup(line);
		fixed = strtok_r(copy, " ", &save);
		mode = strtok_r(NULL, " ", &save);
		ptype = strtok_r(NULL, " ", &save);
		filt = strtok_r(NULL, " ", &save);
		libs = strtok_r(NULL, " ", &save);
		tok = strtok_r(NULL, " ", &save);
		if (!fixed || !mode || !ptype || !filt || !libs || !tok || strcmp(tok, "|")) {
			fprintf(stderr, "bad case line: %s\n", line);
			_exit(2);
		}

		fresh_state(filt, ptype, mode);
		cygprof_enter = h_enter;
		cygprof_exit = h_exit;
		outlen = 0;
		outbuf[0] = 0;

		while ((tok = strtok_r(NULL, " ", &save)) != NULL) {
			const char *name = tok + 2;
			const char *ev;
			PyObject *frame, *arg;
			int is_lib = in_list(libs, name);

			if (tok[1] != ':' || !*name) {
				fprintf(stderr, "bad event %s\n", tok);
				_exit(2);
			}
			switch (tok[0]) {
			case 'c': ev = "call"; break;
			case 'r': ev = "return"; break;
			case 'C': ev = "c_call"; break;
			case 'R': ev = "c_return"; break;
			case 'X': ev = "c_exception"; break;
			case 'o': ev = "exception"; break;
			default:
				fprintf(stderr, "bad event %s\n", tok);
				_exit(2);
			}
			if (tok[0] == 'c' || tok[0] == 'r') {
				frame = get_py_frame(name, is_lib);
				arg = Py_None;
			}
			else {
				/* C function: frame is the caller's; any frame but the first */
				frame = get_py_frame("caller", 0);
				arg = get_c_func(name);
			}
			args = Py_BuildValue("(OsO)", frame, ev, arg);
			r = uftrace_trace_python(NULL, args);
			if (r == NULL) {
				PyErr_Print();
				fprintf(stderr, "trace function raised\n");
				_exit(2);
			}
			Py_DECREF(r);
			Py_DECREF(args);
		}

		printf("MODEL %s\n", line);
		printf("IMPL %s| %d %d %d |", outbuf, filter_state.count_in, filter_state.count_out,
		       libcall_count);
		/* symbol table as it would be written to the .sym file */
		st = symtab;
		p = (char *)st + UFTRACE_PYTHON_SYMTAB_HDRSZ;
		end = (char *)st + st->offset;
		while (p < end) {
			unsigned addr;
			char type;
			char nm[512];
			char *nl = memchr(p, '\n', end - p);
			if (!nl || sscanf(p, "%x %c %511s", &addr, &type, nm) != 3)
				break;
			printf(" %u:%c:%s", addr, type, nm);
			p = nl + 1;
		}
		printf("\n");
		fflush(stdout);
		if (symtab)
			uftrace_shmem_unlink(uftrace_shmem_name);
		if (dbg_info)
			uftrace_shmem_unlink(uftrace_shmem_dbg_name);
		_exit(0);
	}
	fflush(stdout);
	/* skip the file's destructor (it would write python.sym into the cwd) */
	if (symtab)
		uftrace_shmem_unlink(uftrace_shmem_name);
	if (dbg_info)
		uftrace_shmem_unlink(uftrace_shmem_dbg_name);
	_exit(0);
}
