"""C++ / Rust declaration corpus generator for C13 (imported by checks/c13.py).
Every function definition sits on its own source line; `nm -l` (DWARF line info)
maps each emitted symbol back to its declaration, whose qualified name (scope
path + leaf, no parameter / template-argument lists) is the expected result."""
import re

BUILTINS = ["int", "char", "bool", "long", "unsigned", "short", "double", "float", "unsigned long",
            "signed char", "unsigned char", "long long", "wchar_t", "long double", "unsigned short"]

# (operator token, number of parameters as a member; 2 = any)
MEMBER_OPS = [
    ("+", 1), ("-", 1), ("*", 1), ("/", 1), ("%", 1), ("^", 1), ("&", 1), ("|", 1), ("~", 0), ("!", 0),
    ("=", 1), ("<", 1), (">", 1), ("+=", 1), ("-=", 1), ("*=", 1), ("/=", 1), ("%=", 1), ("^=", 1), ("&=", 1),
    ("|=", 1), ("<<", 1), (">>", 1), (">>=", 1), ("<<=", 1), ("==", 1), ("!=", 1), ("<=", 1), (">=", 1),
    ("&&", 1), ("||", 1), ("++", 0), ("--", 0), (",", 1), ("->*", 1), ("->", 0), ("()", 2), ("[]", 1),
    ("+", 0), ("-", 0), ("*", 0), ("&", 0),
]
USED = "__attribute__((used)) "


class Gen:
    def __init__(self, rng, nfun):
        self.rng = rng
        self.nfun = nfun
        self.uid = 0
        self.types = []        # class types usable in parameter lists (declared so far)
        self.lines = ["#include <string>", "#include <vector>", "#include <map>",
                      "typedef int (*FP0)(char); typedef double (*FP1)(unsigned, long *); typedef void (*FP2)();",
                      "typedef char *(*FP3)(const char *, ...); typedef int (&AR3)[3]; typedef const char (&ARC)[16];"]
        self.linemap = {}      # line number -> (expected, kind)
        self.inst = []         # explicit instantiations appended at the end
        self.ndefs = 0

    def fresh(self, p):
        self.uid += 1
        return "%s%d" % (p, self.uid)

    def emit(self, text, expected=None, kind=None):
        self.lines.append(text)
        if expected is not None:
            self.linemap[len(self.lines)] = (expected, kind)
            self.ndefs += 1

    def oty(self, depth=0, tparams=()):
        """an object type (no references)"""
        r = self.rng
        k = r.random()
        if tparams and k < 0.3:
            return r.choice(tparams)
        if k < 0.55 or depth > 2:
            return r.choice(BUILTINS)
        if k < 0.70 and self.types:
            q, tmpl = r.choice(self.types)
            return "%s<%s >" % (q, self.oty(depth + 1, tparams)) if tmpl else q
        if k < 0.80:
            return self.oty(depth + 1, tparams) + " *"
        if k < 0.84:
            return self.oty(depth + 1, tparams) + " const *"
        if k < 0.88:
            return "std::string"
        if k < 0.92:
            return "std::vector<%s >" % self.oty(depth + 1, tparams)
        if k < 0.95:
            return r.choice(["FP0", "FP1", "FP2", "FP3"])
        if k < 0.98:
            return "std::map<int, %s >" % self.oty(depth + 1, tparams)
        return r.choice(BUILTINS) + " volatile *"

    def ty(self, depth=0, tparams=()):
        """a parameter type"""
        r = self.rng
        t = self.oty(depth, tparams)
        k = r.random()
        if k < 0.03:
            return r.choice(["AR3", "ARC"])
        if k < 0.7:
            return t
        if k < 0.8:
            return t + " &"
        if k < 0.92:
            return t + " const &"
        return t + " &&"

    def params(self, n=None, tparams=()):
        r = self.rng
        if n is None:
            n = r.choice([0, 0, 1, 1, 2, 3])
        ps = [self.ty(0, tparams) for _ in range(n)]
        if r.random() < 0.04:
            ps.append("...")
        return ", ".join(ps)

    def ret(self):
        return self.rng.choice(["void", "int", "char", "long", "bool", "double", "int *", "unsigned"])

    @staticmethod
    def body(ret):
        if ret == "void":
            return "{ }"
        return "{ return (%s)0; }" % ret

    def scope(self, path, depth):
        """path: list of (name, kind) with kind in ns / class / tclass"""
        r = self.rng
        exp = "::".join(n for n, _ in path)
        ee = exp + "::" if exp else ""
        in_class = bool(path) and path[-1][1] in ("class", "tclass")
        in_tmpl = any(k == "tclass" for _, k in path)
        tparams = tuple("T_" + n for n, k in path if k == "tclass")
        used = "" if in_tmpl else USED
        seen = set()
        for _ in range(r.randint(1, 5)):
            if self.ndefs >= self.nfun:
                return
            kind = r.random()
            if in_class and kind < 0.16:
                cname = path[-1][0]
                ps = self.params(tparams=tparams)
                if ("ctor", ps) in seen:
                    continue
                seen.add(("ctor", ps))
                self.emit("%s%s(%s) { }" % (used, cname, ps), ee + cname, "ctor")
            elif in_class and kind < 0.27:
                if "dtor" in seen:
                    continue
                seen.add("dtor")
                cname = path[-1][0]
                virt = "virtual " if r.random() < 0.4 else ""
                self.emit("%s%s~%s() { }" % (used, virt, cname), ee + "~" + cname, "dtor")
            elif in_class and kind < 0.47:
                op, np = r.choice(MEMBER_OPS)
                ps = self.params(np if np < 2 else r.randint(0, 3), tparams)
                if op in ("++", "--") and r.random() < 0.5:
                    ps = "int"
                ps = ps.replace(", ...", "").replace("...", "int") if np < 2 else ps
                if (op, ps) in seen:
                    continue
                seen.add((op, ps))
                rt = (path[-1][0] + " *") if op == "->" else self.ret()
                cq = " const" if r.random() < 0.3 else ""
                self.emit("%s%s operator%s(%s)%s %s" % (used, rt, op, ps, cq, self.body(rt)),
                          ee + "operator" + op, "operator")
            elif in_class and kind < 0.53:
                t = r.choice(BUILTINS + ["void *"] + list(tparams))
                if ("cast", t) in seen or ("cast", "T") in seen and t in tparams:
                    continue
                seen.add(("cast", "T" if t in tparams else t))
                if any(s[0] == "cast" for s in seen if isinstance(s, tuple) and s != ("cast", "T" if t in tparams else t)) and in_tmpl:
                    continue  # T_x may coincide with a builtin after instantiation
                self.emit("%soperator %s() { return (%s)0; }" % (used, t, t), ee + "operator(cast)", "operator")
            elif in_class and kind < 0.58:
                which = r.choice(["new", "new[]", "delete", "delete[]"])
                if which in seen:
                    continue
                seen.add(which)
                if which.startswith("new"):
                    self.emit("%svoid *operator %s(unsigned long n) { return 0; }" % (used, which),
                              ee + "operator " + which, "operator")
                else:
                    self.emit("%svoid operator %s(void *p) { }" % (used, which), ee + "operator " + which, "operator")
            elif kind < 0.72 and not in_tmpl:
                # function template (member or free), explicitly instantiated
                f = self.fresh("g")
                rt = self.ret()
                ps = self.params(tparams=("U",))
                st = "static " if in_class and r.random() < 0.3 else ""
                self.emit("template<class U> %s%s %s(%s) %s" % (st, rt, f, ps, self.body(rt)), ee + f, "ftemplate")
                for a in r.sample(["int", "char", "double *", "long", "unsigned char"], r.randint(1, 2)):
                    self.inst.append("template %s %s%s<%s >(%s);" % (rt, ee, f, a, re.sub(r"\bU\b", a, ps)))
            else:
                f = self.fresh("f")
                rt = self.ret()
                ps = self.params(tparams=tparams)
                cq = " const" if in_class and r.random() < 0.3 else ""
                st = "static " if (not cq and r.random() < 0.2) else ""
                # (static at namespace scope: internal linkage, mangled with an 'L' before the name)
                self.emit("%s%s%s %s(%s)%s %s" % (used, st, rt, f, ps, cq, self.body(rt)), ee + f, "function")
        if depth >= 4:
            return
        for _ in range(r.choice([1, 1, 2, 2, 3]) if depth < 2 else r.choice([0, 0, 1, 2])):
            if self.ndefs >= self.nfun:
                return
            k = r.random()
            if not in_class and k < 0.45:
                n = self.fresh(r.choice(["n", "ns", "space"]))
                self.emit("namespace %s {" % n)
                self.scope(path + [(n, "ns")], depth + 1)
                self.emit("}")
            elif k < 0.8 or in_tmpl:
                n = self.fresh(r.choice(["K", "Cls", "Widget"]))
                self.emit("struct %s {" % n)
                self.scope(path + [(n, "class")], depth + 1)
                self.emit("int fld_;")
                self.emit("};")
                if not in_tmpl:
                    self.types.append((ee + n, False))
            else:
                n = self.fresh(r.choice(["T", "Tpl"]))
                self.emit("template<class T_%s> struct %s {" % (n, n))
                self.scope(path + [(n, "tclass")], depth + 1)
                self.emit("};")
                self.types.append((ee + n, True))
                for a in r.sample(["int", "char", "double *", "long"], 2):
                    self.inst.append("template struct %s%s<%s >;" % (ee, n, a))


def all_ops_class(g):
    """one class with every overloadable operator kind once (so that every entry of ops[] that a
    compiler can emit is exercised in every run)"""
    ns = g.fresh("opsns")
    k = g.fresh("AllOps")
    ee = "%s::%s::" % (ns, k)
    g.emit("namespace %s {" % ns)
    g.emit("struct %s {" % k)
    for op, np in MEMBER_OPS:
        ps = ", ".join(["int", "char", "long"][:np]) if np < 2 else "int, double"
        rt = (k + " *") if op == "->" else "int"
        g.emit("%s%s operator%s(%s) %s" % (USED, rt, op, ps, Gen.body(rt)), ee + "operator" + op, "operator")
    g.emit("%sint operator++(int) { return 0; }" % USED, ee + "operator++", "operator")
    g.emit("%sint operator--(int) { return 0; }" % USED, ee + "operator--", "operator")
    g.emit("%soperator long() { return 0; }" % USED, ee + "operator(cast)", "operator")
    for which in ("new", "new[]"):
        g.emit("%svoid *operator %s(unsigned long n) { return 0; }" % (USED, which), ee + "operator " + which, "operator")
    for which in ("delete", "delete[]"):
        g.emit("%svoid operator %s(void *p) { }" % (USED, which), ee + "operator " + which, "operator")
    g.emit("int fld_;")
    g.emit("};")
    g.emit("%slong double operator\"\" _w%d(long double x) { return x; }" % (USED, g.uid), "%s::operator\"\"" % ns, "operator")
    g.emit("}")


def cpp_source(rng, nfun):
    """returns (source text, {line number: (expected, kind)})"""
    g = Gen(rng, nfun)
    all_ops_class(g)
    while g.ndefs < nfun:
        if rng.random() < 0.25:
            g.scope([], 0)
        else:
            n = g.fresh("n")
            g.emit("namespace %s {" % n)
            g.scope([(n, "ns")], 1)
            g.emit("}")
    for i in g.inst:
        g.emit(i)
    return "\n".join(g.lines) + "\n", g.linemap


RUST_TYPES = ["i32", "u8", "i64", "bool", "f64", "u32", "&str", "&[u8]", "(i32, u8)", "[u32; 4]", "*const u8",
              "Option<i32>", "&mut i64", "char", "usize"]


def rust_source(rng, nfun):
    """returns (source text, {line: (expected, kind)}); crate name is `cr`."""
    lines = ["#![allow(dead_code, unused_variables, non_camel_case_types, non_snake_case)]"]
    linemap = {}
    uses = []
    uid = [0]
    ndefs = [0]

    def fresh(p):
        uid[0] += 1
        return "%s%d" % (p, uid[0])

    def emit(t, exp=None, kind=None):
        lines.append(t)
        if exp is not None:
            linemap[len(lines)] = (exp, kind)
            ndefs[0] += 1

    def params():
        return ", ".join("a%d: %s" % (i, rng.choice(RUST_TYPES)) for i in range(rng.choice([0, 1, 1, 2, 3])))

    def module(path, depth):
        q = "::".join(path)
        for _ in range(rng.randint(1, 4)):
            if ndefs[0] >= nfun:
                return
            k = rng.random()
            if k < 0.4:
                f = fresh(rng.choice(["f", "func_", "do_it"]))
                emit("#[inline(never)] pub fn %s(%s) -> i32 { 0 }" % (f, params()), q + "::" + f, "function")
            elif k < 0.55:
                f = fresh("g")
                emit("#[inline(never)] pub fn %s<T: Copy>(t: T, %s) -> T { t }" % (f, params()), q + "::" + f, "generic")
                ps = lines[-1]
                args = []
                for m in __import__("re").finditer(r"a\d+: ([^,)]+(?:, u8\))?)", ps.split("(t: T, ")[1].rsplit(") -> T", 1)[0]):
                    args.append(m.group(1))
                uses.append((q + "::" + f, args))
            elif k < 0.85:
                s = fresh(rng.choice(["K", "Thing", "S"]))
                generic = rng.random() < 0.3
                if generic:
                    emit("pub struct %s<T> { pub v: T }" % s)
                    emit("impl<T> %s<T> {" % s)
                else:
                    emit("pub struct %s { pub v: i32 }" % s)
                    emit("impl %s {" % s)
                for _ in range(rng.randint(1, 3)):
                    m = fresh(rng.choice(["m", "get_", "new"]))
                    slf = rng.choice(["&self, ", "&mut self, ", "self, ", ""])
                    ps = params()
                    sig = (slf + ps).rstrip(", ")
                    if generic:
                        emit("#[inline(never)] pub fn %s(%s) -> i32 { 0 }" % (m, sig), "%s::%s<T>::%s" % (q, s, m), "method")
                        uses.append(("%s::%s::<u8>::%s" % (q, s, m), None))
                    else:
                        emit("#[inline(never)] pub fn %s(%s) -> i32 { 0 }" % (m, sig), "%s::%s::%s" % (q, s, m), "method")
                emit("}")
                if not generic and rng.random() < 0.6:
                    t = fresh("Tr")
                    m = fresh("tm")
                    emit("pub trait %s { fn %s(&self) -> i32; }" % (t, m))
                    emit("impl %s for %s { #[inline(never)] fn %s(&self) -> i32 { self.v } }" % (t, s, m),
                         "_<%s::%s>::%s" % (q, s, m), "trait-impl")
        if depth < 4:
            for _ in range(rng.choice([1, 1, 2]) if depth < 2 else rng.choice([0, 1])):
                if ndefs[0] >= nfun:
                    return
                n = fresh(rng.choice(["m", "mod_", "inner"]))
                emit("pub mod %s {" % n)
                module(path + [n], depth + 1)
                emit("}")

    while ndefs[0] < nfun:
        n = fresh("top")
        emit("pub mod %s {" % n)
        module(["cr", n], 1)
        emit("}")
    # instantiate generics: take function pointers (forces monomorphisation)
    emit("pub fn use_all() -> usize { let mut n = 0usize;")
    for path, args in uses:
        p = path.replace("cr::", "crate::", 1)
        if args is None:
            emit(" n += %s as usize;" % p)
        else:
            emit(" n += %s::<u16> as usize; n += %s::<f32> as usize;" % (p, p))
    emit(" n }")
    return "\n".join(lines) + "\n", linemap
