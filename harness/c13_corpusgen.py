"""C++ / Rust declaration corpus generator for C13 (imported by checks/c13.py).
Every function definition sits on its own source line; `nm -l` (DWARF line info)
maps each emitted symbol back to its declaration, whose qualified name (scope
path + leaf, no parameter / template-argument lists) is the expected result."""
import re

BUILTINS = ["int", "char", "bool", "long", "unsigned", "short", "double", "float", "unsigned long",
            "signed char", "unsigned char", "long long", "wchar_t", "long double", "unsigned short"]

# (operator token, number of parameters as a member; 2 = any)
MEMBER_OPS = [
    ("+", 1), ("-", 1), ("*", 1), ("/", 1), ("%", 1), ("^", 1), ("&", 1), ("|", 1), ("~", 0), ("!", 0),
    ("=", 1), ("<", 1), (">", 1), ("+=", 1), ("-=", 1), ("*=", 1), ("/=", 1), ("%=", 1), ("^=", 1), ("&=", 1),
    ("|=", 1), ("<<", 1), (">>", 1), (">>=", 1), ("<<=", 1), ("==", 1), ("!=", 1), ("<=", 1), (">=", 1),
    ("&&", 1), ("||", 1), ("++", 0), ("--", 0), (",", 1), ("->*", 1), ("->", 0), ("()", 2), ("[]", 1),
    ("+", 0), ("-", 0), ("*", 0), ("&", 0),
]
USED = "__attribute__((used)) "


class Gen:
    def __init__(self, rng, nfun):
        self.rng = rng
        self.nfun = nfun
        self.uid = 0
        self.types = []        # class types usable in parameter lists (declared so far)
        self.lines = ["#include <string>", "#include <vector>", "#include <map>",
                      "typedef int (*FP0)(char); typedef double (*FP1)(unsigned, long *); typedef void (*FP2)();",
                      "typedef char *(*FP3)(const char *, ...); typedef int (&AR3)[3]; typedef const char (&ARC)[16];"]
        self.linemap = {}      # line number -> (expected, kind)
        self.inst = []         # explicit instantiations appended at the end
        self.ndefs = 0

    def fresh(self, p):
        self.uid += 1
        return "%s%d" % (p, self.uid)

    def emit(self, text, expected=None, kind=None):
        self.lines.append(text)
        if expected is not None:
            self.linemap[len(self.lines)] = (expected, kind)
            self.ndefs += 1

    def oty(self, depth=0, tparams=()):
        """an object type (no references)"""
        r = self.rng
        k = r.random()
        if tparams and k < 0.3:
            return r.choice(tparams)
        if k < 0.55 or depth > 2:
            return r.choice(BUILTINS)
        if k < 0.70 and self.types:
            q, tmpl = r.choice(self.types)
            return "%s<%s >" % (q, self.oty(depth + 1, tparams)) if tmpl else q
        if k < 0.80:
            return self.oty(depth + 1, tparams) + " *"
        if k < 0.84:
            return self.oty(depth + 1, tparams) + " const *"
        if k < 0.88:
            return "std::string"
        if k < 0.92:
            return "std::vector<%s >" % self.oty(depth + 1, tparams)
        if k < 0.95:
            return r.choice(["FP0", "FP1", "FP2", "FP3"])
        if k < 0.98:
            return "std::map<int, %s >" % self.oty(depth + 1, tparams)
        return r.choice(BUILTINS) + " volatile *"

    def ty(self, depth=0, tparams=()):
        """a parameter type"""
        r = self.rng
        t = self.oty(depth, tparams)
        k = r.random()
        if k < 0.03:
            return r.choice(["AR3", "ARC"])
        if k < 0.7:
            return t
        if k < 0.8:
            return t + " &"
        if k < 0.92:
            return t + " const &"
        return t + " &&"

    def params(self, n=None, tparams=()):
        r = self.rng
        if n is None:
            n = r.choice([0, 0, 1, 1, 2, 3])
        ps = [self.ty(0, tparams) for _ in range(n)]
        if r.random() < 0.04:
            ps.append("...")
        return ", ".join(ps)

    def ret(self):
        return self.rng.choice(["void", "int", "char", "long", "bool", "double", "int *", "unsigned"])

    @staticmethod
    def body(ret):
        if ret == "void":
            return "{ }"
        return "{ return (%s)0; }" % ret

    def scope(self, path, depth):
        """path: list of (name, kind) with kind in ns / class / tclass"""
        r = self.rng
        exp = "::".join(n for n, _ in path)
        ee = exp + "::" if exp else ""
        in_class = bool(path) and path[-1][1] in ("class", "tclass")
        in_tmpl = any(k == "tclass" for _, k in path)
        tparams = tuple("T_" + n for n, k in path if k == "tclass")
        used = "" if in_tmpl else USED
        seen = set()
        for _ in range(r.randint(1, 5)):
            if self.ndefs >= self.nfun:
                return
            kind = r.random()
            if in_class and kind < 0.16:
                cname = path[-1][0]
                ps = self.params(tparams=tparams)
                if ("ctor", ps) in seen:
                    continue
                seen.add(("ctor", ps))
                self.emit("%s%s(%s) { }" % (used, cname, ps), ee + cname, "ctor")
            elif in_class and kind < 0.27:
                if "dtor" in seen:
                    continue
                seen.add("dtor")
                cname = path[-1][0]
                virt = "virtual " if r.random() < 0.4 else ""
                self.emit("%s%s~%s() { }" % (used, virt, cname), ee + "~" + cname, "dtor")
            elif in_class and kind < 0.47:
                op, np = r.choice(MEMBER_OPS)
                ps = self.params(np if np < 2 else r.randint(0, 3), tparams)
                if op in ("++", "--") and r.random() < 0.5:
                    ps = "int"
                ps = ps.replace(", ...", "").replace("...", "") if np < 2 else ps
                if (op, ps) in seen:
                    continue
                seen.add((op, ps))
                rt = (path[-1][0] + " *") if op == "->" else self.ret()
                cq = " const" if r.random() < 0.3 else ""
                self.emit("%s%s operator%s(%s)%s %s" % (used, rt, op, ps, cq, self.body(rt)),
                          ee + "operator" + op, "operator")
            elif in_class and kind < 0.53:
                t = r.choice(BUILTINS + ["void *"] + list(tparams))
                if ("cast", t) in seen or ("cast", "T") in seen and t in tparams:
                    continue
                seen.add(("cast", "T" if t in tparams else t))
                if any(s[0] == "cast" for s in seen if isinstance(s, tuple) and s != ("cast", "T" if t in tparams else t)) and in_tmpl:
                    continue  # T_x may coincide with a builtin after instantiation
                self.emit("%soperator %s() { return (%s)0; }" % (used, t, t), ee + "operator(cast)", "operator")
            elif in_class and kind < 0.58:
                which = r.choice(["new", "new[]", "delete", "delete[]"])
                if which in seen:
                    continue
                seen.add(which)
                if which.startswith("new"):
                    self.emit("%svoid *operator %s(unsigned long n) { return 0; }" % (used, which),
                              ee + "operator " + which, "operator")
                else:
                    self.emit("%svoid operator %s(void *p) { }" % (used, which), ee + "operator " + which, "operator")
            elif kind < 0.72 and not in_tmpl:
                # function template (member or free), explicitly instantiated
                f = self.fresh("g")
                rt = self.ret()
                ps = self.params(tparams=("U",))
                st = "static " if in_class and r.random() < 0.3 else ""
                self.emit("template<class U> %s%s %s(%s) %s" % (st, rt, f, ps, self.body(rt)), ee + f, "ftemplate")
                for a in r.sample(["int", "char", "double *", "long", "unsigned char"], r.randint(1, 2)):
                    self.inst.append("template %s %s%s<%s >(%s);" % (rt, ee, f, a, re.sub(r"\bU\b", a, ps)))
            else:
                f = self.fresh("f")
                rt = self.ret()
                ps = self.params(tparams=tparams)
                cq = " const" if in_class and r.random() < 0.3 else ""
                st = "static " if (not cq and r.random() < 0.2) else ""
                # (static at namespace scope: internal linkage, mangled with an 'L' before the name)
                self.emit("%s%s%s %s(%s)%s %s" % (used, st, rt, f, ps, cq, self.body(rt)), ee + f, "function")
        if depth >= 4:
            return
        for _ in range(r.choice([1, 1, 2, 2, 3]) if depth < 2 else r.choice([0, 0, 1, 2])):
            if self.ndefs >= self.nfun:
                return
            k = r.random()
            if not in_class and k < 0.45:
                n = self.fresh(r.choice(["n", "ns", "space"]))
                self.emit("namespace %s {" % n)
                self.scope(path + [(n, "ns")], depth + 1)
                self.emit("}")
            elif k < 0.8 or in_tmpl:
                n = self.fresh(r.choice(["K", "Cls", "Widget"]))
                self.emit("struct %s {" % n)
                self.scope(path + [(n, "class")], depth + 1)
                self.emit("int fld_;")
                self.emit("};")
                if not in_tmpl:
                    self.types.append((ee + n, False))
            else:
                n = self.fresh(r.choice(["T", "Tpl"]))
                self.emit("template<class T_%s> struct %s {" % (n, n))
                self.scope(path + [(n, "tclass")], depth + 1)
                self.emit("};")
                self.types.append((ee + n, True))
                for a in r.sample(["int", "char", "double *", "long"], 2):
                    self.inst.append("template struct %s%s<%s >;" % (ee, n, a))


def all_ops_class(g):
    """one class with every overloadable operator kind once (so that every entry of ops[] that a
    compiler can emit is exercised in every run)"""
    ns = g.fresh("opsns")
    k = g.fresh("AllOps")
    ee = "%s::%s::" % (ns, k)
    g.emit("namespace %s {" % ns)
    g.emit("struct %s {" % k)
    for op, np in MEMBER_OPS:
        ps = ", ".join(["int", "char", "long"][:np]) if np < 2 else "int, double"
        rt = (k + " *") if op == "->" else "int"
        g.emit("%s%s operator%s(%s) %s" % (USED, rt, op, ps, Gen.body(rt)), ee + "operator" + op, "operator")
    g.emit("%sint operator++(int) { return 0; }" % USED, ee + "operator++", "operator")
    g.emit("%sint operator--(int) { return 0; }" % USED, ee + "operator--", "operator")
    g.emit("%soperator long() { return 0; }" % USED, ee + "operator(cast)", "operator")
    for which in ("new", "new[]"):
        g.emit("%svoid *operator %s(unsigned long n) { return 0; }" % (USED, which), ee + "operator " + which, "operator")
    for which in ("delete", "delete[]"):
        g.emit("%svoid operator %s(void *p) { }" % (USED, which), ee + "operator " + which, "operator")
    g.emit("int fld_;")
    g.emit("};")
    g.emit("%slong double operator\"\" _w%d(long double x) { return x; }" % (USED, g.uid), "%s::operator\"\"" % ns, "operator")
    g.emit("}")


def cpp_source(rng, nfun):
    """returns (source text, {line number: (expected, kind)})"""
    g = Gen(rng, nfun)
    all_ops_class(g)
    while g.ndefs < nfun:
        if rng.random() < 0.25:
            g.scope([], 0)
        else:
            n = g.fresh("n")
            g.emit("namespace %s {" % n)
            g.scope([(n, "ns")], 1)
            g.emit("}")
    for i in g.inst:
        g.emit(i)
    return "\n".join(g.lines) + "\n", g.linemap


RUST_TYPES = ["i32", "u8", "i64", "bool", "f64", "u32", "&str", "&[u8]", "(i32, u8)", "[u32; 4]", "*const u8",
              "Option<i32>", "&mut i64", "char", "usize"]


def rust_source(rng, nfun):
    """returns (source text, {line: (expected, kind)}); crate name is `cr`."""
    lines = ["#![allow(dead_code, unused_variables, non_camel_case_types, non_snake_case)]"]
    linemap = {}
    uses = []
    uid = [0]
    ndefs = [0]

    def fresh(p):
        uid[0] += 1
        return "%s%d" % (p, uid[0])

    def emit(t, exp=None, kind=None):
        lines.append(t)
        if exp is not None:
            linemap[len(lines)] = (exp, kind)
            ndefs[0] += 1

    def params():
        return ", ".join("a%d: %s" % (i, rng.choice(RUST_TYPES)) for i in range(rng.choice([0, 1, 1, 2, 3])))

    def module(path, depth):
        q = "::".join(path)
        for _ in range(rng.randint(1, 4)):
            if ndefs[0] >= nfun:
                return
            k = rng.random()
            if k < 0.4:
                f = fresh(rng.choice(["f", "func_", "do_it"]))
                emit("#[inline(never)] pub fn %s(%s) -> i32 { 0 }" % (f, params()), q + "::" + f, "function")
            elif k < 0.55:
                f = fresh("g")
                emit("#[inline(never)] pub fn %s<T: Copy>(t: T, %s) -> T { t }" % (f, params()), q + "::" + f, "generic")
                ps = lines[-1]
                args = []
                for m in __import__("re").finditer(r"a\d+: ([^,)]+(?:, u8\))?)", ps.split("(t: T, ")[1].rsplit(") -> T", 1)[0]):
                    args.append(m.group(1))
                uses.append((q + "::" + f, args))
            elif k < 0.85:
                s = fresh(rng.choice(["K", "Thing", "S"]))
                generic = rng.random() < 0.3
                if generic:
                    emit("pub struct %s<T> { pub v: T }" % s)
                    emit("impl<T> %s<T> {" % s)
                else:
                    emit("pub struct %s { pub v: i32 }" % s)
                    emit("impl %s {" % s)
                for _ in range(rng.randint(1, 3)):
                    m = fresh(rng.choice(["m", "get_", "new"]))
                    slf = rng.choice(["&self, ", "&mut self, ", "self, ", ""])
                    ps = params()
                    sig = (slf + ps).rstrip(", ")
                    if generic:
                        emit("#[inline(never)] pub fn %s(%s) -> i32 { 0 }" % (m, sig), "%s::%s<T>::%s" % (q, s, m), "method")
                        uses.append(("%s::%s::<u8>::%s" % (q, s, m), None))
                    else:
                        emit("#[inline(never)] pub fn %s(%s) -> i32 { 0 }" % (m, sig), "%s::%s::%s" % (q, s, m), "method")
                emit("}")
                if not generic and rng.random() < 0.6:
                    t = fresh("Tr")
                    m = fresh("tm")
                    emit("pub trait %s { fn %s(&self) -> i32; }" % (t, m))
                    emit("impl %s for %s { #[inline(never)] fn %s(&self) -> i32 { self.v } }" % (t, s, m),
                         "_<%s::%s>::%s" % (q, s, m), "trait-impl")
        if depth < 4:
            for _ in range(rng.choice([1, 1, 2]) if depth < 2 else rng.choice([0, 1])):
                if ndefs[0] >= nfun:
                    return
                n = fresh(rng.choice(["m", "mod_", "inner"]))
                emit("pub mod %s {" % n)
                module(path + [n], depth + 1)
                emit("}")

    while ndefs[0] < nfun:
        n = fresh("top")
        emit("pub mod %s {" % n)
        module(["cr", n], 1)
        emit("}")
    # instantiate generics: take function pointers (forces monomorphisation)
    emit("pub fn use_all() -> usize { let mut n = 0usize;")
    for path, args in uses:
        p = path.replace("cr::", "crate::", 1)
        if args is None:
            emit(" n += %s as usize;" % p)
        else:
            emit(" n += %s::<u16> as usize; n += %s::<f32> as usize;" % (p, p))
    emit(" n }")
    return "\n".join(lines) + "\n", linemap


# ---------------------------------------------------------------------------------------------
# class templates with non-type template arguments (expr-primary / expression forms)

PRELUDE = r'''
void fn0() {} void fn1(int) {} int gv0; long gv1[4];
struct KM { int m; void mf() {} static int sm; static void sf() {} int operator()(int) { return 0; } };
int KM::sm;
enum E0 { E0a, E0b = 5 }; enum class EC : short { x = -2, y = 7 };
namespace pns { void nf() {} int ng; enum NE { na, nb }; struct PK { int pm; void pmf() {} static void psf() {} }; }
'''

# (template parameter declaration, [arguments])  -- forms common to g++ and clang++ (C++17)
KINDS17 = [
    ("void (*P)()", ["&fn0", "&pns::nf", "&KM::sf", "&pns::PK::psf", "nullptr"]),
    ("void (*P)(int)", ["&fn1"]),
    ("void (&P)()", ["fn0", "pns::nf"]),
    ("int &P", ["gv0", "pns::ng", "KM::sm"]),
    ("int *P", ["&gv0", "&pns::ng", "&KM::sm", "nullptr"]),
    ("long (&P)[4]", ["gv1"]),
    ("int KM::*P", ["&KM::m", "nullptr"]),
    ("void (KM::*P)()", ["&KM::mf"]),
    ("void (pns::PK::*P)()", ["&pns::PK::pmf"]),
    ("int P", ["0", "3", "-5", "2147483647", "(-2147483647-1)", "012", "0x1f"]),
    ("unsigned P", ["0u", "7u", "4294967295u"]),
    ("long P", ["-1L", "1234567890123L"]),
    ("unsigned long P", ["42ul"]),
    ("long long P", ["-9LL"]),
    ("unsigned long long P", ["18446744073709551615ULL"]),
    ("short P", ["-3", "9"]),
    ("unsigned short P", ["65535"]),
    ("bool P", ["true", "false"]),
    ("char P", ["'a'", "'\\0'"]),
    ("signed char P", ["-7"]),
    ("unsigned char P", ["200"]),
    ("wchar_t P", ["L'x'"]),
    ("char16_t P", ["u'y'"]),
    ("char32_t P", ["U'z'"]),
    ("__int128 P", ["5"]),
    ("decltype(nullptr) P", ["nullptr"]),
    ("E0 P", ["E0a", "E0b"]),
    ("EC P", ["EC::x", "EC::y"]),
    ("pns::NE P", ["pns::nb"]),
    ("auto P", ["3", "&fn0", "'c'", "true"]),
    ("int P, int Q", ["1, 2", "-1, 0"]),
    ("class T, int P", ["int, 3", "KM, -1", "void (*)(int), 0"]),
    ("int P, class T", ["4, char"]),
    ("int... Ps", ["1, 2, 3", ""]),
    ("template<int> class TT, int P", None),   # filled below
]
KINDS20 = [
    ("S2 P", ["S2{1, 2}", "S2{-1, 0}"]),
]
# C++20 floating-point non-type arguments (`Ld400a000000000000E`): the demangler cannot parse the hex
# float literal (observation F10k) -- only generated when the check is told to
KINDS20_FLOAT = [
    ("double P", ["3.25", "-0.5"]),
    ("float P", ["1.5f"]),
]
PRELUDE20 = "struct S2 { int a; int b; };\n"

OPS = ["+", "==", "()", "[]", "->", "<<", "!", "new", "delete"]


def nttp_source(rng, cxx20=False, nkinds=None, with_float=True, with_exprops=True):
    """class templates with non-type template arguments at outer and nested positions, followed by member
    functions, ctors, dtors, operators, nested classes and nested templates.
    returns (source text, {line: (expected, kind)})"""
    lines = ["#include <typeinfo>", PRELUDE.strip("\n")] + ([PRELUDE20.strip("\n")] if cxx20 else [])
    lines = "\n".join(lines).split("\n")
    linemap = {}
    inst = []
    uid = [0]

    def fresh(p):
        uid[0] += 1
        return "%s%d" % (p, uid[0])

    def emit(t, exp=None, kind=None):
        lines.append(t)
        if exp is not None:
            linemap[len(lines)] = (exp, kind)

    def members(q, cname, depth=0):
        """member definitions of class `cname` with qualified expected prefix q (ends with ::)"""
        emit("%s() { }" % cname, q + cname, "nttp:ctor")
        emit("~%s() { }" % cname, q + "~" + cname, "nttp:dtor")
        emit("void %s(int) { }" % fresh("m"), q + "m%d" % uid[0], "nttp:method")
        emit("static long %s(char, bool) { return 0; }" % fresh("sm"), q + "sm%d" % uid[0], "nttp:method")
        emit("void %s() const { }" % fresh("cm"), q + "cm%d" % uid[0], "nttp:method")
        op = rng.choice(OPS)
        if op == "->":
            emit("%s *operator->() { return this; }" % cname, q + "operator->", "nttp:operator")
        elif op == "new":
            emit("void *operator new(unsigned long) { return 0; }", q + "operator new", "nttp:operator")
        elif op == "delete":
            emit("void operator delete(void *) { }", q + "operator delete", "nttp:operator")
        elif op == "!":
            emit("bool operator!() { return true; }", q + "operator!", "nttp:operator")
        else:
            emit("int operator%s(int) { return 0; }" % op, q + "operator" + op, "nttp:operator")
        emit("operator long() { return 0; }", q + "operator(cast)", "nttp:operator")
        emit("template<class U> void %s(U) { }" % fresh("tm"), q + "tm%d" % uid[0], "nttp:ftemplate")
        return "tm%d" % uid[0]

    kinds = list(KINDS17) + (list(KINDS20) if cxx20 else []) + (list(KINDS20_FLOAT) if cxx20 and with_float else [])
    if nkinds is not None and nkinds < len(kinds):
        # always keep the address/reference forms (first 9), sample the rest
        kinds = kinds[:9] + rng.sample(kinds[9:], max(0, nkinds - 9))
    emit("template<int N> struct TTarg { };")
    emit("template<class T> struct Wrap {")       # plain outer template for nested positions
    wrap_inner = []
    emit("};")
    wrap_line = len(lines)   # index of the closing brace (1-based) -> we insert before it later
    body_wrap = []
    emit("namespace ns {")
    for decl, args in kinds:
        if args is None:
            args = ["TTarg, 6"]
        name = fresh("C")
        q = "ns::%s::" % name
        emit("template<%s> struct %s {" % (decl, name))
        tm = members(q, name)
        inn = fresh("In")
        emit("struct %s {" % inn)
        members(q + inn + "::", inn)
        in2 = fresh("Deep")
        emit("struct %s { void %s() { } int fld_; };" % (in2, fresh("dm")), q + inn + "::" + in2 + "::dm%d" % uid[0], "nttp:method")
        emit("int fld_; };")
        # nested template (plain and non-type) inside the non-type template
        it = fresh("InT")
        emit("template<class V, int W> struct %s { void %s(V) { } %s() { } };" % (it, fresh("im"), it),
             None, None)
        # two definitions on one line share the line: map the line to the method (ctor has its own expected) -> split
        lines.pop()
        emit("template<class V, int W> struct %s {" % it)
        emit("void %s(V) { }" % fresh("im"), q + it + "::im%d" % uid[0], "nttp:method")
        emit("%s() { }" % it, q + it + "::" + it, "nttp:ctor")
        emit("};")
        emit("int fld_; };")
        for a in args:
            inst.append("template struct ns::%s<%s >;" % (name, a))
            inst.append("template void ns::%s<%s >::%s<char>(char);" % (name, a, tm))
            inst.append("template struct ns::%s<%s >::%s<long, -4>;" % (name, a, it))
        # the same non-type template nested in a plain class template and used as a type argument
        n2 = fresh("N")
        body_wrap.append((decl, n2, args))
    emit("template<class T, class U2 = int> struct Plain { void run(T) { } Plain() { } };", None, None)
    lines.pop()
    emit("template<class T, class U2 = int> struct Plain {")
    emit("void run(T) { }", "ns::Plain::run", "nttp:method")
    emit("Plain() { }", "ns::Plain::Plain", "nttp:ctor")
    emit("};")
    emit("}")
    # nested position: Wrap<T>::N<arg>::f
    emit("template<class T> struct Wrap2 {")
    for decl, n2, args in body_wrap:
        if "class T" in decl:
            continue
        emit("template<%s> struct %s {" % (decl, n2))
        emit("void %s(T) { }" % fresh("wf"), "Wrap2::%s::wf%d" % (n2, uid[0]), "nttp:method")
        emit("%s() { }" % n2, "Wrap2::%s::%s" % (n2, n2), "nttp:ctor")
        emit("struct Leaf { void %s() { } int fld_; };" % fresh("lf"), "Wrap2::%s::Leaf::lf%d" % (n2, uid[0]), "nttp:method")
        emit("int fld_; };")
        for a in args[:2]:
            inst.append("template struct Wrap2<KM>::%s<%s >;" % (n2, a))
    emit("};")
    # function templates whose signature keeps dependent expressions (X…E after the name)
    emit("template<bool B, class T = void> struct En { }; template<class T> struct En<true, T> { typedef T type; };")
    emit("template<int N> struct Val { typedef int type; };")
    emit("namespace fx {")
    FX = [
        ("template<class T> typename En<sizeof(T) == 4, int>::type %s(T) { return 0; }", "{ int v = 0; F(v); }"),
        ("template<class T> typename En<(sizeof(T) > 1) && !(sizeof(T) > 64)>::type %s(T) { }", "{ long v = 0; F(v); }"),
        ("template<class T> typename Val<sizeof(T) + alignof(T) * 2>::type %s(T) { return 0; }", "F('c');"),
        ("template<class T> typename Val<(sizeof(T) << 1) | 1>::type %s(T *) { return 0; }", "{ double d = 0; F(&d); }"),
        ("template<class T> typename Val<sizeof(T) ? 1 : 2>::type %s(T) { return 0; }", "F(1);"),
        ("template<class T> typename Val<-int(sizeof(T))>::type %s(T) { return 0; }", "F(1);"),
        ("template<class T> auto %s(T a, T b) -> decltype(a + b) { return a + b; }", "F(1, 2);"),
        ("template<class T> auto %s(T a) -> decltype(a.m) { return a.m; }", "F(KM());"),
        ("template<class T> auto %s(T a) -> decltype(a(1)) { return a(1); }", "F(KM());"),
        ("template<class T> auto %s(T *a) -> decltype(a->mf()) { }", "{ KM k; F(&k); }"),
        ("template<class T> auto %s(T a) -> decltype(T::sm) { return T::sm; }", "F(KM());"),
        ("template<class T> auto %s(T a) -> decltype(a < a ? a : a) { return a; }", "F(1);"),
        ("template<class T> auto %s(T a) -> decltype(&a) { return 0; }", "F(1);"),
        ("template<class T> auto %s(T a) -> decltype(*a) { return *a; }", "{ int v = 0; F(&v); }"),
        ("template<class T> auto %s(T a) -> decltype(a[0]) { return a[0]; }", "{ int v = 0; F(&v); }"),
        ("template<class T> auto %s(T a) -> decltype(sizeof(a)) { return 0; }", "F(1);"),
        ("template<class... A> auto %s(A... a) -> decltype(sizeof...(A)) { return 0; }", "F(1, 'c');"),
        ("template<class T> auto %s(T a) -> decltype(T{}) { return a; }", "F(1);"),
        ("template<class T> auto %s(T a) -> decltype(a++ + --a) { return a; }", "F(1);"),
        ("template<class T> auto %s(T a) -> decltype((a == a) + (a != a) + (a >= a) + (a <= a) + (a >> 1) + (a & a) + (a ^ a) + !a) { return 0; }", "F(1);"),
        ("template<class T> auto %s(T a) -> decltype(static_cast<T>(a) * T(a) - (T)a) { return a; }", "F(1L);"),
        ("template<class T> typename Val<-int(sizeof(T)) %% 3>::type %s(T) { return 0; }", "F(1);"),
        ("template<class T> auto %s(T a) -> decltype(a.template tq<int>()) { }", "F(fx::Tq());"),
    ]
    if with_exprops:
        # `dv`, `co`, `cm`, `nw`/`na` (finding F10j)
        FX += [
            ("template<class T> auto %s(T a, T b) -> decltype(a / b) { return a / b; }", "F(4, 2);"),
            ("template<class T> typename Val<int(sizeof(T)) / 2 %% 3>::type %s(T) { return 0; }", "F(1);"),
            ("template<class T> auto %s(T a) -> decltype(~a) { return ~a; }", "F(1);"),
            ("template<class T> typename Val<~int(sizeof(T)) %% 3>::type %s(T) { return 0; }", "F(1);"),
            ("template<class T> auto %s(T a, T b) -> decltype(a, b + 1) { return b; }", "F(1, 2);"),
            ("template<class T> auto %s(T a) -> decltype(T(a), void(), T(a)) { return a; }", "F(1);"),
            ("template<class T> auto %s(T a) -> decltype(new T(a)) { return 0; }", "F(1);"),
            ("template<class T> auto %s(T a) -> decltype(new T) { return 0; }", "F(1);"),
            ("template<class T> auto %s(T a) -> decltype(new T[3]) { return 0; }", "F(1);"),
            ("template<class T> auto %s(T a, T b) -> decltype(a /= b) { return a; }", "F(1, 2);"),
        ]
    emit("struct Tq { template<class U> void tq() { } };")
    calls = []
    for tpl, call in FX:
        f = fresh("fx")
        emit(tpl % f, "fx::" + f, "nttp:fexpr")
        calls.append(call.replace("F(", "fx::%s(" % f))
    emit("}")
    emit("void use_fx() {")
    for c in calls:
        emit(" " + c)
    emit("}")
    # Plain<Caller<&fn0>> : non-type argument inside a type argument of an outer template
    for i in [x for x in inst if isinstance(x, str) and x.startswith("template struct ns::C")][:12]:
        m = re.match(r"template struct (ns::C\d+<.* >);", i)
        if m and "void (*)(int)" not in m.group(1):
            inst.append("template struct ns::Plain<%s >;" % m.group(1))
    for i in inst:
        if isinstance(i, str):
            emit(i)
    return "\n".join(lines) + "\n", linemap


# ---------------------------------------------------------------------------------------------
# mostly-valid structured generation from the Itanium grammar (for the differential run)
BUILTIN_CODES = "vwbcahstijlmxynofdegz"
D_CODES = ["Dd", "De", "Df", "Dh", "Di", "Ds", "Da", "Dc", "Dn"]
UNARY = ["ps", "ng", "ad", "de", "pp_", "mm_", "pp", "mm", "dl", "da", "te", "sz", "az", "nx", "sp", "tw", "nt"]
BINARY = ["li", "pl", "mi", "ml", "rm", "an", "or", "eo", "aS", "pL", "mI", "mL", "rM", "aN", "oR", "eO", "ls", "rs", "lS",
          "rS", "eq", "ne", "lt", "gt", "le", "ge", "aa", "oo", "pm", "pt", "ix", "dv", "dV", "cm", "co"]
OPNAMES = ["nw", "na", "dl", "da", "ps", "ng", "ad", "de", "co", "pl", "mi", "ml", "dv", "rm", "an", "or", "eo", "aS",
           "pL", "mI", "mL", "dV", "rM", "aN", "oR", "eO", "ls", "rs", "lS", "rS", "eq", "ne", "lt", "gt", "le", "ge",
           "nt", "aa", "oo", "pp", "mm", "cm", "pm", "pt", "cl", "ix", "qu"]
IDENTS = ["a", "foo", "K", "ns", "std_", "_M_x", "Bar9", "operator_", "h0123456789abcdef", "T", "x" * 11, "$_0",
          "_GLOBAL__N_1", "cxx11", "get", "value", "type"]


class Grammar:
    """random derivations of <mangled-name>; `depth` bounds the recursion"""

    def __init__(self, rng):
        self.r = rng

    def pick(self, xs):
        return self.r.choice(xs)

    def src(self):
        i = self.pick(IDENTS)
        return "%d%s" % (len(i), i)

    def number(self):
        r = self.r.random()
        if r < 0.5:
            return str(self.r.randrange(0, 10))
        if r < 0.8:
            return str(self.r.randrange(10, 5000))
        if r < 0.9:
            return "n" + str(self.r.randrange(1, 300))
        return self.pick(["0", "012", "0x1f", "2147483647", "4294967296", "99999999999999999999"])

    def seq(self):
        return self.pick(["", "", "0", "1", "2", "A", "Z", "10"])

    def subst(self):
        r = self.r.random()
        if r < 0.45:
            return "S" + self.seq() + "_"
        return "S" + self.pick("tabsiod")

    def tparam(self):
        return "T" + self.pick(["", "", "0", "1", "12"]) + "_"

    def abi(self):
        return "B" + self.src() if self.r.random() < 0.08 else ""

    def builtin(self):
        return self.pick(BUILTIN_CODES) if self.r.random() < 0.85 else self.pick(D_CODES)

    def type(self, d):
        r = self.r.random()
        if d <= 0 or r < 0.35:
            return self.builtin()
        if r < 0.50:
            return self.pick(["P", "R", "O", "K", "V", "PK", "RK", "r", "C", "G"]) + self.type(d - 1)
        if r < 0.62:
            return self.name(d - 1, in_type=True)
        if r < 0.68:
            return self.subst() + (self.targs(d - 1) if self.r.random() < 0.3 else "")
        if r < 0.73:
            return self.tparam() + (self.targs(d - 1) if self.r.random() < 0.15 else "")
        if r < 0.78:
            return "F" + self.pick(["", "Y"]) + self.type(d - 1) + "".join(self.type(d - 1) for _ in range(self.r.randrange(1, 3))) \
                + self.pick(["", "", "R", "O"]) + "E"
        if r < 0.82:
            return "A" + self.pick([self.number(), "", "X"[:0] + self.expr(d - 1)]) + "_" + self.type(d - 1)
        if r < 0.85:
            return "M" + self.type(d - 1) + self.type(d - 1)
        if r < 0.88:
            return "Dp" + self.type(d - 1)
        if r < 0.91:
            return self.pick(["DT", "Dt"]) + self.expr(d - 1) + "E"
        if r < 0.93:
            return "Dv" + self.pick([self.number() + "_", "_" + self.expr(d - 1) + "_"]) + self.builtin()
        if r < 0.95:
            return "u" + self.src()
        if r < 0.97:
            return "U" + self.src() + (self.targs(d - 1) if self.r.random() < 0.3 else "") + self.type(d - 1)
        if r < 0.985:
            return "T" + self.pick("sue") + self.name(d - 1, in_type=True)
        return "St" + self.src()

    def primary(self, d):
        r = self.r.random()
        if r < 0.3 and d > 0:
            return "L_Z" + self.encoding(d - 1, top=False) + "E"
        if r < 0.8:
            return "L" + self.builtin() + self.number() + "E"
        if r < 0.9:
            return "L" + self.type(d - 1) + self.number() + "E"
        return self.pick(["LDnE", "LDn0E", "Lb1E", "Lb0E", "Li0_1E", "LPi0E"])

    def expr(self, d):
        r = self.r.random()
        if d <= 0 or r < 0.3:
            return self.pick([self.primary(d), self.tparam(), "fp_", "fp0_", "fL0p_", "fpK_", "fL1p0_"])
        if r < 0.42:
            return self.pick(UNARY) + self.expr(d - 1)
        if r < 0.56:
            return self.pick(BINARY) + self.expr(d - 1) + self.expr(d - 1)
        if r < 0.60:
            return "qu" + self.expr(d - 1) + self.expr(d - 1) + self.expr(d - 1)
        if r < 0.66:
            return "cl" + "".join(self.expr(d - 1) for _ in range(self.r.randrange(1, 4))) + "E"
        if r < 0.70:
            return "cv" + self.type(d - 1) + self.pick([self.expr(d - 1), "_" + "".join(self.expr(d - 1) for _ in range(self.r.randrange(0, 3))) + "E"])
        if r < 0.73:
            return self.pick(["tl", "il"]) + (self.type(d - 1) if self.r.random() < 0.5 else "") + self.expr(d - 1) + "E"
        if r < 0.77:
            return self.pick(["dc", "sc", "cc", "rc"]) + self.type(d - 1) + self.expr(d - 1)
        if r < 0.81:
            return self.pick(["ti", "st", "at"]) + self.type(d - 1)
        if r < 0.85:
            return self.pick(["dt", "pt"]) + self.expr(d - 1) + self.unresolved(d - 1)
        if r < 0.87:
            return "ds" + self.expr(d - 1) + self.expr(d - 1)
        if r < 0.90:
            return "sZ" + self.pick([self.tparam(), "fp_"])
        if r < 0.92:
            return "sP" + "".join(self.targ(d - 1) for _ in range(self.r.randrange(0, 3))) + "E"
        if r < 0.93:
            return "tr"
        if r < 0.95:
            return "gs" + self.expr(d - 1)
        if r < 0.97:
            return self.pick(["nw", "na"]) + "_" + self.type(d - 1) + self.pick(["E", "pi" + self.expr(d - 1) + "E"])
        return self.unresolved(d - 1)

    def unresolved(self, d):
        r = self.r.random()
        base = self.pick([self.src(), self.src() + (self.targs(d - 1) if d > 0 else ""), "on" + self.pick(OPNAMES),
                          "dn" + self.src(), "dn" + self.pick([self.tparam(), self.subst(), "DT" + self.tparam() + "E"])])
        if self.r.random() < 0.15:
            base = "gs" + base
        if r < 0.4:
            return base
        if r < 0.7:
            return "sr" + self.pick([self.tparam(), self.subst(), "DT" + self.expr(d - 1) + "E"]) + base
        if r < 0.85:
            return "srN" + self.type(d - 1) + self.src() + "E" + base
        return "sr" + self.src() + self.src() + "E" + base

    def targ(self, d):
        r = self.r.random()
        if r < 0.45 or d <= 0:
            return self.type(d)
        if r < 0.75:
            return self.primary(d)
        if r < 0.92:
            return "X" + self.expr(d - 1) + "E"
        return "J" + "".join(self.targ(d - 1) for _ in range(self.r.randrange(0, 3))) + "E"

    def targs(self, d):
        return "I" + "".join(self.targ(d) for _ in range(self.r.randrange(1, 4))) + "E"

    def leaf(self, d):
        """last component of a nested name"""
        r = self.r.random()
        if r < 0.45:
            return self.src()
        if r < 0.60:
            return self.pick(["C1", "C2", "C3", "D0", "D1", "D2", "CI1" + self.type(d), "CI2" + self.type(d)])
        if r < 0.80:
            return self.pick(OPNAMES)
        if r < 0.86:
            return "cv" + self.type(d)
        if r < 0.90:
            return "li" + self.src()
        if r < 0.94:
            return "Ut" + self.pick(["", "0", "12"]) + "_"
        return "Ul" + "".join(self.type(d) for _ in range(self.r.randrange(1, 3))) + "E" + self.pick(["", "0", "3"]) + "_"

    def nested(self, d, in_type=False):
        parts = [self.pick(["", "", "", "K", "VK", "R", "O", "KO"])]
        if self.r.random() < 0.15:
            parts.append(self.pick([self.subst(), "St", self.tparam(), "DT" + self.expr(d - 1) + "E" if d > 0 else "St"]))
        n = self.r.randrange(1, 4)
        for i in range(n):
            comp = self.src() if i < n - 1 or in_type else self.leaf(d - 1)
            comp += self.abi()
            # template arguments in the middle of the name: what follows them must still be emitted
            if d > 0 and self.r.random() < (0.55 if i < n - 1 else 0.3):
                comp += self.targs(d - 1)
            if self.r.random() < 0.04:
                comp = self.pick(["L", "M"]) + comp
            parts.append(comp)
        return "N" + "".join(parts) + "E"

    def local(self, d):
        enc = self.encoding(d - 1, top=False)
        r = self.r.random()
        if r < 0.2:
            tail = "s"
        elif r < 0.3:
            tail = "d" + self.pick(["", "0", "1"]) + "_" + self.name(d - 1)
        else:
            tail = self.name(d - 1)
        disc = self.pick(["", "", "_0", "_3", "__12_"])
        return "Z" + enc + "E" + tail + disc

    def name(self, d, in_type=False):
        r = self.r.random()
        if d > 0 and r < 0.5:
            return self.nested(d, in_type)
        if d > 0 and r < 0.58 and not in_type:
            return self.local(d)
        if r < 0.66:
            return "St" + self.src() + (self.targs(d - 1) if d > 0 and self.r.random() < 0.4 else "")
        if r < 0.72:
            return self.subst() + (self.targs(d - 1) if d > 0 else "")
        u = self.src() if in_type or self.r.random() < 0.7 else self.pick([self.pick(OPNAMES), "L" + self.src(), "cv" + self.type(d - 1)])
        return u + self.abi() + (self.targs(d - 1) if d > 0 and self.r.random() < 0.35 else "")

    def special(self, d):
        r = self.r.random()
        if r < 0.4:
            return self.pick(["TV", "TT", "TI", "TS", "TF", "TJ"]) + self.type(d)
        if r < 0.5:
            return "Th" + self.number() + "_" + self.encoding(d - 1, top=False)
        if r < 0.58:
            return "Tv" + self.number() + "_" + self.number() + "_" + self.encoding(d - 1, top=False)
        if r < 0.64:
            return "Tc" + "h" + self.number() + "_" + "v" + self.number() + "_" + self.number() + "_" + self.encoding(d - 1, top=False)
        if r < 0.72:
            return "TC" + self.type(d) + self.number() + "_" + self.type(d)
        if r < 0.80:
            return self.pick(["TH", "TW", "GV"]) + self.name(d)
        if r < 0.88:
            return "GR" + self.name(d) + self.pick(["_", "0_", "A_"])
        if r < 0.94:
            return "GA" + self.encoding(d - 1, top=False)
        return "GT" + self.pick("tn") + self.encoding(d - 1, top=False)

    def encoding(self, d, top=True):
        if d > 0 and self.r.random() < 0.1:
            return self.special(d)
        n = self.name(d)
        r = self.r.random()
        if r < 0.15:
            return n          # a data name
        ret = self.type(d - 1) if "I" in n and self.r.random() < 0.6 else ""
        return n + ret + "".join(self.type(d - 1) for _ in range(self.r.randrange(1, 4)))

    def mangled(self):
        d = self.r.choice([1, 2, 2, 3, 3, 4])
        s = "_Z" + self.encoding(d)
        r = self.r.random()
        if r < 0.05:
            s += self.pick([".part.0", ".constprop.3", ".isra.1", "@@GLIBCXX_3.4", "@plt"])
        if r > 0.97:
            s = "_GLOBAL__sub_I_" + s
        return s


def grammar_names(rng, n, maxlen=400):
    g = Grammar(rng)
    out = []
    while len(out) < n:
        s = g.mangled()
        if len(s) <= maxlen:
            out.append(s.encode())
    return out


# ---------------------------------------------------------------------------------------------
# local classes (classes defined inside functions / member functions): `_ZZ <encoding> E <name> [_<d>]`
def local_source(rng, class_params=False):
    """member functions, ctors, dtors and operators of local classes, including same-named local classes
    in different blocks (which get a discriminator `_0`, `_1`, …).  With class_params=False the members of
    the discriminated classes only take builtin parameters (a discriminator directly followed by a
    <source-name> length is mis-parsed by the demangler, observation F10i).
    returns (source text, {line: (expected, kind)})"""
    lines = ["struct LB { }; struct LongerName { };"]
    linemap = {}
    uid = [0]

    def fresh(p):
        uid[0] += 1
        return "%s%d" % (p, uid[0])

    def emit(t, exp=None, kind=None):
        lines.append(t)
        if exp is not None:
            linemap[len(lines)] = (exp, kind)

    def block(q, cname, first):
        ptypes = ["int", "char *", "long", "double &"] + (["LB", "LongerName", "LB *"] if (class_params or first) else [])
        emit("{ struct %s {" % cname)
        uses = []
        emit("%s() { }" % cname, q + cname + "::" + cname, "local:ctor")
        emit("~%s() { }" % cname, q + cname + "::~" + cname, "local:dtor")
        for _ in range(rng.randrange(1, 4)):
            m = fresh("lm")
            pt = rng.choice(ptypes)
            emit("void %s(%s) { }" % (m, pt), q + cname + "::" + m, "local:method")
            uses.append((m, pt))
        emit("int operator+(int) { return 0; }", q + cname + "::operator+", "local:operator")
        emit("struct In { void %s() { } int f_; };" % fresh("li"), q + cname + "::In::li%d" % uid[0], "local:method")
        emit("int f_; };")
        call = "%s o; o + 1; %s::In i; i.li%d();" % (cname, cname, uid[0])
        for m, pt in uses:
            if pt.endswith("&"):
                call += " { double d = 0; o.%s(d); }" % m
            elif pt.endswith("*"):
                call += " o.%s(0);" % m
            elif pt in ("LB", "LongerName"):
                call += " o.%s(%s());" % (m, pt)
            else:
                call += " o.%s(0);" % m
        emit(call + " }")

    for _ in range(rng.randrange(3, 6)):
        f = fresh("lf")
        emit("void %s(%s) {" % (f, rng.choice(["", "int", "LB"])))
        names = [fresh("A")]
        seq = [names[0], names[0], fresh("Bq"), names[0]]
        seen = set()
        for cn in seq:
            block(f + "::", cn, cn not in seen)
            seen.add(cn)
        emit("}")
    ns = fresh("lns")
    k = fresh("LK")
    emit("namespace %s { struct %s {" % (ns, k))
    m = fresh("meth")
    emit("void %s() {" % m)
    cn = fresh("L")
    block("%s::%s::%s::" % (ns, k, m), cn, True)
    block("%s::%s::%s::" % (ns, k, m), cn, False)
    emit("}")
    emit("int f_; }; void use%d() { %s().%s(); } }" % (uid[0], k, m))
    return "\n".join(lines) + "\n", linemap


# ---------------------------------------------------------------------------------------------
# special symbols that real programs contain besides plain function names:
#  - thunks of class hierarchies with virtual bases and covariant return types (`_ZThn16_…`, `_ZTv0_n24_…`,
#    `_ZTch0_v0_n24_…`, `_ZTcv0_n32_v0_n24_…`): the demangler prints the name of the function the thunk adjusts to
#    (dd_special_name: call offsets are skipped, then the encoding; unit test `_ZThn8_N13FtraceServiceD0Ev`)
#  - functions, classes and namespaces whose identifiers look like hexadecimal words (h + hex digits is what the
#    hash of a legacy Rust symbol looks like; only a 17 character one is a hash)
#  - the static initialiser of a translation unit, which g++ names `_GLOBAL__sub_I_` + the mangled name of the
#    first global definition of the unit (the demangler keeps the prefix and demangles the rest)
HEXWORDS = ["head", "hadd", "h264", "hbeef", "dead", "hc0de", "h0", "hab12", "hface", "hdeed", "beef", "hA1", "hfeed5",
            "hb", "h", "hFF", "h0123456789abcde", "h0123456789abcdef0", "feed", "hdecade", "ha", "h1", "cafe", "he"]
VNAMES = ["vf", "clone", "step", "head", "hadd", "hbeef", "run", "dead"]


def hexword(rng, used):
    for _ in range(50):
        w = rng.choice(HEXWORDS)
        if rng.random() < 0.3:
            w += rng.choice("0123456789abcdef")
        if w not in used and len(w) != 17:
            used.add(w)
            return w
    w = "hx%d" % len(used)
    used.add(w)
    return w


def thunk_source(rng):
    """class hierarchies with virtual bases, covariant return types and hex-word identifiers; every function
    definition on its own line.  returns (source text, {line: (expected, kind)})"""
    lines = []
    linemap = {}
    uid = [0]

    def fresh(p):
        uid[0] += 1
        return "%s%d" % (p, uid[0])

    def emit(t, exp=None, kind=None):
        lines.append(t)
        if exp is not None:
            linemap[len(lines)] = (exp, kind)

    uses = []
    for h in range(rng.randint(2, 4)):
        path = []
        for _ in range(rng.choice([0, 1, 1, 2])):
            n = fresh(rng.choice(["vn", "space"])) if rng.random() < 0.6 else hexword(rng, set(path)) + "_%d" % h
            if not n[0].isalpha():
                n = "n" + n
            path.append(n)
            emit("namespace %s {" % n)
        q = "".join(p + "::" for p in path)
        vnames = rng.sample(VNAMES, rng.randint(1, 3))
        cov = h == 0 or rng.random() < 0.7
        base = fresh(rng.choice(["VB", "Base", "hb"]))
        mids = [fresh(rng.choice(["L", "R", "Mid", "hc"])) for _ in range(rng.randint(1, 3))]
        top = fresh(rng.choice(["D", "Top", "hd"]))

        def cls(name, bases):
            inh = (" : " + ", ".join(bases)) if bases else ""
            emit("struct %s%s {" % (name, inh))
            if rng.random() < 0.5:
                emit("long pad_%s[%d];" % (name, rng.randint(1, 4)))
            emit("%s() { }" % name, q + name + "::" + name, "thunk:ctor")
            emit("virtual ~%s() { }" % name, q + name + "::~" + name, "thunk:dtor")
            if cov:
                emit("virtual %s *self_() { return this; }" % name, q + name + "::self_", "thunk:covariant")
            for v in vnames:
                emit("virtual void %s(int) { }" % v, q + name + "::" + v, "thunk:virtual")
            emit("int fld_%s;" % name)
            emit("};")

        cls(base, [])
        for m in mids:
            # a second, non-virtual base gives non-virtual thunks (h offsets) beside the virtual ones (v offsets)
            cls(m, [rng.choice(["virtual ", "virtual ", "public virtual "]) + base])
        cls(top, mids if len(mids) > 1 or rng.random() < 0.5 else ["virtual " + base, mids[0]])
        for _ in path:
            emit("}")
        uses.append("%s%s" % (q, top))
    # hex-word identifiers at every position of a qualified name
    used = set()
    for h in range(rng.randint(2, 3)):
        ns = hexword(rng, used)
        k = hexword(rng, used)
        emit("namespace %s {" % ns)
        for _ in range(rng.randint(1, 3)):
            f = hexword(rng, used)
            emit("%svoid %s(%s) { }" % (USED, f, rng.choice(["", "int", "char *", "long, bool"])), "%s::%s" % (ns, f), "hexword:function")
        emit("struct %s {" % k)
        emit("%s%s() { }" % (USED, k), "%s::%s::%s" % (ns, k, k), "hexword:ctor")
        emit("%s~%s() { }" % (USED, k), "%s::%s::~%s" % (ns, k, k), "hexword:dtor")
        for _ in range(rng.randint(2, 5)):
            f = hexword(rng, used)
            st = "static " if rng.random() < 0.3 else ""
            cq = " const" if not st and rng.random() < 0.3 else ""
            emit("%s%sint %s(%s)%s { return 0; }" % (USED, st, f, rng.choice(["", "int", "double", "char, char"]), cq),
                 "%s::%s::%s" % (ns, k, f), "hexword:method")
        inner = hexword(rng, used)
        emit("struct %s {" % inner)
        f = hexword(rng, used)
        emit("%svoid %s() { }" % (USED, f), "%s::%s::%s::%s" % (ns, k, inner, f), "hexword:method")
        emit("int f_; };")
        emit("int f_; };")
        emit("}")
    f = hexword(rng, used)
    emit("%svoid %s(int) { }" % (USED, f), f, "hexword:function")      # global scope: `_Z4headi`
    emit("void use_thunks() {")
    for t in uses:
        emit(" { %s o; }" % t)
    emit("}")
    return "\n".join(lines) + "\n", linemap


def static_init_sources(rng, n):
    """n small translation units with a dynamically initialised global object; g++ names the initialiser
    `_GLOBAL__sub_I_<mangled name of the first global definition>`.
    returns [(source, {line: (expected, kind)}, expected name of the first definition or None, kind of first)]"""
    shapes = ["ctor", "dtor", "ctor", "dtor", "ns-ctor", "ns-dtor", "function", "ns-function", "method", "operator",
              "variable", "ns-variable", "hexword-method"]
    rng.shuffle(shapes)
    shapes.insert(0, rng.choice(["ctor", "dtor"]))      # every run has a constructor/destructor of a global-namespace class
    out = []
    for i in range(n):
        shape = shapes[i % len(shapes)]
        lines = []
        linemap = {}

        def emit(t, exp=None, kind=None):
            lines.append(t)
            if exp is not None:
                linemap[len(lines)] = (exp, kind)

        k = rng.choice(["K", "Widget", "Cls", "hd", "Registry"]) + str(rng.randrange(100))
        ns = rng.choice(["ns", "space", "app"]) + str(rng.randrange(100))
        inns = shape.startswith("ns-")
        q = ns + "::" if inns else ""
        if inns:
            emit("namespace %s {" % ns)
        m = rng.choice(HEXWORDS[:8]) if shape == "hexword-method" else "meth%d" % rng.randrange(100)
        emit("struct %s {" % k)
        emit("%s(%s);" % (k, rng.choice(["", "int", "const char *"])))
        ctor_params = lines[-1][len(k) + 1:-2]
        emit("~%s();" % k)
        emit("int %s(int);" % m)
        emit("int operator+(int);")
        emit("int v_;")
        emit("};")
        first = None
        defs = {
            "ctor": ("%s::%s(%s) { }" % (k, k, ctor_params), q + k + "::" + k),
            "dtor": ("%s::~%s() { }" % (k, k), q + k + "::~" + k),
            "method": ("int %s::%s(int) { return 0; }" % (k, m), q + k + "::" + m),
            "operator": ("int %s::operator+(int) { return 0; }" % k, q + k + "::operator+"),
        }
        order = {"ctor": ["ctor", "dtor", "method", "operator"], "dtor": ["dtor", "ctor", "method", "operator"],
                 "method": ["method", "ctor", "dtor", "operator"], "operator": ["operator", "dtor", "ctor", "method"]}
        base = shape[3:] if inns else shape
        base = "method" if base == "hexword-method" else base
        if base == "function":
            f = "func%d" % rng.randrange(100)
            emit("int %s() { return 0; }" % f, q + f, "sinit:function")
            first = q + f
            seq = order["ctor"]
        elif base == "variable":
            v = "gvar%d" % rng.randrange(100)
            emit("int %s = 3;" % v)
            first = q + v if inns else None       # a variable at global scope has a plain name: nothing to demangle
            seq = order["ctor"]
        else:
            seq = order[base]
            first = defs[base][1]
        for d in seq:
            emit(defs[d][0], defs[d][1], "sinit:" + d)
        emit("%s g_obj%d%s;" % (k, i, "(1)" if ctor_params == "int" else '("x")' if ctor_params else ""))
        if inns:
            emit("}")
        out.append(("\n".join(lines) + "\n", linemap, first, shape))
    return out
