"""C01 e2e (H5) second generation: scenario programs (harness/c01_w.c, c01_x.cc, c01_plug.c) x option
families of `uftrace record`, run natively and traced, everything observable compared.

Two families of behaviour the first generation (lib/progs.py: call-signature classes only) never looked at:
 W  libmcount interposes libc functions in every tracee (libmcount/wrap.c): the results, errno values and side
    effects of close / dlopen / dlclose / pthread_exit / backtrace / __cxa_* / _Unwind_Resume / posix_spawn* /
    exec* / fork are observed (descriptor numbers below 3, EBADF, what ends up in which file, exit status of
    children, destructor order, ...).
 X  the option matrix of the property (-D/-F/-N/-t/-C filters, -A/-R/-a argument capture, --no-libcall,
    --nest-libcall, --estimate-return, -P patching, events, triggers, ...) crossed with non-local control flow
    through library calls (setjmp/longjmp, longjmp or C++ exceptions out of qsort/bsearch/twalk call-backs,
    vfork+exec, fork, signal handlers, pthread_exit/cancel, exit from call-backs, ...), each construct placed
    below a chain of `depth` instrumented frames so that a filter can cut anywhere between the frames that
    belong together, each repeated for several rounds (lazy PLT binding is only done the first time).

Used by checks/c01.py; `python3 harness/c01_e2e.py <built uftrace tree> <seed> [scenario-substring]` runs the
quick matrix by hand against any built tree."""
import hashlib
import json
import os
import re
import resource
import shutil
import signal
import subprocess
import sys
import time
from concurrent.futures import ThreadPoolExecutor

HERE = os.path.dirname(os.path.abspath(__file__))

# functions libmcount/wrap.c interposes -> scenarios of the programs that observe them
WRAPPED = {
    "close": ["fd"], "dlopen": ["dl"], "dlclose": ["dl"], "pthread_exit": ["pth"], "backtrace": ["bt"],
    "__cxa_throw": ["exc", "exccb", "excthr", "excguard", "excterm"], "__cxa_rethrow": ["exc"],
    "__cxa_begin_catch": ["exc", "exccb", "excthr", "excguard"], "__cxa_end_catch": ["exc", "exccb", "excthr", "excguard"],
    "_Unwind_Resume": ["exc", "exccb", "excthr"], "__cxa_guard_abort": ["excguard"],
    "posix_spawn": ["spawn"], "posix_spawnp": ["spawn"], "execve": ["spawn", "vfork"], "execvpe": ["spawn", "vfork"],
    "fexecve": ["spawn"], "fork (atfork handlers)": ["fork", "fd", "spawn", "stdio"], "vfork (PLT special)": ["vfork"],
    "setjmp/longjmp (PLT special)": ["lj", "cb"], "sigsetjmp/siglongjmp (PLT special)": ["sig"],
}

# ------------------------------------------------------------------------------------------------ builds
BUILDS = {
    "pg": ["-pg"],
    "cyg": ["-finstrument-functions"],
    "fentry": ["-pg", "-mfentry"],
    "nop": ["-pg", "-mfentry", "-mnop-mcount", "-fno-pie"],          # needs -P (dynamic patching), -no-pie
    "patchable": ["-fpatchable-function-entry=5"],        # needs -P
}
NEEDS_PATCH = ("nop", "patchable")


def gen_params(rng):
    """the per-seed part of the programs: c01_params.h"""
    n = rng.randint(6, 12)
    arr = rng.sample(range(1, 60), n)
    p = {
        "P_K1": rng.randint(1, 9), "P_K2": rng.randint(2, 7), "P_K3": rng.randint(1, 5), "P_NARR": n,
        "P_ARR": "{" + ",".join(map(str, arr)) + "}", "P_POISON_POS": rng.randrange(n),
        "P_EXIT": rng.randint(1, 9), "P_EXIT_MAIN": rng.choice([0, 0, rng.randint(1, 5)]),
        "P_JVAL": rng.randint(2, 50), "P_THREADS": rng.randint(2, 4), "P_ITER": rng.choice([200, 400, 800]),
        "P_THROWVAL": rng.randint(3, 90),
    }
    return "".join("#define %s %s\n" % kv for kv in p.items())


def sh(cmd, **kw):
    kw.setdefault("stdout", subprocess.PIPE)
    kw.setdefault("stderr", subprocess.STDOUT)
    kw.setdefault("text", True)
    return subprocess.run(cmd, **kw)


def build_all(work, params, flavours, opts, log):
    """-> {(lang, flavour, opt): exe path}; the plugin is built next to each C program (same flags)"""
    os.makedirs(work, exist_ok=True)
    open(os.path.join(work, "c01_params.h"), "w").write(params)
    jobs = []
    for fl in flavours:
        for opt in opts:
            for lang in ("c", "cxx"):
                jobs.append((lang, fl, opt))

    def one(j):
        lang, fl, opt = j
        d = os.path.join(work, "b_%s_%s%s" % (lang, fl, opt))
        os.makedirs(d, exist_ok=True)
        flags = [opt, "-g", "-w", "-I", work, "-I", HERE] + BUILDS[fl] + (["-no-pie"] if fl == "nop" else [])
        if lang == "c":
            exe = os.path.join(d, "c01_w")
            r = sh(["gcc"] + flags + ["-rdynamic", "-o", exe, os.path.join(HERE, "c01_w.c"), "-lm", "-lpthread", "-ldl"])
            if r.returncode == 0:
                r = sh(["gcc"] + [f for f in flags if f not in ("-no-pie", "-fno-pie", "-mnop-mcount")] + ["-fPIC", "-shared", "-o", os.path.join(d, "libc01plug.so"),
                                                                          os.path.join(HERE, "c01_plug.c"), "-lm"])
        else:
            exe = os.path.join(d, "c01_x")
            r = sh(["g++"] + flags + ["-o", exe, os.path.join(HERE, "c01_x.cc"), "-lm", "-lpthread"])
        if r.returncode != 0:
            log.append("build %s failed: %s" % (j, r.stdout[-400:]))
            return j, None
        return j, exe
    with ThreadPoolExecutor(8) as ex:
        return dict(ex.map(one, jobs))


# ------------------------------------------------------------------------------------------------ scenarios
# name -> (lang, variants, construct class, functions of the program a -F/-N/-T/-A option can name)
SCEN = {
    "lj":     ("c", [0, 1, 2, 3, 6, 16, 17, 26], "setjmp/longjmp", ["lj_body", "lj_thrower", "lj_inner", "down", "fp_leaf"]),
    "cb":     ("c", [0, 1, 2, 3, 4, 8, 9, 12, 16, 24], "longjmp/exit out of libc call-back", ["cb_run", "cb_cmp", "cb_bail", "cb_body", "cb_action", "down"]),
    "sig":    ("c", [0, 4, 8, 16, 2, 10, 3, 11, 27], "signal handler (+siglongjmp)", ["sig_body", "sig_deep", "sig_handler", "fp_work", "down"]),
    "async":  ("c", [0, 1, 2], "asynchronous timer signal", ["tick_handler", "fp_work", "fp_leaf"]),
    "vfork":  ("c", [0, 1, 2, 3], "vfork+exec/_exit", ["vfork_body", "down", "fp_work"]),
    "fork":   ("c", [0, 1, 2], "fork", ["fork_body", "down", "fp_work", "at_exit_1"]),
    "spawn":  ("c", [0, 1, 2, 3, 4, 5, 6, 7, 8, 9, 10, 11], "posix_spawn/exec family", ["spawn_body", "down", "fp_work"]),
    "pth":    ("c", [0, 1, 2, 5, 4, 3, 7], "pthread_exit / return / cancel (+cleanup handlers, TSD destructors)", ["t_main", "t_leave", "t_cleanup", "pth_body", "down", "fp_leaf"]),
    "exit":   ("c", [0, 1, 2, 3, 4, 5, 6, 7], "exit/_exit/quick_exit/abort/kill", ["exit_body", "at_exit_1", "exit_thread", "down"]),
    "fd":     ("c", [0, 1, 2, 3, 4, 5, 6, 7], "close/dup on descriptors 0-2", ["fd_body", "down", "fp_work"]),
    "stdio":  ("c", [4 * a + m for a in range(11) for m in range(4)], "buffered stdio (setvbuf modes, pending data) across fork/vfork/exec/spawn/daemon/_exit/abort",
               ["stdio_body", "down", "fp_work"]),
    "dl":     ("c", [0, 1, 2, 3, 4, 5, 6, 7], "dlopen/dlclose (+ longjmp done by the library)", ["dl_body", "plug_calc", "plug_inner", "host_callback", "dl_visitor", "down"]),
    "bt":     ("c", [0, 1, 2], "backtrace() (+ requests of 16..512 frames on stacks 100-260 deep)", ["bt_body", "bt_cmp", "bt_sig", "down", "bt_dive"]),
    "fplib":  ("c", [0, 1, 2, 3], "libm/libc calls over FP classes + fenv", ["fplib_body", "fp_leaf", "fp_work"]),
    "deep":   ("c", [0, 1, 3], "recursion/tail/indirect calls", ["rec", "tail_a", "tail_b", "deep_body"]),
    "uctx":   ("c", [0], "makecontext/swapcontext", ["co_step", "co_entry", "uctx_body"]),
    "daemon": ("c", [0], "daemon()", ["daemon_body", "down", "fp_work"]),
    "exc":    ("cxx", [0, 1, 2, 3, 5, 6, 11, 15, 20, 27], "C++ throw/catch/rethrow + destructors", ["exc_body", "exc_thrower", "exc_mid", "Guard::~Guard", "down"]),
    "exccb":  ("cxx", [0, 1, 2, 3, 4, 8, 9, 11], "C++ exception out of qsort/bsearch/std::sort call-back", ["exccb_run", "exccb_cmp", "exccb_bail", "exccb_body", "down"]),
    "excthr": ("cxx", [0, 1, 2], "C++ exceptions and pthread_exit in threads", ["thr_main", "thr_leave", "excthr_body", "down"]),
    "excguard": ("cxx", [0, 1], "throwing static initialiser (__cxa_guard_abort)", ["guard_init", "guard_user", "excguard_body", "down"]),
    "excterm": ("cxx", [0, 1], "uncaught exception -> terminate", ["excterm_body", "exc_thrower", "down"]),
}
# scenarios kept out of the generated matrix (named shapes; see the level note of C01)
def _has(ro, *opts):
    return any(o in ro for o in opts)


def _has_sub(ro, sub):
    return any(sub in o for o in ro)


CXX = ("exc", "exccb", "excthr", "excguard", "excterm")
FILTER_OPTS = ("-D", "-F", "-N", "-C", "-H")
# Differences between the native and the traced run found on the UNCHANGED /repo while building this matrix
# (reproduced by hand; candidate genuine defects, proposed_fixes/C01-*.diff where a small repair exists).  The
# generator leaves these shapes out so that the check stays quiet on the unchanged tree; `skipped_shapes` in the
# evidence counts what was left out.  match(scenario, variant, build flavour, record options)
EXCLUDED_SHAPES = {
    "C01-BT-ESTIMATE": {
        "what": "backtrace() called by the traced program under -e/--estimate-return: the frames the program gets differ "
                "from the untraced run (seen in the last hour of round 3 in the thorough matrix: bt scenario, nop/patchable "
                "builds with -P . -e; the digest of the frame names differs, frame counts agree); not analysed yet",
        "match": lambda s, v, fl, ro: s == "bt" and (_has(ro, "-e") or _has(ro, "--estimate-return")),
    },
    "C01-MAXSTACK-EXC": {
        "what": "a C++ exception thrown while the call depth is beyond --max-stack: the frames that were not pushed are "
                "missing when the unwound ones are dropped; heap corruption ('malloc(): invalid next size'), SIGSEGV or "
                "corrupted locals (seen with all four instrumentation methods; stays after the C01-ENTRY-XMM repair)",
        "match": lambda s, v, fl, ro: s in CXX and _has(ro, "--max-stack") and ro[ro.index("--max-stack") + 1] in ("4", "6", "12"),
    },
    "C01-ENTRY-XMM": {
        "what": "the entry stubs (mcount, __fentry__, __dentry__, plt_hooker) do not preserve xmm0-7 and the C entry hook calls "
                "libc on some paths (the 'call depth beyond N' warning of --max-stack, read triggers, the flush of "
                "--estimate-return under asynchronous signals): floating-point ARGUMENTS of the traced function are clobbered. "
                "`uftrace record --max-stack 4 ./prog` changes every FP result computed below depth 4",
        "match": lambda s, v, fl, ro: (_has(ro, "--max-stack") and ro[ro.index("--max-stack") + 1] in ("4", "6", "12"))
        or _has_sub(ro, "@read=") or (s == "async" and _has(ro, "-e")),
    },
    "C01-PTHREAD-CLEANUP": {
        "what": "pthread_exit() below a pthread_cleanup_push() frame in C: the cleanup frame is a __sigsetjmp() (PLT-hooked, its "
                "saved PC is plthook_return); the forced unwinding longjmps to it from inside libc, __plthook_exit() finds an "
                "empty return stack (the wrapper reset idx to 0) and the thread dies of SIGSEGV",
        "match": lambda s, v, fl, ro: s == "pth" and v == 4,
    },
    "C01-PTHREAD-CANCEL": {
        "what": "pthread_cancel() of a thread inside traced calls: the forced unwinding walks hijacked return addresses "
                "(nothing restores them as the pthread_exit wrapper does): SIGSEGV",
        "match": lambda s, v, fl, ro: s == "pth" and v in (3, 7),
    },
    "C01-EXC-FILTERED-ENTRY": {
        "what": "__mcount_entry() returns for a filtered-out function before it handles mtdp->in_exception: a destructor that "
                "is beyond the depth/function filter, runs from a landing pad and calls library functions leaves the return "
                "stack with the unwound frames; SIGSEGV / std::bad_alloc / std::terminate under -D/-F/-N/-C/-H/-Z/-L and "
                "depth triggers",
        "match": lambda s, v, fl, ro: s == "excthr" and v == 2 and fl != "cyg" and _has(ro, *FILTER_OPTS, "-Z", "-L", "-T", "--trace=off"),
    },
    "C01-NESTLIB-EXC": {
        "what": "--nest-libcall hooks the PLT of libstdc++/libgcc_s: any C++ exception then hangs or terminates the program",
        "match": lambda s, v, fl, ro: s in CXX and _has(ro, "--nest-libcall"),
    },
    "C01-RECOVER-EXC": {
        "what": "-T f@recover combined with a C++ exception passing f: SIGSEGV",
        "match": lambda s, v, fl, ro: s in CXX and _has_sub(ro, "@recover"),
    },
    "C01-GUARD-ABORT": {
        "what": "__cxa_guard_abort wrapper (throwing static initialiser) with --estimate-return or --no-libcall: it indexes "
                "rstack[idx] and writes through a stale parent_loc; SIGSEGV or destructors run in the wrong order",
        "match": lambda s, v, fl, ro: s == "excguard" and _has(ro, "-e", "--no-libcall"),
    },
    "C01-LIB-LONGJMP": {
        "what": "a longjmp() performed inside a library whose PLT is not hooked (the error exit of libpng/libjpeg/lua style "
                "libraries) to a jmp_buf the program filled with setjmp(): control arrives in plthook_return of the setjmp() "
                "with some other call on top of the return stack, __plthook_exit() pops that one and 'returns' behind it: the "
                "function continues after the library call instead of at setjmp() - no option needed",
        "match": lambda s, v, fl, ro: s == "dl" and v in (6, 7),
    },
    "C01-NOLIBCALL-LONGJMP": {
        "what": "--no-libcall: setjmp/longjmp are not seen (no PLT hook), the return stack keeps the abandoned frames and "
                "mcount_return() returns to the wrong caller",
        "match": lambda s, v, fl, ro: (s in ("lj", "cb", "sig") or (s == "dl" and v in (6, 7))) and _has(ro, "--no-libcall"),
    },
    "C01-UCONTEXT": {
        "what": "makecontext/swapcontext: one return stack per thread, the frames of two contexts interleave ('invalid dynsym idx')",
        "match": lambda s, v, fl, ro: s == "uctx",
    },
}

LIBFUNCS = ["setjmp", "longjmp", "qsort", "bsearch", "raise", "vfork", "fork", "waitpid", "close", "dlopen", "backtrace",
            "pthread_exit", "pthread_create", "printf", "sin", "pow", "execve", "posix_spawn", "sigaction", "exit",
            "__cxa_throw", "__cxa_begin_catch", "_Unwind_Resume", "memcpy", "malloc"]


def option_families(rng, fns, maxdepth, patch):
    """-> list of (family name, option list).  The depth filter is swept completely (it is cheap and the place
    where a filter cuts matters); the other families are sampled per (scenario, variant, build)."""
    fam = [("plain", [])]
    for k in range(1, maxdepth + 1):
        fam.append(("-D", ["-D", str(k)]))
    f1, f2 = rng.choice(fns), rng.choice(fns)
    lf = rng.choice(LIBFUNCS)
    pool = [
        ("-F", ["-F", f1]), ("-N", ["-N", f1]), ("-N", ["-N", f2]), ("-F -N", ["-F", f1, "-N", f2]),
        ("-N lib", ["-N", lf]), ("-F lib", ["-F", lf]), ("-F@depth", ["-F", "%s@depth=%d" % (f1, rng.randint(1, 3))]),
        ("-C", ["-C", f2]), ("-H", ["-H", f2]),
        ("-t", ["-t", rng.choice(["1us", "100us", "1s"])]), ("-t -D", ["-t", "1us", "-D", str(rng.randint(2, maxdepth))]),
        ("-A/-R", ["-A", "%s@arg1,arg2" % f1, "-R", "%s@retval" % f1]),
        ("-A/-R lib", ["-A", "qsort@arg1,arg2,arg3", "-A", "setjmp@arg1", "-R", "setjmp@retval", "-A", "longjmp@arg2",
                       "-A", "close@arg1", "-R", "close@retval", "-R", "vfork@retval", "-A", "dlopen@arg1/s"]),
        ("-A fp", ["-A", "fp_leaf@fparg1/64,fparg2/32,arg1", "-R", "fp_leaf@retval/f64", "-A", "sin@fparg1", "-R", "pow@retval/f64",
                   "-R", "fp_ld@retval/f80"]),
        ("-a", ["-a"]), ("-a -D", ["-a", "-D", str(rng.randint(2, maxdepth))]),
        ("--no-libcall", ["--no-libcall"]), ("--nest-libcall", ["--nest-libcall"]),
        ("--nest-libcall -D", ["--nest-libcall", "-D", str(rng.randint(2, maxdepth))]),
        ("-e", ["-e"]), ("-e -D", ["-e", "-D", str(rng.randint(2, maxdepth))]), ("-e -N", ["-e", "-N", f1]),
        ("-b", ["-b", rng.choice(["4k", "8k"])]), ("--max-stack", ["--max-stack", str(rng.choice([4, 6, 12]))]),
        ("--max-stack (enough)", ["--max-stack", "300"]),
        ("-T trace_off", ["-T", "%s@trace_off" % f1]), ("-T depth", ["-T", "%s@depth=%d" % (f2, rng.randint(1, 3))]),
        ("-T backtrace", ["-T", "%s@backtrace" % f1]), ("-T time", ["-T", "%s@time=1us" % f2]),
        ("-T read", ["-T", "%s@read=proc/statm" % f1]), ("-T recover", ["-T", "%s@recover" % f1]),
        ("--no-pltbind", ["--no-pltbind"]), ("--force", ["--force"]), ("--trace=off", ["--trace=off"]),
        ("--clock", ["--clock", "mono_raw"]), ("--libname", ["--libname"]), ("--srcline", ["--srcline"]),
        ("--logfile", ["--logfile", "uftrace-own.log"]), ("--logfile -D", ["--logfile", "uftrace-own.log", "-D", str(rng.randint(1, maxdepth))]),
        ("-v", ["-v", "--logfile", "uftrace-own.log"]),
        ("events", ["EVENTS"]), ("events -D", ["EVENTS", "-D", str(rng.randint(2, maxdepth))]),
        ("-E", ["-E", "linux:schedule"]), ("--signal", ["--signal", "SIGWINCH@trace_off"]),
        ("-l", ["--nest-libcall", "-l"]), ("-Z", ["-Z", "40"]), ("-L", ["-L", "c01_w.c"]),
    ]
    return fam, pool


# Argument / return-value capture over every FP format: the captured value is COPIED, the function's own result
# (xmm0, st(0), rax:rdx, memory) must reach the caller to the last bit.  These families are not sampled: every
# (variant, build) of the scenarios FP_SCEN runs all of them.  fp_ld's result needs the full 64-bit mantissa.
FP_SCEN = ("fplib", "deep", "bt")
FP_FAMILIES = [
    ("-R f80", ["-R", "fp_ld@retval/f80"]),
    ("-A/-R f80", ["-A", "fp_ld@fparg1/80,arg1", "-R", "fp_ld@retval/f80", "-A", "sinl@fparg1/80", "-R", "sinl@retval/f80",
                   "-R", "powl@retval/f80", "-R", "strtold@retval/f80"]),
    ("-A/-R f64 f32", ["-A", "fp_leaf@fparg1/64,fparg2/32,arg1", "-R", "fp_leaf@retval/f64", "-R", "fp_var@retval/f64",
                       "-A", "sin@fparg1/64", "-R", "sin@retval/f64", "-A", "pow@fparg1,fparg2", "-R", "pow@retval/f64",
                       "-R", "hypot@retval/f64", "-A", "ldexp@fparg1/64,arg1", "-R", "ldexp@retval/f64", "-R", "fma@retval/f64"]),
    ("-R f32 on double, int on FP", ["-R", "fp_leaf@retval/f32", "-R", "fp_ld@retval", "-R", "fp_var@retval/x",
                                     "-A", "fp_leaf@arg1,arg2", "-R", "sinl@retval", "-R", "creal@retval/f64"]),
    ("-R struct", ["-R", "fp_dd@retval", "-A", "fp_dd@fparg1,fparg2", "-R", "fp_ll@retval", "-A", "fp_ll@arg1,arg2",
                   "-R", "fp_big@retval/x", "-A", "fp_big@arg1", "-R", "lldiv@retval", "-R", "cexp@retval/f64"]),
]


def maxdepth_of(depth):
    return depth + 7


def directed_cases(exes):
    """the witnesses of the listed findings (corpus/C01/findings.json `directed`) as cases of the scenario programs"""
    d = json.load(open(os.path.join(os.path.dirname(HERE), "corpus", "C01", "findings.json"))).get("directed", {})
    out = []
    for fid, lst in d.items():
        for (sc, v, depth, rounds, fl, opt, ro) in lst:
            lang = SCEN[sc][0]
            if not exes.get((lang, fl, opt)):
                continue
            out.append((fid, {"scenario": sc, "variant": v, "depth": depth, "rounds": rounds, "lang": lang, "build": fl, "opt": opt,
                              "family": "directed witness of " + fid, "record_opts": list(ro), "construct": SCEN[sc][2]}))
    return out


NONLOCAL = ("stdio", "lj", "cb", "sig", "async", "vfork", "fork", "daemon", "pth", "exit", "exc", "exccb", "excthr", "excguard", "excterm")


def excluded(s, v, fl, ro):
    """named shapes kept out of the generated matrix (genuine differences of the unchanged tree, see EXCLUDED_SHAPES)"""
    keep = os.environ.get("C01_INCLUDE_SHAPES", "").split(",")        # for trying a repair by hand
    for name, sh in EXCLUDED_SHAPES.items():
        if name in keep or "all" in keep:
            continue
        if sh["match"](s, v, fl, ro):
            return name
    return None


def plan(rng, tier, exes, only=None):
    """the list of cases: dicts with scenario, variant, depth, rounds, build, record options"""
    cases = []
    skipped = {}
    flav = sorted({k[1] for k in exes if exes[k]})
    opts = sorted({k[2] for k in exes if exes[k]})
    names = [s for s in SCEN if (not only or only in s)]
    nsample = 3 if tier == "quick" else 12
    for s in names:
        lang, variants, construct, fns = SCEN[s]
        vs = list(variants)
        rng.shuffle(vs)
        if s == "stdio" and tier == "thorough":
            vs = [4 * a + m for a in range(11) for m in rng.sample(range(4), 2)]      # every action, two buffering modes each
            nv = len(vs)
        elif tier == "thorough" or s == "fd":
            nv = len(vs)           # the descriptor scenarios are cheap: all of them, always
        elif s == "stdio":
            vs = [4 * a + rng.randrange(4) for a in range(11)]      # every action, one buffering mode each
            nv = len(vs)
        else:
            nv = min(len(vs), 3 if s in ("lj", "cb", "exccb", "exc", "spawn") else 2)
        for vi, v in enumerate(vs[:nv]):
            others = [f for f in flav if f != "pg"] or flav
            if tier == "thorough":
                fls = flav
            elif s == "stdio":
                fls = [flav[vi % len(flav)]]
            elif vi == 0:
                fls = [f for f in flav if f == "pg"] + [rng.choice(others)]
            else:
                fls = [rng.choice(flav)]
            for fl in dict.fromkeys(fls):
                opt = rng.choice(opts)
                if (lang, fl, opt) not in exes or not exes[(lang, fl, opt)]:
                    continue
                depth = rng.randint(0, 3)
                rounds = rng.randint(2, 3)
                fam, pool = option_families(rng, fns, maxdepth_of(depth), fl in NEEDS_PATCH)
                full = tier == "thorough" or (s in NONLOCAL and ((vi == 0 and fl == "pg") or (s in ("cb", "lj", "exccb") and vi <= 1)))
                sweep = fam if full else [fam[0]] + rng.sample(fam[1:], 2)
                chosen = sweep + rng.sample(pool, min(len(pool), nsample))
                if s in FP_SCEN and (tier == "thorough" or s == "fplib" or vi == 0):
                    chosen = chosen + FP_FAMILIES            # no draw from rng: the older cases keep theirs
                for fname, ro in chosen:
                    ro = list(ro)
                    if fl in NEEDS_PATCH:
                        ro = ["-P", "."] + ro
                    sh_ = excluded(s, v, fl, ro)
                    if sh_:
                        skipped[sh_] = skipped.get(sh_, 0) + 1
                        continue
                    cases.append({"scenario": s, "variant": v, "depth": depth, "rounds": rounds, "lang": lang, "build": fl,
                                  "opt": opt, "family": fname, "record_opts": ro, "construct": construct})
    return cases, skipped


# ------------------------------------------------------------------------------------------------ running
OUT_CAP = 1 << 20            # bytes of stdout/stderr kept per run
LIMITS = ["prlimit", "--core=0", "--cpu=20", "--fsize=67108864", "--"]


def _drain(f, buf, deadline):
    """read a pipe to EOF (a daemonized child keeps it open after the program itself is gone), keep OUT_CAP bytes"""
    n = 0
    try:
        while True:
            b = os.read(f.fileno(), 65536)
            if not b:
                break
            if n < OUT_CAP:
                buf.append(b[:OUT_CAP - n])
            n += len(b)
    except (OSError, ValueError):
        pass


def _run(cmd, cwd, timeout, env):
    """run with stdin from /dev/null, core dumps off, 20 s of CPU, 64 MiB per file; stdout/stderr are read to EOF
    (at most OUT_CAP bytes kept: a program that went wrong under trace may print for ever); on timeout the whole
    session is killed"""
    import threading
    t0 = time.time()
    p = subprocess.Popen(LIMITS + cmd, cwd=cwd, stdin=subprocess.DEVNULL, stdout=subprocess.PIPE, stderr=subprocess.PIPE,
                         env=env, start_new_session=True)
    ob, eb = [], []
    ths = [threading.Thread(target=_drain, args=(p.stdout, ob, None), daemon=True),
           threading.Thread(target=_drain, args=(p.stderr, eb, None), daemon=True)]
    for t in ths:
        t.start()
    try:
        rc = p.wait(timeout=timeout)
        for t in ths:
            t.join(max(1.0, timeout - (time.time() - t0)))
        if any(t.is_alive() for t in ths):
            rc = "TIMEOUT"
    except subprocess.TimeoutExpired:
        rc = "TIMEOUT"
    if rc == "TIMEOUT":
        try:
            os.killpg(p.pid, signal.SIGKILL)
        except OSError:
            pass
        try:
            p.wait(timeout=10)
        except subprocess.TimeoutExpired:
            pass
        for t in ths:
            t.join(5)
    for f in (p.stdout, p.stderr):
        try:
            f.close()
        except OSError:
            pass
    return rc, b"".join(ob).decode("utf-8", "replace"), b"".join(eb).decode("utf-8", "replace"), time.time() - t0


IGNORED_FILES = ("gmon.out", "uftrace-own.log")


def files_of(cwd):
    res = {}
    for root, dirs, fs in os.walk(cwd):
        for f in fs:
            p = os.path.join(root, f)
            rel = os.path.relpath(p, cwd)
            if os.path.islink(p) or rel in IGNORED_FILES or rel.startswith("core"):
                continue
            try:
                res[rel] = open(p, "rb").read().decode("utf-8", "replace")
            except OSError:
                res[rel] = "<unreadable>"
    return res


def prepare_cwd(cwd, exe):
    shutil.rmtree(cwd, ignore_errors=True)
    os.makedirs(cwd)
    plug = os.path.join(os.path.dirname(exe), "libc01plug.so")
    if os.path.exists(plug):
        os.symlink(plug, os.path.join(cwd, "libc01plug.so"))
    os.symlink(os.path.join(os.path.dirname(os.path.dirname(exe)), "c01_params.h"), os.path.join(cwd, "c01_params.h.not-elf"))


def base_env():
    env = {k: v for k, v in os.environ.items() if not k.startswith(("UFTRACE_", "LD_", "C01_"))}
    env.update({"LC_ALL": "C", "LANG": "C"})
    return env


def tracee_status(uft, data):
    """the tracee's own exit status as `uftrace record` stored it (uftrace's exit code is 1 for every non-zero status);
    read from the info file, through `uftrace info` when that does not work"""
    try:
        m = re.search(rb"^exit_status:(\d+)$", open(os.path.join(data, "info"), "rb").read(), re.M)
        if m:
            st = int(m.group(1))
            if st & 0x7f == 0:
                return (st >> 8) & 0xff
            if st < 0x80:
                return -(st & 0x7f)
    except OSError:
        pass
    info = sh([uft, "info", "--no-pager", "-d", data], stderr=subprocess.DEVNULL).stdout
    m = re.search(r"exit status\s*:\s*(.*)", info)
    if not m:
        return None
    s = m.group(1)
    m1 = re.match(r"exited with code: (\d+)", s)
    m2 = re.match(r"terminated by signal: (\d+)", s)
    return int(m1.group(1)) if m1 else (-int(m2.group(1)) if m2 else s.strip())


def run_case(tree, exe, case, work, tag, native_cache=None, timeout=int(os.environ.get("C01_TIMEOUT", "40"))):
    """-> result dict with both observations"""
    args = [case["scenario"], str(case["variant"]), str(case["depth"]), str(case["rounds"])]
    env = base_env()
    key = (exe, tuple(args))
    nat = native_cache.get(key) if native_cache is not None else None
    if nat is None:
        ncwd = os.path.join(work, "run", tag + "-n")
        prepare_cwd(ncwd, exe)
        rc, out, err, dt = _run([exe] + args, ncwd, timeout, env)
        nat = {"rc": rc, "stdout": out, "stderr": err, "files": files_of(ncwd), "wall": round(dt, 3)}
        shutil.rmtree(ncwd, ignore_errors=True)
        if native_cache is not None:
            native_cache[key] = nat
    tcwd = os.path.join(work, "run", tag + "-t")
    prepare_cwd(tcwd, exe)
    data = os.path.join(work, "data", tag)
    shutil.rmtree(data, ignore_errors=True)
    os.makedirs(os.path.dirname(data), exist_ok=True)
    uft = os.path.join(tree, "uftrace")
    ro = [o for o in case["record_opts"] if o != "EVENTS"]
    cmd = [uft, "record", "--libmcount-path=" + os.path.join(tree, "libmcount"), "--no-pager", "-d", data]
    if "EVENTS" not in case["record_opts"]:
        cmd.append("--no-event")
    cmd += ro + [exe] + args
    urc, out, err, dt = _run(cmd, tcwd, timeout, env)
    status = None
    if urc != "TIMEOUT":
        status = tracee_status(uft, data)
    else:
        status = "TIMEOUT"
    tr = {"rc": status, "uftrace_rc": urc, "stdout": out, "stderr": err, "files": files_of(tcwd), "wall": round(dt, 3),
          "cmd": " ".join(cmd)}
    shutil.rmtree(tcwd, ignore_errors=True)
    shutil.rmtree(data, ignore_errors=True)
    return {"case": case, "args": args, "exe": exe, "native": nat, "traced": tr}


# uftrace's own diagnostics: libmcount and `uftrace record` write warnings to the tracee's stderr (and, in the crash
# report of a tracee that dies of SIGABRT/SIGSEGV, one line to its stdout).  They are not output of the program;
# they are removed before the comparison and counted in the evidence (a run whose only difference is such a line
# is not a violation, a crash that only happens under trace still differs in the exit status).  The crash report's
# line on stdout is NOT removed any more: that was finding C01-ABORT-FLUSH, repaired in /repo (a5f782d).
NOISE_ERR = re.compile(r"^(WARN: .*|uftrace: .*| if this happens only with uftrace, please consider -e/--estimate-return option\.|)$")
NOISE_OUT = [re.compile(r"uftrace: install signal handlers to task \d+\n"),
             re.compile(r"uftrace: -A or -R might not work for binaries with -finstrument-functions\n")]
BUG_MSG = "Please report this bug to https://github.com/namhyung/uftrace/issues."


def strip_noise(t, native_stdout):
    """-> (stdout, stderr, kinds of diagnostics removed) of a traced run"""
    kinds = set()
    err = []
    lines = t["stderr"].split("\n")
    in_bt = False
    for l in lines:
        if l.startswith("WARN: ") or l.startswith("uftrace: "):
            kinds.add(re.sub(r"[0-9a-fx]*\d[0-9a-fx]*", "N", l)[:60])
            continue
        if l.startswith(" if this happens only with uftrace") or l.startswith("      (use --max-stack=DEPTH"):
            continue
        err.append(l)
    # the blank line that followed a removed crash report
    errs = "\n".join(err)
    if kinds and errs != t["stderr"]:
        errs = re.sub(r"\n\n+", "\n", errs) if "process crashed" in t["stderr"] or "Segmentation fault" in t["stderr"] else errs
        if errs == "\n":
            errs = ""
    out = t["stdout"]
    for rx in NOISE_OUT:
        out, n = rx.subn("", out)
        if n:
            kinds.add(rx.pattern[:50].replace("\\d+", "N"))
    return out, errs, sorted(kinds)


def differences(r):
    """the property monitor: which observables differ between the native and the traced run"""
    n, t = r["native"], r["traced"]
    out, err, kinds = strip_noise(t, n["stdout"])
    r["noise"] = kinds
    r["traced_clean"] = {"stdout": out, "stderr": err}
    d = []
    if n["stdout"] != out:
        d.append("stdout")
    if n["stderr"] != err:
        d.append("stderr")
    if n["rc"] != t["rc"]:
        d.append("exit status")
    tf = {k: re.sub(r"(?m)^(WARN: .*|      \(use --max-stack=DEPTH to record more\))\n", "", v) if "WARN: " in v and "WARN: " not in n["files"].get(k, "") else v
          for k, v in t["files"].items()}       # a program that put a file on descriptor 2 gets libmcount's warnings there
    if tf != t["files"]:
        r["noise"] = sorted(set(kinds) | {"WARN: lines in a file on descriptor 2"})
    if n["files"] != tf:
        d.append("files written: " + ",".join(sorted(k for k in set(n["files"]) | set(tf) if n["files"].get(k) != tf.get(k)))[:200])
    return d


def first_diff(a, b):
    la, lb = a.split("\n"), b.split("\n")
    for i in range(max(len(la), len(lb))):
        x = la[i] if i < len(la) else "<end>"
        y = lb[i] if i < len(lb) else "<end>"
        if x != y:
            return {"line": i + 1, "native": x[:300], "traced": y[:300]}
    return None


def main():
    import random
    tree, seed = sys.argv[1], int(sys.argv[2])
    only = sys.argv[3] if len(sys.argv) > 3 else None
    tier = sys.argv[4] if len(sys.argv) > 4 else "quick"
    resource.setrlimit(resource.RLIMIT_CORE, (0, 0))
    rng = random.Random(seed)
    work = "/var/tmp/c01-e2e-%d" % os.getpid()
    log = []
    t0 = time.time()
    exes = build_all(work, gen_params(rng), ["pg", "cyg", "fentry", "patchable"], ["-O0", "-O2"], log)
    print("built %d in %.1fs %s" % (sum(1 for v in exes.values() if v), time.time() - t0, log))
    if only == "--case":     # --case quick scenario variant depth rounds build opt [record options...]
        a = sys.argv[5:]
        case = {"scenario": a[0], "variant": int(a[1]), "depth": int(a[2]), "rounds": int(a[3]), "lang": SCEN[a[0]][0] if a[0] in SCEN else "c",
                "build": a[4], "opt": a[5], "family": "hand", "record_opts": a[6:]}
        r = run_case(tree, exes[(case["lang"], case["build"], case["opt"])], case, work, "hand")
        print(differences(r))
        print("--- native rc", r["native"]["rc"]); print(r["native"]["stdout"]); print("--- native stderr"); print(r["native"]["stderr"])
        print("--- traced rc", r["traced"]["rc"], r["traced"]["cmd"]); print(r["traced"]["stdout"]); print("--- traced stderr"); print(r["traced"]["stderr"])
        print(r["native"]["files"].keys(), r["traced"]["files"].keys())
        if "--keep" not in a:
            shutil.rmtree(work, ignore_errors=True)
        return
    cases, skipped = plan(rng, tier, exes, only)
    print("%d cases planned, excluded shapes: %s" % (len(cases), skipped))
    cache = {}
    t0 = time.time()
    with ThreadPoolExecutor(12) as ex:
        res = list(ex.map(lambda ic: run_case(tree, exes[(ic[1]["lang"], ic[1]["build"], ic[1]["opt"])], ic[1], work, "c%d" % ic[0], cache),
                          enumerate(cases)))
    bad = 0
    groups = {}
    noise = {}
    for r in res:
        d = differences(r)
        for k in r["noise"]:
            noise[k] = noise.get(k, 0) + 1
        if d:
            bad += 1
            c = r["case"]
            fd = first_diff(r["native"]["stdout"], r["traced_clean"]["stdout"]) if "stdout" in d else None
            fe = first_diff(r["native"]["stderr"], r["traced_clean"]["stderr"]) if "stderr" in d else None
            key = (c["scenario"], c["variant"], c["build"] + c["opt"], "d%d r%d" % (c["depth"], c["rounds"]), str(d), str(r["native"]["rc"]) + "/" + str(r["traced"]["rc"]),
                   json.dumps(fd)[:260], json.dumps(fe)[:200])
            groups.setdefault(key, []).append(" ".join(c["record_opts"]) or "(plain)")
    for k, v in groups.items():
        print("DIFF", *k)
        print("      with:", " | ".join(v)[:700])
    print("noise:", noise)
    print("%d cases, %d differ, %.1fs, slowest traced %.1fs" % (len(res), bad, time.time() - t0, max(r["traced"]["wall"] for r in res)))
    shutil.rmtree(work, ignore_errors=True)


if __name__ == "__main__":
    main()
