/* C01 e2e (H5), C scenarios: usage  c01_w <scenario> <variant> <depth> <rounds> [child ...]
 * Every scenario runs its body `rounds` times below `depth` extra instrumented frames (so that a
 * record-time depth/function filter can cut anywhere between the frames that belong together:
 * setjmp and longjmp, vfork and exec, the library function and its call-back, ...), prints what the
 * program itself can observe (return values, errno, descriptor numbers below 3, floating-point
 * results, exit status of children) and ends with a digest.  See c01_common.h for the rules. */
#define _GNU_SOURCE
#include <dlfcn.h>
#include <errno.h>
#include <execinfo.h>
#include <fcntl.h>
#include <fenv.h>
#include <math.h>
#include <complex.h>
#include <pthread.h>
#include <search.h>
#include <setjmp.h>
#include <signal.h>
#include <spawn.h>
#include <stdarg.h>
#include <stdlib.h>
#include <sys/stat.h>
#include <sys/time.h>
#include <sys/wait.h>
#include <ucontext.h>
#include <unistd.h>
#include "c01_common.h"

__thread uint64_t c01_h = 0x1234567;
static const char *self_path;
static int is_child;
static int g_depth, g_rounds;
extern char **environ;

/* ------------------------------------------------------------------ instrumented helpers */
NI long down(int d, body_fn f, int v, int round)
{
	volatile double loc = d * 0.5 + P_K1;
	long x;
	if (d <= 0)
		x = f(v, round);
	else
		x = down(d - 1, f, v, round) + 1;
	mixd(loc);
	return x;
}
NI double fp_leaf(double a, float b, int c) { return a * (P_K2 + 0.5) + b / (c + 1.5); }
/* the quotient needs all 64 mantissa bits of the x87 format: a result that went through a double is another number */
NI long double fp_ld(long double x, int n) { return x * (P_K3 + 0.25L) / 7.0L + n; }
NI struct dd fp_dd(double a, double b) { struct dd r = { a * 0.5 + b, b * 0.25 + P_K1 }; return r; }
NI struct ll fp_ll(long a, long b) { struct ll r = { a + P_K2, b * 3 }; return r; }
NI struct big fp_big(int n) { struct big r; for (int i = 0; i < 5; i++) r.v[i] = n * (i + P_K3); return r; }
NI double fp_var(int n, ...)
{
	va_list ap;
	double s = 0;
	va_start(ap, n);
	for (int i = 0; i < n; i++) {
		if (i & 1)
			s += va_arg(ap, double);
		else
			s += va_arg(ap, int);
	}
	va_end(ap);
	return s;
}
/* a bundle of calls over the signature classes; result goes into the digest */
NI long fp_work(int s)
{
	struct dd d = fp_dd(s * 0.5, s * 0.25);
	struct ll l = fp_ll(s, s + 1);
	struct big b = fp_big(s);
	mixd(fp_leaf(s * 0.5, 1.25f, s & 7));
	mixld(fp_ld(s * 1.5L, s & 3));
	mixd(d.a); mixd(d.b); mixu(l.a); mixu(l.b); mixu(b.v[0] + b.v[4]);
	mixd(fp_var(4, s, 0.5, s + 1, 0.25));
	return (long)(c01_h & 0xffff);
}

/* descriptor numbers: 0..2 as they are, the others by order of first appearance */
static int fdtab[64], nfdtab;
static int nfd(int fd)
{
	if (fd < 3)
		return fd;
	for (int i = 0; i < nfdtab; i++)
		if (fdtab[i] == fd)
			return 100 + i;
	if (nfdtab < 64)
		fdtab[nfdtab++] = fd;
	return 100 + nfdtab - 1;
}
static void forget_fd(int fd)
{
	for (int i = 0; i < nfdtab; i++)
		if (fdtab[i] == fd)
			fdtab[i] = -1000 - i;
}
static const char *ename(int e)
{
	switch (e) {
	case 0: return "0";
	case EBADF: return "EBADF";
	case ENOENT: return "ENOENT";
	case EACCES: return "EACCES";
	case EINVAL: return "EINVAL";
	case ECHILD: return "ECHILD";
	case ENOEXEC: return "ENOEXEC";
	case ENOTDIR: return "ENOTDIR";
	case EEXIST: return "EEXIST";
	case ERANGE: return "ERANGE";
	case EDOM: return "EDOM";
	default: return "E?";
	}
}
static void pstatus(const char *what, int st)
{
	if (WIFEXITED(st))
		printf("%s: exited %d\n", what, WEXITSTATUS(st));
	else if (WIFSIGNALED(st))
		printf("%s: signal %d\n", what, WTERMSIG(st));
	else
		printf("%s: status ?\n", what);
}

/* ------------------------------------------------------------------ setjmp / longjmp */
static jmp_buf jb, jb2;
NI static long lj_thrower(int e, int val, int which)
{
	volatile double x = fp_leaf(e, 1.5f, val);
	mixd(x);
	if (e <= 0)
		longjmp(which ? jb2 : jb, val);
	return lj_thrower(e - 1, val, which) + 1;
}
NI static long lj_inner(int v, int round)
{
	volatile long st = 100 + round;
	int r = setjmp(jb2);
	if (r == 0) {
		st++;
		lj_thrower(1, P_JVAL + 1, (v & 8) ? 0 : 1); /* to the inner or straight to the outer buffer */
		printf("lj_inner: not reached\n");
	}
	printf("lj_inner r=%d st=%ld\n", r, (long)st);
	return st;
}
NI static long lj_body(int v, int round)
{
	volatile long st = round * 10;
	volatile double fv = fp_leaf(round, 0.5f, 3);
	int r = setjmp(jb);
	if (r == 0) {
		st += 1;
		fv += 0.25;
		if (v & 16)
			st += lj_inner(v, round);
		lj_thrower(v & 3, (v & 4) ? 0 : P_JVAL + round, 0);
		printf("lj: not reached\n");
	}
	else {
		printf("lj r=%d st=%ld fv=%.4f\n", r, (long)st, (double)fv);
	}
	mixd(fp_leaf(st, 2.5f, r));
	fp_work(round + r);
	return st + r;
}

/* ------------------------------------------------------------------ longjmp out of a libc call-back */
#define POISON 666
static int cb_count, cb_extra, cb_how;
NI static void cb_bail(int lvl)
{
	if (lvl > 0) {
		cb_bail(lvl - 1);
		mixu(lvl);
		return;
	}
	if (cb_how == 1)
		exit(P_EXIT + 20);
	longjmp(jb, P_JVAL);
}
NI static int cb_cmp(const void *a, const void *b)
{
	int x = *(const int *)a, y = *(const int *)b;
	cb_count++;
	mixd(fp_leaf(x, 0.5f, y & 3));
	if (x == POISON || y == POISON)
		cb_bail(cb_extra);
	return (x > y) - (x < y);
}
NI static int cb_cmp_plain(const void *a, const void *b)
{
	int x = *(const int *)a, y = *(const int *)b;
	return (x > y) - (x < y);
}
NI static int cb_cmp_r(const void *a, const void *b, void *arg)
{
	(*(int *)arg)++;
	return cb_cmp(a, b);
}
static int tw_seen;
NI static void cb_action(const void *nodep, VISIT which, int depth)
{
	if (which == postorder || which == leaf) {
		int x = **(int *const *)nodep;
		tw_seen++;
		mixu(x);
		if (x == POISON)
			cb_bail(cb_extra);
	}
}
static void tw_nofree(void *p) { (void)p; }
/* returns 0 when the library function ran to its end, -1 when the call-back bailed out */
NI static long cb_run(int *arr, int n, int kind)
{
	volatile long keep = n * 7;
	int extra = 0, key;
	size_t nel = n;
	void *root = NULL;
	if (setjmp(jb)) {
		mixu(keep);
		return -1;
	}
	switch (kind) {
	case 0: qsort(arr, n, sizeof(*arr), cb_cmp); break;
	case 1: key = arr[n / 2]; bsearch(&key, arr, n, sizeof(*arr), cb_cmp); break;
	case 2: key = -5; lfind(&key, arr, &nel, sizeof(*arr), cb_cmp); break;
	case 3:
		for (int i = 0; i < n; i++)
			tsearch(&arr[i], &root, cb_cmp_plain);
		twalk(root, cb_action);
		tdestroy(root, tw_nofree);
		break;
	default: qsort_r(arr, n, sizeof(*arr), cb_cmp_r, &extra); mixu(extra); break;
	}
	return 0;
}
NI static long cb_body(int v, int round)
{
	int good[P_NARR] = P_ARR, bad[P_NARR] = P_ARR;
	long r;
	bad[P_POISON_POS] = POISON;
	cb_extra = (v >> 3) & 1;
	cb_how = (v >> 4) & 1;
	if (cb_how && round == 0)
		cb_how = 0; /* exit() from the call-back only once the symbols are resolved */
	r = cb_run(good, P_NARR, v & 7);
	printf("cb round %d good -> %ld [", round, r);
	for (int i = 0; i < P_NARR; i++)
		printf("%d%s", good[i], i < P_NARR - 1 ? " " : "");
	printf("] cmp=%d seen=%d\n", cb_count, tw_seen);
	r = cb_run(bad, P_NARR, v & 7);
	printf("cb round %d bad -> %ld (%s) cmp=%d\n", round, r, r ? "rejected" : "accepted", cb_count);
	fp_work(round);
	return r;
}

/* ------------------------------------------------------------------ signals */
static sigjmp_buf sjb;
static volatile sig_atomic_t sig_seen, sig_mode;
static uint64_t sig_h;
static volatile int *volatile nullp;
NI static long sig_deep(int e, int sig)
{
	volatile double x = fp_leaf(e, 0.75f, sig);
	if (e <= 0) {
		if (sig == SIGSEGV)
			*nullp = 1;
		else
			raise(sig);
		return (long)x;
	}
	return sig_deep(e - 1, sig) + (long)x;
}
NI static void sig_handler(int sig)
{
	uint64_t keep = c01_h;
	sig_seen++;
	fp_work(sig); /* instrumented calls inside the handler */
	sig_h ^= c01_h;
	c01_h = keep;
	if (sig_mode == 1)
		siglongjmp(sjb, 3);
}
NI static void sig_info_handler(int sig, siginfo_t *si, void *uc)
{
	(void)uc;
	sig_seen += (si && si->si_signo == sig) ? 10 : 1000;
	sig_handler(sig);
}
NI static long sig_body(int v, int round)
{
	struct sigaction sa, old;
	volatile long st = round;
	static char altstack[65536];
	int kind = v & 3, sig = (kind == 2) ? SIGSEGV : SIGUSR1, r;
	stack_t ss = { .ss_sp = altstack, .ss_size = sizeof(altstack), .ss_flags = 0 };
	memset(&sa, 0, sizeof(sa));
	sigemptyset(&sa.sa_mask);
	if (kind == 3) {
		sa.sa_sigaction = sig_info_handler;
		sa.sa_flags = SA_SIGINFO | SA_ONSTACK;
		sigaltstack(&ss, NULL);
	}
	else {
		sa.sa_handler = sig_handler;
		sa.sa_flags = (kind == 2) ? SA_ONSTACK | SA_NODEFER : 0;
		if (kind == 2)
			sigaltstack(&ss, NULL);
	}
	sigaction(sig, &sa, &old);
	sig_mode = (kind == 3) ? 0 : 1;
	sig_h = 0;
	r = sigsetjmp(sjb, (v & 4) ? 0 : 1);
	if (r == 0) {
		st += 5;
		st += sig_deep((v >> 3) & 3, sig);
		printf("sig round %d returned st=%ld seen=%d\n", round, (long)st, (int)sig_seen);
	}
	else {
		sigset_t cur;
		sigprocmask(SIG_SETMASK, NULL, &cur);
		printf("sig round %d jumped r=%d st=%ld seen=%d blocked=%d\n", round, r, (long)st, (int)sig_seen,
		       sigismember(&cur, sig));
		if (sigismember(&cur, sig)) {
			sigset_t un;
			sigemptyset(&un);
			sigaddset(&un, sig);
			sigprocmask(SIG_UNBLOCK, &un, NULL);
		}
	}
	sigaction(sig, &old, NULL);
	mixu(sig_h);
	fp_work(round);
	return st;
}
static volatile sig_atomic_t ticks;
NI static void tick_handler(int sig)
{
	uint64_t keep = c01_h;
	ticks++;
	fp_work(sig);
	sig_h ^= 1;
	c01_h = keep;
}
NI static long async_body(int v, int round)
{
	struct sigaction sa;
	struct itimerval it = { { 0, 300 + 100 * (v & 3) }, { 0, 300 } }, off = { { 0, 0 }, { 0, 0 } };
	long n = 0, spin = 0;
	memset(&sa, 0, sizeof(sa));
	sa.sa_handler = tick_handler;
	sa.sa_flags = SA_RESTART;
	sigaction(SIGALRM, &sa, NULL);
	ticks = 0;
	setitimer(ITIMER_REAL, &it, NULL);
	for (int i = 0; i < P_ITER; i++)
		n += fp_work(i + round);
	{
		uint64_t keep = c01_h;
		while (ticks < 5 && spin < 2000000) { /* the digest must not depend on when the signals arrive */
			fp_work((int)spin);
			spin++;
		}
		c01_h = keep;
	}
	setitimer(ITIMER_REAL, &off, NULL);
	printf("async round %d n=%ld ticks>=5:%d\n", round, n, ticks >= 5);
	return n;
}

/* ------------------------------------------------------------------ vfork / fork / exec / spawn */
NI static long vfork_body(int v, int round)
{
	volatile long st = round + 40;
	int status = 0, kind = v & 3;
	pid_t pid;
	char *sh_argv[] = { "sh", "-c", "exit 5", NULL };
	char *no_argv[] = { "c01-no-such-program", NULL };
	char *envp[] = { "C01_VAR=vf", NULL };
	fflush(stdout);
	pid = vfork();
	if (pid == 0) {
		if (kind == 0)
			_exit(P_EXIT + round);
		if (kind == 1)
			execve("/bin/sh", sh_argv, envp);
		else if (kind == 2)
			execve("./c01-no-such-program", no_argv, envp);
		else
			execvpe("sh", sh_argv, envp);
		_exit(errno == ENOENT ? 41 : 42);
	}
	st += 2;
	if (pid < 0 || waitpid(pid, &status, 0) != pid)
		printf("vfork: failed %s\n", ename(errno));
	pstatus("vfork child", status);
	printf("vfork round %d st=%ld\n", round, (long)st);
	fp_work(round);
	return st;
}
static void at_exit_1(void) { fp_work(7); printf("atexit 1 H=%016lx child=%d\n", (unsigned long)c01_h, is_child); }
static void at_exit_2(void) { printf("atexit 2 r=%ld\n", fp_work(9)); }
NI static long fork_body(int v, int round)
{
	int status = 0, kind = v & 3;
	char name[64];
	pid_t pid;
	fflush(stdout);
	pid = fork();
	if (pid == 0) {
		is_child = 1;
		mixu(round + 77);
		fp_work(round);
		if (kind == 1) {
			FILE *f;
			snprintf(name, sizeof(name), "child_%d.txt", round);
			f = fopen(name, "w");
			fprintf(f, "child round %d H=%016lx\n", round, (unsigned long)c01_h);
			fclose(f);
			_exit(P_EXIT + 1);
		}
		if (kind == 2)
			exit(P_EXIT + 2); /* deep exit() in the child: atexit handlers, stdio flush */
		printf("fork child round %d returns\n", round);
		return 1000 + round; /* the child walks back up through the frames it inherited */
	}
	if (pid < 0 || waitpid(pid, &status, 0) != pid)
		printf("fork: failed %s\n", ename(errno));
	pstatus("fork child", status);
	if (kind == 1) {
		char line[128] = "";
		FILE *f;
		snprintf(name, sizeof(name), "child_%d.txt", round);
		f = fopen(name, "r");
		if (f && fgets(line, sizeof(line), f))
			printf("read back: %s", line);
		if (f)
			fclose(f);
	}
	fp_work(round);
	return round;
}
NI static long daemon_body(int v, int round)
{
	int r;
	fflush(stdout);
	if (round > 0)
		return 0;
	r = daemon(1, 1);
	printf("daemon -> %d\n", r);
	fp_work(v);
	return r;
}
NI static long spawn_body(int v, int round)
{
	char tag[32], code[16];
	char *argv[] = { (char *)self_path, "child", tag, code, NULL };
	char *sh_argv[] = { "sh", "-c", "echo sh sees C01_VAR=$C01_VAR; exit 6", NULL };
	char *envp[] = { "C01_VAR=spawned", "C01_OTHER=x", NULL };
	int status = 0, rc = 0, kind = v, fd;
	pid_t pid = -1;
	posix_spawn_file_actions_t fa;
	snprintf(tag, sizeof(tag), "k%dr%d", kind, round);
	snprintf(code, sizeof(code), "%d", P_EXIT + kind);
	fflush(stdout);
	errno = 0;
	switch (kind) {
	case 0:
		rc = posix_spawn(&pid, self_path, NULL, NULL, argv, envp);
		break;
	case 1:
		rc = posix_spawnp(&pid, "sh", NULL, NULL, sh_argv, envp);
		break;
	case 2:
		posix_spawn_file_actions_init(&fa);
		posix_spawn_file_actions_addopen(&fa, 1, "spawn_out.txt", O_WRONLY | O_CREAT | O_APPEND, 0644);
		posix_spawn_file_actions_adddup2(&fa, 1, 2);
		posix_spawn_file_actions_addclose(&fa, 0);
		rc = posix_spawn(&pid, self_path, &fa, NULL, argv, envp);
		posix_spawn_file_actions_destroy(&fa);
		break;
	case 3:
		rc = posix_spawn(&pid, "./c01-no-such-program", NULL, NULL, argv, envp);
		printf("spawn missing -> %s pidset=%d\n", ename(rc), pid != -1);
		rc = posix_spawnp(&pid, "c01-no-such-program", NULL, NULL, argv, envp);
		printf("spawnp missing -> %s pidset=%d\n", ename(rc), pid != -1);
		return rc;
	case 4: case 5: case 6: case 7: case 8:
		pid = fork();
		if (pid == 0) {
			if (kind == 4)
				execve(self_path, argv, envp);
			else if (kind == 5)
				execvpe("sh", sh_argv, envp);
			else if (kind == 6) {
				fd = open(self_path, O_RDONLY);
				fexecve(fd, argv, envp);
			}
			else if (kind == 7)
				execve(self_path, argv, NULL);
			else
				execv(self_path, argv);
			_exit(99);
		}
		break;
	case 9: {
		int r1, e1, r2, e2, r3, e3;
		fd = open("c01-not-exec.txt", O_WRONLY | O_CREAT, 0644);
		if (write(fd, "#!/none\n", 8) != 8)
			printf("write failed\n");
		close(fd);
		errno = 0; r1 = execve("./c01-no-such-program", argv, envp); e1 = errno;
		errno = 0; r2 = execve("./c01-not-exec.txt", argv, envp); e2 = errno;
		errno = 0; r3 = execvpe("c01-no-such-program", argv, envp); e3 = errno;
		printf("exec missing -> %d %s; not executable -> %d %s; execvpe missing -> %d %s\n", r1, ename(e1), r2,
		       ename(e2), r3, ename(e3));
		errno = 0; r1 = fexecve(-1, argv, envp); e1 = errno;
		printf("fexecve(-1) -> %d %s\n", r1, ename(e1));
		return r1 + r2;
	}
	case 10:
		rc = system("exit 3");
		pstatus("system", rc);
		{
			char line[64] = "";
			FILE *p = popen("echo from-popen", "r");
			if (p && fgets(line, sizeof(line), p))
				printf("popen: %s", line);
			if (p)
				pstatus("pclose", pclose(p));
		}
		return rc;
	default:
		if (round < g_rounds - 1)
			return 0;
		printf("final exec\n");
		fflush(stdout);
		execve(self_path, argv, envp); /* the whole traced process is replaced */
		_exit(98);
	}
	if (pid > 0 && waitpid(pid, &status, 0) == pid)
		pstatus("spawned", status);
	printf("spawn kind %d rc=%s\n", kind, ename(rc));
	fp_work(round);
	return status;
}
static int child_main(int argc, char **argv)
{
	const char *e = getenv("C01_VAR"), *o = getenv("C01_OTHER");
	printf("child %s: C01_VAR=%s C01_OTHER=%s argc=%d\n", argv[2], e ? e : "(unset)", o ? o : "(unset)", argc);
	fprintf(stderr, "child %s on stderr\n", argv[2]);
	fp_work(atoi(argv[3]));
	printf("child H=%016lx\n", (unsigned long)c01_h);
	return atoi(argv[3]);
}

/* ------------------------------------------------------------------ threads */
struct tinfo { int id, v, depth; char log[256]; pthread_t th; };
static pthread_key_t tkey;
static __thread struct tinfo *cur_ti;
static void tnote(struct tinfo *ti, const char *s)
{
	strncat(ti->log, s, sizeof(ti->log) - strlen(ti->log) - 1);
}
NI static void t_cleanup(void *arg)
{
	struct tinfo *ti = arg;
	tnote(ti, " cleanup");
	fp_leaf(ti->id, 0.5f, 1);
}
NI static void t_keydtor(void *arg)
{
	struct tinfo *ti = arg;
	tnote(ti, " keydtor");
	fp_leaf(ti->id, 0.25f, 2);
}
NI static long t_leave(int v, int round)
{
	struct tinfo *ti = cur_ti;
	uint64_t h = 0xabc + ti->id;
	for (int i = 0; i < 50; i++)
		h = h * 31 + (uint64_t)(fp_leaf(i, 1.5f, ti->id) * 16);
	tnote(ti, " leave");
	if ((v & 3) == 1)
		return (long)(h & 0xffffff); /* plain return through all frames */
	pthread_exit((void *)(h & 0xffffff));
}
NI static void *t_main(void *arg)
{
	struct tinfo *ti = arg;
	long r;
	cur_ti = ti;
	pthread_setspecific(tkey, ti);
	if (ti->v & 4) { /* in C the cleanup frame is a __sigsetjmp() the forced unwinding jumps back to */
		pthread_cleanup_push(t_cleanup, ti);
		r = down(ti->depth, t_leave, ti->v, 0);
		pthread_cleanup_pop(1);
	}
	else
		r = down(ti->depth, t_leave, ti->v, 0);
	tnote(ti, " returned");
	return (void *)r;
}
NI static long t_block_body(int v, int round)
{
	struct tinfo *ti = cur_ti;
	tnote(ti, " blocking");
	if (v & 4) {
		pthread_cleanup_push(t_cleanup, ti);
		for (;;)
			pause(); /* cancellation point */
		pthread_cleanup_pop(0);
	}
	for (;;)
		pause();
	return 0;
}
NI static void *t_cancel_main(void *arg)
{
	cur_ti = arg;
	return (void *)down(cur_ti->depth, t_block_body, cur_ti->v, 0);
}
NI static void *t_late(void *arg)
{
	long n = 0;
	usleep(20000);
	for (int i = 0; i < 200; i++)
		n += fp_work(i);
	printf("late thread done n=%ld H=%016lx\n", n, (unsigned long)c01_h);
	return NULL;
}
NI static long pth_body(int v, int round)
{
	static struct tinfo ti[8];
	int n = P_THREADS, kind = v & 3;
	void *res;
	if (round == 0)
		pthread_key_create(&tkey, t_keydtor);
	if (kind == 2) { /* the main thread leaves with pthread_exit(), another thread finishes the job */
		pthread_t th;
		if (round < g_rounds - 1)
			return 0;
		pthread_create(&th, NULL, t_late, NULL);
		pthread_detach(th);
		printf("main thread exits\n");
		fflush(stdout);
		pthread_exit(NULL);
	}
	memset(ti, 0, sizeof(ti));
	for (int i = 0; i < n; i++) {
		ti[i].id = i + round * 10;
		ti[i].v = v;
		ti[i].depth = (i + g_depth) % 4;
		pthread_create(&ti[i].th, NULL, kind == 3 ? t_cancel_main : t_main, &ti[i]);
	}
	if (kind == 3) {
		usleep(30000);
		for (int i = 0; i < n; i++)
			pthread_cancel(ti[i].th);
	}
	for (int i = 0; i < n; i++) {
		pthread_join(ti[i].th, &res);
		printf("thread %d:%s -> %s%lx\n", ti[i].id, ti[i].log, res == PTHREAD_CANCELED ? "canceled " : "",
		       res == PTHREAD_CANCELED ? 0UL : (unsigned long)res);
	}
	fp_work(round);
	return n;
}

/* ------------------------------------------------------------------ ways to end the program */
NI static void *exit_thread(void *arg)
{
	fp_work(3);
	printf("thread calls exit\n");
	exit(P_EXIT + 6);
}
NI static long exit_body(int v, int round)
{
	if (round == 0) {
		atexit(at_exit_1);
		atexit(at_exit_2);
		at_quick_exit(at_exit_2);
	}
	fp_work(round);
	if (round < g_rounds - 1)
		return 0;
	printf("leaving, kind %d H=%016lx\n", v, (unsigned long)c01_h);
	switch (v) {
	case 0: exit(P_EXIT);
	case 1: fflush(stdout); _exit(P_EXIT + 1);
	case 2: fflush(stdout); quick_exit(P_EXIT + 2);
	case 3: fflush(stdout); abort();
	case 4: return P_EXIT + 4;
	case 5: {
		pthread_t th;
		pthread_create(&th, NULL, exit_thread, NULL);
		pthread_join(th, NULL);
		return 0;
	}
	case 6: fflush(stdout); raise(SIGKILL); return 0;
	default: fflush(stdout); raise(SIGTERM); return 0;
	}
}

/* ------------------------------------------------------------------ descriptors (the close() wrapper) */
NI static long fd_body(int v, int round)
{
	char name[64];
	int fd, fd2, rc, e;
	struct stat st;
	snprintf(name, sizeof(name), "fd_%d_%d.log", v, round);
	switch (v) {
	case 0: /* re-point stderr: close(2), dup() must land on 2 */
		fd = open(name, O_WRONLY | O_CREAT | O_TRUNC, 0644);
		fprintf(stderr, "stderr before round %d\n", round);
		rc = close(2);
		printf("close(2) -> %d\n", rc);
		fd2 = dup(fd);
		printf("dup -> %d\n", nfd(fd2));
		close(fd);
		fprintf(stderr, "message %d for the log\n", round);
		fflush(stderr);
		if (stat(name, &st) == 0)
			printf("log has %ld bytes\n", (long)st.st_size);
		rc = close(2);
		errno = 0;
		fd = close(2);
		e = errno;
		printf("close(2) again -> %d, then %d %s\n", rc, fd, ename(e));
		fd = open("/dev/null", O_WRONLY); /* give the program a descriptor 2 again */
		printf("reopen -> %d\n", nfd(fd));
		break;
	case 1: /* daemonize by hand */
		if (round > 0)
			break;
		fflush(stdout);
		printf("closing 0 1 2: %d", close(0));
		fflush(stdout);
		rc = close(1);
		e = close(2);
		fd = open("/dev/null", O_RDONLY);
		fd2 = open(name, O_WRONLY | O_CREAT | O_TRUNC, 0644);
		printf("daemon: close -> %d %d, open -> %d %d, dup -> %d\n", rc, e, fd, fd2, dup(fd2));
		fprintf(stderr, "daemon stderr line\n");
		break;
	case 2: /* close everything above 2 like daemons do, then look at our own descriptors */
		for (fd = 3; fd < 256; fd++)
			close(fd);
		fd = open(name, O_WRONLY | O_CREAT | O_TRUNC, 0644);
		if (write(fd, "x\n", 2) != 2)
			printf("write failed\n");
		fd2 = dup(fd);
		printf("own fds %d %d\n", nfd(fd), nfd(fd2));
		rc = close(fd);
		errno = 0;
		e = close(fd);
		printf("close own -> %d, twice -> %d %s\n", rc, e, ename(errno));
		errno = 0;
		rc = close(-1);
		printf("close(-1) -> %d %s\n", rc, ename(errno));
		errno = 0;
		rc = close(100000 + round);
		printf("close(big) -> %d %s\n", rc, ename(errno));
		close(fd2);
		forget_fd(fd);
		forget_fd(fd2);
		break;
	case 3: /* close(1): the next open() is the new stdout */
		if (round > 0)
			break;
		fflush(stdout);
		rc = close(1);
		fd = open(name, O_WRONLY | O_CREAT | O_TRUNC, 0644);
		printf("close(1) -> %d, open -> %d\n", rc, fd);
		break;
	case 4: /* dup2 over 2 and back */
		fd = open(name, O_WRONLY | O_CREAT | O_TRUNC, 0644);
		fd2 = dup(2);
		rc = dup2(fd, 2);
		fprintf(stderr, "through dup2 round %d\n", round);
		printf("dup2 -> %d\n", rc);
		rc = dup2(fd2, 2);
		fprintf(stderr, "back on stderr round %d\n", round);
		printf("dup2 back -> %d, close %d %d\n", rc, close(fd), close(fd2));
		forget_fd(fd);
		forget_fd(fd2);
		break;
	case 5: /* close(0), open a file there, read it through stdin */
		fd = open(name, O_WRONLY | O_CREAT | O_TRUNC, 0644);
		if (write(fd, "4711 rest\n", 10) != 10)
			printf("write failed\n");
		close(fd);
		forget_fd(fd);
		rc = close(0);
		fd = open(name, O_RDONLY);
		e = -1;
		clearerr(stdin);
		fd2 = scanf("%d", &e);
		printf("close(0) -> %d, open -> %d, scanf -> %d %d\n", rc, fd, fd2, e);
		break;
	case 6: /* stdio closes 2, descriptor-level code reuses it */
		if (round > 0)
			break;
		rc = fclose(stderr);
		fd = open(name, O_WRONLY | O_CREAT | O_TRUNC, 0644);
		printf("fclose(stderr) -> %d, open -> %d\n", rc, nfd(fd));
		if (write(2, "raw write to 2\n", 15) != 15)
			printf("write(2) failed %s\n", ename(errno));
		errno = 0;
		rc = close(2);
		printf("close(2) -> %d %s\n", rc, ename(errno));
		break;
	default: /* close(2) in a child only */
		fflush(stdout);
		if (fork() == 0) {
			rc = close(2);
			fd = open(name, O_WRONLY | O_CREAT | O_TRUNC, 0644);
			dprintf(2, "child writes to 2\n");
			printf("child close(2) -> %d, open -> %d\n", rc, nfd(fd));
			fflush(stdout);
			_exit(0);
		}
		wait(&rc);
		pstatus("fd child", rc);
		fprintf(stderr, "parent still has stderr, round %d\n", round);
	}
	fp_work(round);
	return v;
}

/* ------------------------------------------------------------------ buffered stdio across fork/exec/exit */
/* What a program with unflushed stdio buffers prints depends on who flushes when: after fork() both
 * processes own a copy of the pending bytes, exec/_exit/abort drop them.  A tracer that flushes the
 * tracee's streams (or forgets to leave them alone in an atfork handler) changes the output. */
NI static long stdio_body(int v, int round)
{
	static char obuf[8192], ebuf[8192];
	int mode = v & 3, act = v >> 2, st = 0;
	pid_t pid;
	char tag[32], code[16];
	char *argv[] = { (char *)self_path, "child", tag, code, NULL };
	char *envp[] = { "C01_VAR=stdio", NULL };
	if (round == 0) {
		if (mode == 0)
			setvbuf(stdout, obuf, _IOFBF, sizeof(obuf));
		else if (mode == 1)
			setvbuf(stdout, NULL, _IOLBF, 0);
		else if (mode == 2)
			setvbuf(stdout, NULL, _IONBF, 0);
		else {
			if (!freopen("stdio_out.txt", "w", stdout))
				return -1;
			setvbuf(stdout, obuf, _IOFBF, sizeof(obuf));
		}
		setvbuf(stderr, ebuf, _IOFBF, sizeof(ebuf));
	}
	snprintf(tag, sizeof(tag), "a%dr%d", act, round);
	snprintf(code, sizeof(code), "%d", P_EXIT);
	printf("pending line %d", round);       /* no newline: stays in the buffer in every buffered mode */
	printf(" with newline, mode %d\n", mode);
	printf("partial %d ", round);
	fprintf(stderr, "pending on stderr %d\n", round);
	fp_work(round);
	switch (act) {
	case 0: /* fork, child ends with exit(): both flush their copy */
	case 1: /* fork, child ends with _exit(): the child's copy is dropped */
	case 2: /* fork, child returns to main and ends there */
		pid = fork();
		if (pid == 0) {
			is_child = 1;
			printf("[child %d]", round);
			if (act == 0)
				exit(P_EXIT + 1);
			if (act == 1)
				_exit(P_EXIT + 2);
			return 500;
		}
		waitpid(pid, &st, 0);
		break;
	case 3: /* vfork + _exit */
		pid = vfork();
		if (pid == 0)
			_exit(P_EXIT + 3);
		waitpid(pid, &st, 0);
		break;
	case 4: /* fork + exec: the pending bytes of the child vanish with its image */
		pid = fork();
		if (pid == 0) {
			execve(self_path, argv, envp);
			_exit(99);
		}
		waitpid(pid, &st, 0);
		break;
	case 5: /* posix_spawn: nothing is flushed */
		if (posix_spawn(&pid, self_path, NULL, NULL, argv, envp) == 0)
			waitpid(pid, &st, 0);
		break;
	case 6: /* daemon(): fork inside libc, the parent leaves through _exit() */
		if (round == 0)
			st = daemon(1, 1) << 8;
		break;
	case 7: /* the program ends with _exit(): pending output is lost */
		if (round == g_rounds - 1)
			_exit(P_EXIT + 4);
		break;
	case 8: /* abort(): lost as well */
		if (round == g_rounds - 1)
			abort();
		break;
	case 9: /* exec without fork at the end */
		if (round == g_rounds - 1) {
			execve(self_path, argv, envp);
			_exit(98);
		}
		break;
	case 10: /* system() and popen() (posix_spawn inside libc) */
		st = system("exit 2");
		break;
	default: /* a thread forks while the main thread has pending output */
		break;
	}
	printf("after %d: ", act);
	pstatus("status", st);
	return st;
}

/* ------------------------------------------------------------------ dlopen / dlclose */
long host_callback(long x) { return fp_work((int)x) + x; }
static void (*dl_bail)(jmp_buf, int);
NI static long dl_visitor(long i)
{
	fp_work((int)i);
	if (i == 2)
		dl_bail(jb, P_JVAL);
	return i;
}
NI static long dl_body(int v, int round)
{
	void *h, *h2;
	long (*calc)(long, long (*)(long));
	double (*fcalc)(double, int);
	int rc;
	const char *err;
	switch (v) {
	case 0: case 1: case 2:
		h = dlopen("./libc01plug.so", v == 1 ? RTLD_NOW | RTLD_GLOBAL : RTLD_LAZY);
		printf("dlopen -> %s\n", h ? "handle" : "NULL");
		if (!h)
			return -1;
		calc = (long (*)(long, long (*)(long)))dlsym(h, "plug_calc");
		fcalc = (double (*)(double, int))dlsym(h, "plug_fcalc");
		printf("plug_calc -> %ld\n", calc ? calc(round + 3, host_callback) : -1L);
		printf("plug_fcalc -> %.6f\n", fcalc ? fcalc(round * 0.5, 3) : -1.0);
		if (v == 2) {
			h2 = dlopen("./libc01plug.so", RTLD_LAZY);
			printf("second dlopen same handle: %d\n", h2 == h);
			printf("dlclose -> %d\n", dlclose(h2));
			printf("still loaded: %d\n", dlopen("./libc01plug.so", RTLD_LAZY | RTLD_NOLOAD) != NULL);
			dlclose(h);
		}
		rc = dlclose(h);
		printf("dlclose -> %d\n", rc);
		h2 = dlopen("./libc01plug.so", RTLD_LAZY | RTLD_NOLOAD);
		printf("loaded after dlclose: %d\n", h2 != NULL);
		if (h2)
			dlclose(h2);
		break;
	case 3:
		dlerror();
		h = dlopen("./libc01-missing.so", RTLD_LAZY);
		err = dlerror();
		printf("dlopen missing -> %s, dlerror %s\n", h ? "handle" : "NULL", err ? err : "(none)");
		h = dlopen("c01_params.h.not-elf", RTLD_NOW);
		err = dlerror();
		printf("dlopen bad -> %s, dlerror set %d\n", h ? "handle" : "NULL", err != NULL);
		break;
	case 4:
		h = dlopen(NULL, RTLD_LAZY);
		printf("dlopen(NULL) -> %s, host_callback found %d, missing found %d\n", h ? "handle" : "NULL",
		       h && dlsym(h, "host_callback") == (void *)host_callback, h && dlsym(h, "c01_no_such_symbol") != NULL);
		err = dlerror();
		printf("dlerror set %d\n", err != NULL);
		if (h)
			printf("dlclose -> %d\n", dlclose(h));
		break;
	case 6: case 7: { /* the library leaves through longjmp() to a jmp_buf of the program */
		static void (*bail)(jmp_buf, int);
		long (*visit)(long (*)(long), long);
		volatile long seen = 0;
		h = dlopen("./libc01plug.so", RTLD_LAZY);
		if (!h)
			return -1;
		bail = (void (*)(jmp_buf, int))dlsym(h, "plug_bail");
		visit = (long (*)(long (*)(long), long))dlsym(h, "plug_visit");
		dl_bail = bail;
		for (int i = 0; i < 3; i++) {
			int r = setjmp(jb);
			if (r == 0) {
				seen++;
				if (v == 6)
					bail(jb, P_JVAL + i);
				else
					visit(dl_visitor, 4 + i);
				printf("dl bail: not reached\n");
			}
			else
				printf("dl bail %d -> r=%d seen=%ld\n", i, r, (long)seen);
		}
		printf("dlclose -> %d\n", dlclose(h));
		break;
	}
	default:
		h = dlopen("libm.so.6", RTLD_LAZY);
		fcalc = h ? (double (*)(double, int))dlsym(h, "ldexp") : NULL;
		printf("libm ldexp -> %.3f\n", fcalc ? fcalc(1.5, 4 + round) : -1.0);
		if (h)
			printf("dlclose -> %d\n", dlclose(h));
	}
	fp_work(round);
	return v;
}

/* ------------------------------------------------------------------ backtrace() */
static int bt_how;
static void bt_print(const char *where)
{
	void *buf[64];
	int n = backtrace(buf, 64), shown = 0;
	printf("backtrace at %s:", where);
	for (int i = 0; i < n; i++) {
		Dl_info di;
		if (dladdr(buf[i], &di) && di.dli_sname) {
			printf(" %s", di.dli_sname);
			shown++;
		}
		else
			printf(" ?");
	}
	printf(" (%d frames)\n", n);
}
/* deep stacks and large requests: backtrace(buf, ask) on a recursion of 100-260 frames, ask = 16..512 */
static void *bt_frames[512];
static volatile int bt_sink;
NI int bt_dive(int n, int ask)
{
	int r;
	if (n <= 0)
		return backtrace(bt_frames, ask);
	r = bt_dive(n - 1, ask);
	bt_sink++; /* no tail call */
	return r;
}
static void bt_deep(int v, int round)
{
	static const int depths[] = { 100, 129, 180, 260, 127, 140 }, asks[] = { 16, 64, 128, 129, 200, 384, 512 };
	int depth = depths[(v * 2 + round + P_K1) % 6];
	for (unsigned i = 0; i < sizeof(asks) / sizeof(asks[0]); i++) {
		int n = bt_dive(depth, asks[i]), dives = 0;
		uint64_t h = 0;
		for (int k = 0; k < n; k++) {
			Dl_info di;
			if (dladdr(bt_frames[k], &di) && di.dli_sname) {
				dives += !strcmp(di.dli_sname, "bt_dive");
				for (const char *c = di.dli_sname; *c; c++)
					h = h * 31 + (unsigned char)*c;
			}
			else
				h = h * 31 + 1;
		}
		printf("backtrace depth %d ask %d: %d frames, %d of bt_dive, names %016lx\n", depth, asks[i], n, dives,
		       (unsigned long)h);
	}
}
NI int bt_cmp(const void *a, const void *b)
{
	static int once;
	if (!once++)
		bt_print("comparator");
	return *(const int *)a - *(const int *)b;
}
NI void bt_sig(int sig) { bt_print("handler"); }
NI long bt_body(int v, int round)
{
	int arr[P_NARR] = P_ARR;
	if (v == 0)
		bt_print("body");
	else if (v == 1)
		qsort(arr, P_NARR, sizeof(arr[0]), bt_cmp);
	else {
		signal(SIGUSR2, bt_sig);
		raise(SIGUSR2);
	}
	bt_print("after");
	bt_deep(v, round);
	fp_work(round);
	return arr[0];
}

/* ------------------------------------------------------------------ library calls over the FP signature classes */
NI static long fplib_body(int v, int round)
{
	double x = 0.3 + round * 0.11 + P_K1 * 0.01, ip;
	int ex, rm[] = { FE_TONEAREST, FE_UPWARD, FE_DOWNWARD, FE_TOWARDZERO };
	long double lx = 1.25L + round;
	double complex z;
	lldiv_t q;
	char *end;
	fesetround(rm[v & 3]);
	feclearexcept(FE_ALL_EXCEPT);
	mixd(sin(x)); mixd(pow(x, 2.5)); mixd(ldexp(x, 3)); mixd(frexp(x * 100, &ex)); mixu(ex);
	mixd(modf(x * 7, &ip)); mixd(ip); mixd(hypot(x, 2.0)); mixd(fma(x, 3.0, 0.1));
	mixld(sinl(lx)); mixld(powl(lx, 1.5L)); mixld(strtold("2.718281828459045235", &end));
	z = cexp(x + 0.5 * I); mixd(creal(z)); mixd(cimag(z));
	z = cpow(z, 1.5 + 0.25 * I); mixd(creal(z)); mixd(cimag(z));
	q = lldiv(1000003LL * (round + 3), P_K2 + 2); mixu(q.quot); mixu(q.rem);
	mixd(strtod("1e-3", &end)); mixd(atof("6.25")); mixd((double)lrint(x * 10));
	mixd(fp_leaf(x, 0.1f, 1) / 3.0); /* rounding mode must survive the traced calls */
	printf("fplib round %d mode %d inexact=%d H=%016lx\n", round, v & 3, !!fetestexcept(FE_INEXACT),
	       (unsigned long)c01_h);
	feclearexcept(FE_ALL_EXCEPT);
	fp_work(round);
	ex = fetestexcept(FE_DIVBYZERO | FE_INVALID | FE_OVERFLOW);
	errno = 0;
	ip = log(-1.0 - round);
	printf("log(neg) nan=%d %s invalid=%d before=%d round=%d\n", ip != ip, ename(errno), !!fetestexcept(FE_INVALID),
	       ex, fegetround() == rm[v & 3]);
	errno = 0;
	ip = strtod("1e999", &end);
	printf("strtod overflow inf=%d %s\n", isinf(ip), ename(errno));
	fesetround(FE_TONEAREST);
	return (long)q.rem;
}

/* ------------------------------------------------------------------ deep recursion, tail calls, indirect calls */
NI static long rec(int n, double acc)
{
	volatile double a = acc + n * 0.5;
	if (n <= 0)
		return (long)a;
	return rec(n - 1, a) + (n & 1);
}
NI static long tail_b(long x, int n);
NI static long tail_a(long x, int n) { return n <= 0 ? x : tail_b(x * 3 + 1, n - 1); }
NI static long tail_b(long x, int n) { return n <= 0 ? x : tail_a(x ^ 0x55, n - 1); }
NI static long deep_body(int v, int round)
{
	long (*fp[2])(long, int) = { tail_a, tail_b };
	long r = rec(v ? v * 20 : 40, round * 0.25);
	char *buf = __builtin_alloca(64 + (round & 3) * 16);
	r += fp[round & 1](r, 9 + v);
	snprintf(buf, 64, "deep %ld", r);
	printf("%s\n", buf);
	fp_work(round);
	return r;
}

/* ------------------------------------------------------------------ user-level context switches */
static ucontext_t uc_main, uc_co;
static int co_state;
NI static long co_step(int i)
{
	long r = fp_work(i);
	co_state = i;
	swapcontext(&uc_co, &uc_main); /* leave in the middle of an instrumented call */
	return r + co_state;
}
NI static void co_entry(void)
{
	for (int i = 1; i <= 3; i++)
		printf("co step %d -> %ld\n", i, co_step(i) & 0xff);
	co_state = -1;
}
NI static long uctx_body(int v, int round)
{
	static char stack[1 << 16];
	getcontext(&uc_co);
	uc_co.uc_stack.ss_sp = stack;
	uc_co.uc_stack.ss_size = sizeof(stack);
	uc_co.uc_link = &uc_main;
	makecontext(&uc_co, co_entry, 0);
	co_state = 0;
	while (co_state >= 0) {
		swapcontext(&uc_main, &uc_co);
		printf("main sees state %d r=%ld\n", co_state, fp_work(co_state + round) & 0xff);
	}
	return round;
}

/* ------------------------------------------------------------------ driver */
static const struct sc {
	const char *name;
	body_fn body;
} SC[] = {
	{ "lj", lj_body }, { "cb", cb_body }, { "sig", sig_body }, { "async", async_body },
	{ "vfork", vfork_body }, { "fork", fork_body }, { "daemon", daemon_body }, { "spawn", spawn_body },
	{ "pth", pth_body }, { "exit", exit_body }, { "fd", fd_body }, { "dl", dl_body }, { "bt", bt_body },
	{ "fplib", fplib_body }, { "deep", deep_body }, { "uctx", uctx_body }, { "stdio", stdio_body },
};

NI static long run_rounds(const struct sc *sc, int v, int depth, int rounds)
{
	long ret = 0;
	for (int r = 0; r < rounds; r++)
		ret += down(depth, sc->body, v, r);
	return ret;
}

int main(int argc, char **argv)
{
	const struct sc *sc = NULL;
	long ret;
	setvbuf(stdout, NULL, _IOLBF, 0);
	self_path = argv[0];
	if (argc >= 4 && !strcmp(argv[1], "child"))
		return child_main(argc, argv);
	if (argc < 5) {
		fprintf(stderr, "usage: %s <scenario> <variant> <depth> <rounds>\n", argv[0]);
		return 2;
	}
	for (unsigned i = 0; i < sizeof(SC) / sizeof(SC[0]); i++)
		if (!strcmp(SC[i].name, argv[1]))
			sc = &SC[i];
	if (!sc)
		return 2;
	g_depth = atoi(argv[3]);
	g_rounds = atoi(argv[4]);
	ret = run_rounds(sc, atoi(argv[2]), g_depth, g_rounds);
	printf("%s%s ret=%ld H=%016lx\n", is_child ? "child " : "", sc->name, ret, (unsigned long)c01_h);
	return is_child ? P_EXIT + 9 : (int)(P_EXIT_MAIN);
}
