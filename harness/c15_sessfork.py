"""C15, family "sessions over time and forks from threads" (H3, synthesized data directories).

Two classes of directories lib/datadir.py does not produce:
  * exec chains: one task has two or three sessions over time (SESS lines with the same pid, one map / symbol
    file per session, symbol tables that give different names to the same addresses); the last record of a
    session is the ENTRY of an exec*() function, the next session starts again at depth 0;
  * multi-threaded processes whose secondary thread (tid != pid) calls fork(): the FORK line of the child names
    the process (ppid = pid of the threads), the child's first record is the EXIT of fork().
Monitors (independent aggregation, no Lean model involved):
  `uftrace graph -f total,self`: per session one graph whose call paths, call counts and times are those of the
  session's records (calls abandoned by an exec are counted, no time); a forked child's calls stand below the
  caller of its fork() with the trace's counts;
  `dump --flame-graph / --graphviz / --mermaid`: the existing monitors of checks/c15.py on the directory read as
  one sequence per task, names taken from the session the record belongs to.
The functions take the module checks/c15.py as `K` (its parsers and monitors are reused).
"""
import os
import random
import shutil
import struct
from collections import Counter, OrderedDict

from lib import datadir as DD

EXECS = [b"execl", b"execlp", b"execle", b"execv", b"execve", b"execvp", b"execvpe"]
FORKS = [b"fork", b"vfork"]
WORDS = [b"main", b"foo", b"bar", b"baz", b"run", b"step", b"init", b"loop", b"parse", b"emit", b"ns::K::m", b"a.b"]


class MDir:
    """sessions: [{"sid", "time", "exe", "names"}] (names: symidx -> bytes, address BASE + 0x100 * (symidx + 1));
    tasks: [{"tid", "pid", "ppid" (of a forked child, else None), "start"}];
    recs: time ordered (kind 'E'|'X', tid, symidx, time, depth)"""

    def __init__(self, sessions, tasks, recs, desc="", family=""):
        self.sessions, self.tasks, self.recs, self.desc, self.family = sessions, tasks, recs, desc, family

    def to_json(self):
        return {"sessfork": True, "family": self.family, "desc": self.desc, "tasks": self.tasks, "recs": self.recs,
                "sessions": [{"sid": s["sid"], "time": s["time"], "exe": s["exe"].hex(), "names": [n.hex() for n in s["names"]]}
                             for s in self.sessions]}

    @staticmethod
    def from_json(j):
        return MDir([{"sid": s["sid"], "time": s["time"], "exe": bytes.fromhex(s["exe"]),
                      "names": [bytes.fromhex(n) for n in s["names"]]} for s in j["sessions"]],
                    j["tasks"], [tuple(r) for r in j["recs"]], j.get("desc", ""), j.get("family", ""))

    def sess_at(self, t):
        """index of the session a record stamped t belongs to (all sessions are of the first process; forked
        children have none of their own and use their parent's)"""
        k = 0
        for i, s in enumerate(self.sessions):
            if s["time"] <= t:
                k = i
        return k

    def name_of(self, r):
        names = self.sessions[self.sess_at(r[3])]["names"]
        return names[r[2]] if r[2] < len(names) else b"<%x>" % (DD.BASE + 0x100 * (r[2] + 1))

    def write(self, K, d):
        s0 = self.sessions[0]
        nsym = max(len(s["names"]) for s in self.sessions)
        per = OrderedDict((t["tid"], []) for t in self.tasks)
        for kind, tid, s, t, depth in self.recs:
            per[tid].append(DD.Rec(t, kind, depth, DD.BASE + 0x100 * (s + 1)))
        tasks = [DD.Task(t["tid"], per[t["tid"]], pid=t["pid"]) for t in self.tasks]
        dd = K.Dir([(0x100 * (i + 1), 0x80, K.s2(n)) for i, n in enumerate(s0["names"])], tasks, exename=K.s2(s0["exe"]),
                   record_date=False)
        files = {k: v for k, v in dd.files().items() if k == "info" or k.endswith(".dat")}
        lines = []
        ev = [(s["time"], 0, i) for i, s in enumerate(self.sessions)] + [(t["start"], 1, i) for i, t in enumerate(self.tasks)]
        first = self.tasks[0]
        for _, what, i in sorted(ev):
            if what == 0:
                s = self.sessions[i]
                lines.append(b'SESS timestamp=%s pid=%d sid=%s exename="%s"' % (DD.ts(s["time"]).encode(), first["pid"],
                                                                                  s["sid"].encode(), s["exe"]))
                if i > 0:      # the recorder writes the task again after an exec
                    lines.append(b"TASK timestamp=%s tid=%d pid=%d" % (DD.ts(s["time"] + 1).encode(), first["tid"], first["pid"]))
            else:
                t = self.tasks[i]
                if t["ppid"] is not None:
                    lines.append(b"FORK timestamp=%s pid=%d ppid=%d" % (DD.ts(t["start"]).encode(), t["tid"], t["ppid"]))
                else:
                    lines.append(b"TASK timestamp=%s tid=%d pid=%d" % (DD.ts(t["start"]).encode(), t["tid"], t["pid"]))
        files["task.txt"] = b"\n".join(lines) + b"\n"
        end = (DD.BASE + 0x100 * (nsym + 2) + 0xfff) & ~0xfff
        for s in self.sessions:
            files["sid-%s.map" % s["sid"]] = (b"%x-%x r-xp 00000000 00:00 0                          %s\n"
                                               b"7ffd00000000-7ffd00021000 rw-p 00000000 00:00 0                          [stack]\n"
                                               % (DD.BASE, end, s["exe"]))
            sym = [b"# symbols: %d" % len(s["names"]), b"# path name: " + s["exe"], b"# build-id: "]
            sym += [b"%016x %08x T %s" % (0x100 * (i + 1), 0x80, n) for i, n in enumerate(s["names"])]
            files[K.s2(s["exe"].rsplit(b"/", 1)[-1]) + ".sym"] = b"\n".join(sym) + b"\n"
        shutil.rmtree(d, ignore_errors=True)
        os.makedirs(d)
        for n, b in files.items():
            with open(os.path.join(d.encode(), n.encode("utf-8", "surrogateescape")), "wb") as f:
                f.write(b)

    # ---- the directory as the dump exporters read it: one sequence per task, names of the record's session
    def dump_view(self, K):
        names, idx, recs = [], {}, []
        started = set()
        for r in self.recs:
            kind, tid, s, t, depth = r
            if kind == "X" and tid not in started:
                started.add(tid)
                continue                      # a forked child's return from fork(): nothing is open in its trie
            started.add(tid)
            n = self.name_of(r)
            if n not in idx:
                idx[n] = len(names)
                names.append(n)
            recs.append((kind, tid, idx[n], t))
        return K.Trace(names, [(t["tid"], t["pid"]) for t in self.tasks], recs, exename=self.sessions[0]["exe"], desc=self.desc)


# ---------------------------------------------------------------------------
# reference: what `uftrace graph` has to show, per session
def graph_reference(md):
    """-> [per session: OrderedDict path -> [calls, total, self, timed]] ; timed False: the node's time is not
    determined by the trace (the fork() a child returned from)"""
    ns = len(md.sessions)
    agg = [OrderedDict() for _ in range(ns)]
    stack = {t["tid"]: [] for t in md.tasks}      # entries: dict(path, t0, kid, sess)
    last = {}
    forks = []                                    # (pid of the forking process, path of fork(), session) latest last
    tinfo = {t["tid"]: t for t in md.tasks}
    prefix = {}                                   # tid of a forked child -> (path of the caller of fork, session)

    def node(k, path):
        return agg[k].setdefault(path, [0, 0, 0, True])

    def close(e, t1):
        a = node(e["sess"], e["path"])
        dur = t1 - e["t0"]
        a[1] += dur
        a[2] += dur - e["kid"]
        return dur

    for r in md.recs:
        kind, tid, s, t, depth = r
        k = md.sess_at(t)
        name = md.name_of(r)
        last[tid] = t
        st = stack[tid]
        if kind == "E":
            if st and st[-1]["sess"] != k:
                st.clear()                         # exec: the old program's calls are gone
            base = st[-1]["path"] if st else prefix.get(tid, ((), k))[0]
            path = base + (name,)
            node(k, path)[0] += 1
            st.append({"path": path, "t0": t, "kid": 0, "sess": k})
            if name in FORKS:
                forks.append((tinfo[tid]["pid"], path, k))
        else:
            if not st and tinfo[tid]["ppid"] is not None and tid not in prefix:
                # the child's return from fork(): below the latest fork() node of its parent process
                for i in range(len(forks) - 1, -1, -1):
                    if forks[i][0] == tinfo[tid]["ppid"] and forks[i][1][-1] == name:
                        node(forks[i][2], forks[i][1])[3] = False
                        prefix[tid] = (forks[i][1][:-1], forks[i][2])
                        del forks[i]
                        break
                continue
            e = st.pop()
            dur = close(e, t)
            if st:
                st[-1]["kid"] += dur
    for tid, st in stack.items():
        while st:
            e = st.pop()
            dur = close(e, last[tid])
            if st:
                st[-1]["kid"] += dur
    return agg


def split_graphs(out):
    """`uftrace graph` output -> {session id: text of that graph}"""
    res, cur = OrderedDict(), None
    for line in out.split(b"\n"):
        if line.startswith(b"# Function Call Graph for "):
            cur = line.rsplit(b"(session: ", 1)[-1].rstrip(b")").decode("latin-1")
            res[cur] = []
        elif cur is not None:
            res[cur].append(line)
    return {k: b"\n".join(v) for k, v in res.items()}


def mon_graph_sessions(K, md, out):
    want = graph_reference(md)
    graphs = split_graphs(out)
    for k, s in enumerate(md.sessions):
        agg = want[k]
        txt = graphs.get(s["sid"])
        if txt is None:
            if agg:
                return "graph: no call graph for session %d (%s) although %d call paths belong to it" % (k, s["sid"], len(agg))
            continue
        nodes = K.parse_graph(txt)
        if isinstance(nodes, str):
            return "graph of session %d: %s" % (k, nodes)
        root = s["exe"].rsplit(b"/", 1)[-1]
        got = {}
        for path, n, f1, f2 in nodes[1:]:
            if path[0] != root or path[1:] in got:
                return "graph of session %d: duplicate or misplaced node %r" % (k, path)
            got[path[1:]] = (n, f1, f2)
        if nodes and nodes[0][0] != (root,):
            return "graph of session %d: root is %r, executable is %r" % (k, nodes[0][0], root)
        if set(got) != set(agg):
            miss, extra = sorted(set(agg) - set(got))[:2], sorted(set(got) - set(agg))[:2]
            return "graph of session %d (%s): call paths of the trace missing in the graph %r, shown without a call in the trace %r" % (
                k, root.decode("latin-1"), miss, extra)
        for p_, (n, tot, slf, timed) in agg.items():
            gn, f1, f2 = got[p_]
            if gn != n:
                return "graph of session %d: %r has %d calls in the trace, shown %d" % (k, p_, n, gn)
            if not timed:
                continue
            for what, val, f in (("total", tot, f1), ("self", slf, f2)):
                iv = K.field_interval(f)
                if iv is None or not (iv[0] <= val < iv[1]):
                    return "graph of session %d: %s time of %r is %d ns, shown as %r" % (k, what, p_, val, f.decode("latin-1"))
    extra = set(graphs) - {s["sid"] for s in md.sessions}
    if extra:
        return "graph: call graph for unknown session(s) %r" % sorted(extra)
    return None


# ---------------------------------------------------------------------------
# generators
def _names(rng, n, tag, special):
    out = []
    for i in range(n):
        w = rng.choice(WORDS)
        out.append(w if (i == 0 and rng.random() < 0.5) else w + b"_%s%d" % (tag, i))
    out[0] = b"main"
    pos = rng.sample(range(1, n), len(special))
    for p, sp in zip(pos, special):
        out[p] = sp
    return out, pos


def _calls(rng, t, tid, syms, n, depth0, maxdepth, step, out, leave_open=False):
    """random nested calls appended to out; -> (time, stack of symidx left open)"""
    st = []
    for _ in range(n):
        if st and (len(st) + depth0 >= maxdepth or rng.random() < 0.45):
            t += step()
            out.append(("X", tid, st.pop(), t, depth0 + len(st)))
        else:
            t += step()
            s = rng.choice(syms)
            out.append(("E", tid, s, t, depth0 + len(st)))
            st.append(s)
    if not leave_open:
        while st:
            t += step()
            out.append(("X", tid, st.pop(), t, depth0 + len(st)))
    return t, st


def gen_exec(rng, quick=True):
    """an exec chain: the task has 2..3 sessions, each with its own executable and symbol table"""
    nsess = rng.choice([2, 2, 3])
    pid = rng.choice([100, 4242, 31000])
    step = lambda: rng.choice([1, 7, 40, 333, 1000, 2500])
    sessions, recs = [], []
    t = 1000
    other = rng.random() < 0.4                      # a second thread of the first program (gone with the exec)
    for k in range(nsess):
        n = rng.randint(4, 8)
        names, pos = _names(rng, n, b"p%d" % k, [rng.choice(EXECS)] if k < nsess - 1 else [])
        sid = "%016x" % rng.getrandbits(64)
        sessions.append({"sid": sid, "time": t, "exe": b"/synth/prog%d" % k + rng.choice([b"", b".bin", b"-x"]), "names": names})
        t += 10
        plain = [i for i in range(1, n) if i not in pos]
        recs.append(("E", pid, 0, t + step(), 0))
        t = recs[-1][3]
        if k == 0 and other:
            t2, _ = _calls(rng, t, pid + 1, plain, rng.randint(2, 8), 0, 4, step, recs)
            t = max(t, t2)
        t, _ = _calls(rng, t, pid, plain, rng.randint(0, 10), 1, 5, step, recs)
        if k < nsess - 1:
            # the path the exec is made from
            d = 1
            for _ in range(rng.randint(0, 2)):
                t += step()
                recs.append(("E", pid, rng.choice(plain), t, d))
                d += 1
            t += step()
            recs.append(("E", pid, pos[0], t, d))
            t += rng.choice([50, 1000, 20000])
        else:
            if rng.random() < 0.7:
                t += step()
                recs.append(("X", pid, 0, t, 0))
    tasks = [{"tid": pid, "pid": pid, "ppid": None, "start": 1001}]
    if other:
        tasks.append({"tid": pid + 1, "pid": pid, "ppid": None, "start": 1002})
    recs.sort(key=lambda r: r[3])
    return MDir(sessions, tasks, recs, desc="exec chain of %d programs%s" % (nsess, ", second thread before the exec" if other else ""),
                family="exec")


def gen_threadfork(rng, quick=True):
    """a process with threads; forks are made by secondary threads (and sometimes by the main thread)"""
    pid = rng.choice([100, 4242, 31000])
    step = lambda: rng.choice([1, 7, 40, 333, 1000, 2500])
    n = rng.randint(6, 10)
    names, pos = _names(rng, n, b"f", [rng.choice(FORKS)])
    fk = pos[0]
    plain = [i for i in range(1, n) if i != fk]
    recs = []
    nthr = rng.randint(1, 3)
    tasks = [{"tid": pid, "pid": pid, "ppid": None, "start": 1001}]
    t = 1100
    recs.append(("E", pid, 0, t, 0))
    t, _ = _calls(rng, t, pid, plain, rng.randint(0, 6), 1, 4, step, recs)
    nchild = 0
    used_paths = set()
    forkers = [pid + 1 + i for i in range(nthr)] + ([pid] if rng.random() < 0.3 else [])
    for j in range(nthr):
        tasks.append({"tid": pid + 1 + j, "pid": pid, "ppid": None, "start": t + 1})
    rng.shuffle(forkers)
    opened = {}
    for tid in forkers:
        # the thread's calls, then the path to its fork()
        d0 = 1 if tid == pid else 0
        t, _ = _calls(rng, t, tid, plain, rng.randint(0, 6), d0, d0 + 3, step, recs)
        path = []
        for _ in range(20):
            path = [rng.choice(plain) for _ in range(rng.randint(0 if tid == pid else 1, 3))]
            key = (tid == pid, tuple(names[x] for x in path))
            if key not in used_paths:
                used_paths.add(key)
                break
        else:
            continue
        d = d0
        for s in path:
            t += step()
            recs.append(("E", tid, s, t, d))
            d += 1
        t += step()
        recs.append(("E", tid, fk, t, d))
        tf = t
        nchild += 1
        cid = pid + 50 + nchild
        tasks.append({"tid": cid, "pid": cid, "ppid": pid, "start": tf + 1})
        # the child returns from fork() and goes on below the caller
        t += 5
        recs.append(("X", cid, fk, t, d))
        t, left = _calls(rng, t, cid, plain, rng.randint(1, 8), d, d + 3, step, recs, leave_open=rng.random() < 0.3)
        # the parent returns from fork() and goes on
        t += step()
        recs.append(("X", tid, fk, t, d))
        t, _ = _calls(rng, t, tid, plain, rng.randint(0, 4), d, d + 2, step, recs)
        for s in reversed(path):
            d -= 1
            t += step()
            recs.append(("X", tid, s, t, d))
    if rng.random() < 0.7:
        t += step()
        recs.append(("X", pid, 0, t, 0))
    recs.sort(key=lambda r: r[3])
    sessions = [{"sid": "%016x" % rng.getrandbits(64), "time": 1000, "exe": b"/synth/mt" + rng.choice([b"", b"-prog"]), "names": names}]
    return MDir(sessions, tasks, recs, desc="%d threads, %d forked children (forks by tids %s of pid %d)" % (nthr, nchild, forkers, pid),
                family="threadfork")


def directed():
    """the two shapes as small fixed directories"""
    A = {"sid": "00000000000000a1", "time": 1000, "exe": b"/synth/before", "names": [b"main", b"prep", b"execv", b"util"]}
    B = {"sid": "00000000000000b2", "time": 5000, "exe": b"/synth/after", "names": [b"main", b"top", b"mid", b"leaf", b"extra"]}
    r = [("E", 100, 0, 1100, 0), ("E", 100, 1, 1200, 1), ("E", 100, 3, 1300, 2), ("X", 100, 3, 1400, 2), ("X", 100, 1, 1500, 1),
         ("E", 100, 2, 1600, 1),
         ("E", 100, 0, 5100, 0), ("E", 100, 1, 5200, 1), ("E", 100, 2, 5300, 2), ("E", 100, 3, 5400, 3), ("X", 100, 3, 5500, 3),
         ("E", 100, 3, 5600, 3), ("X", 100, 3, 5700, 3), ("X", 100, 2, 5800, 2), ("E", 100, 4, 5850, 2), ("X", 100, 4, 5900, 2),
         ("X", 100, 1, 6000, 1), ("X", 100, 0, 6100, 0)]
    out = [MDir([A, B], [{"tid": 100, "pid": 100, "ppid": None, "start": 1001}], r, "directed: main{prep{util} execv} -> main{top{mid{leaf leaf} extra}}", "exec")]
    N = {"sid": "00000000000000c3", "time": 1000, "exe": b"/synth/mt", "names": [b"main", b"worker", b"spawn", b"fork", b"child_work", b"child_leaf", b"join"]}
    r = [("E", 100, 0, 1100, 0), ("E", 100, 6, 1200, 1),
         ("E", 101, 1, 1300, 0), ("E", 101, 2, 1400, 1), ("E", 101, 3, 1500, 2),
         ("X", 150, 3, 1600, 2), ("E", 150, 4, 1700, 2), ("E", 150, 5, 1800, 3), ("X", 150, 5, 1900, 3), ("E", 150, 5, 2000, 3),
         ("X", 150, 5, 2100, 3), ("X", 150, 4, 2200, 2),
         ("X", 101, 3, 2300, 2), ("X", 101, 2, 2400, 1), ("X", 101, 1, 2500, 0), ("X", 100, 6, 2600, 1), ("X", 100, 0, 2700, 0)]
    tasks = [{"tid": 100, "pid": 100, "ppid": None, "start": 1001}, {"tid": 101, "pid": 100, "ppid": None, "start": 1250},
             {"tid": 150, "pid": 150, "ppid": 100, "start": 1550}]
    out.append(MDir([N], tasks, r, "directed: worker thread 101 of pid 100 forks 150: spawn{fork} / child_work{child_leaf x2}", "threadfork"))
    return out


MODES = [("graph", "graph", ["-f", "total,self"]), ("flame0", "dump", ["--flame-graph"]), ("graphviz", "dump", ["--graphviz"]),
         ("mermaid", "dump", ["--mermaid"])]


def run_family(K, ctx, uftrace, report, stats, only=None):
    import concurrent.futures
    if only is not None:
        dirs = [only]
    else:
        rng = random.Random("C15-sessfork-%d" % ctx.seed)
        dirs = directed()
        cdir = os.path.join(K.C.VERIF, "corpus", "C15", "sessfork")
        if os.path.isdir(cdir):
            import json
            for f in sorted(os.listdir(cdir)):
                if f.endswith(".json"):
                    dirs.append(MDir.from_json(json.load(open(os.path.join(cdir, f)))))
        n = 12 if ctx.tier == "quick" else 300
        for i in range(n):
            dirs.append(gen_exec(rng))
            dirs.append(gen_threadfork(rng))
    root = os.path.join(ctx.scratch, "sf")
    jobs = []
    for i, md in enumerate(dirs):
        d = os.path.join(root, "m%d" % i)
        md.write(K, d)
        for mode, cmd, args in MODES:
            jobs.append((i, mode, d, cmd, args))
    with concurrent.futures.ThreadPoolExecutor(max_workers=min(12, os.cpu_count() or 4)) as ex:
        results = list(ex.map(lambda j: K.run_uf(uftrace, j[3], j[2], j[4]), jobs))
    for (i, mode, d, cmd, args), (rc, out, errtxt) in zip(jobs, results):
        md = dirs[i]
        stats["sessfork_runs"] += 1
        san = "AddressSanitizer" in errtxt or "runtime error" in errtxt
        if rc != 0 or san:
            bad = "%s failed: rc=%d %s" % (mode, rc, errtxt[:200])
        elif mode == "graph":
            bad = mon_graph_sessions(K, md, out)
        else:
            v = md.dump_view(K)
            bad = {"flame0": lambda: K.mon_flame(v, out, 0), "graphviz": lambda: K.mon_graphviz(v, out),
                   "mermaid": lambda: K.mon_mermaid(v, out)}[mode]()
        if bad:
            report("sessfork-%s-m%d-%s" % (md.family, i, mode),
                   {"kind": "property-violated-on-implementation", "what": bad, "sessfork": md.to_json(), "mode": mode,
                    "cmd": [cmd] + args, "rc": rc, "stderr": errtxt[:400], "impl_output": out[:3000].decode("latin-1"),
                    "theorem": "c15_path_count_time, c15_edge_counts (monitor only: per-session aggregation is not in the Lean model)"})
    stats["sessfork_dirs"] += len(dirs)
    stats["sessfork_dirs_exec_chain"] += sum(1 for m in dirs if m.family == "exec")
    stats["sessfork_dirs_thread_fork"] += sum(1 for m in dirs if m.family == "threadfork")
    stats["sessfork_sessions"] += sum(len(m.sessions) for m in dirs)
    stats["sessfork_forks_by_secondary_thread"] += sum(
        1 for m in dirs for r in m.recs if r[0] == "E" and m.name_of(r) in FORKS and any(t["tid"] == r[1] and t["tid"] != t["pid"] for t in m.tasks))
