"""C19 / H5: generator of small Python PROJECTS (not single files) for the end-to-end family of
checks/c19.py.  A project is a directory with

    main.py            the script (shebang, executable); imports its neighbours
    helper.py          a sibling module: plain functions, a class (its body runs at import), C calls
    rules.py           a sibling module that makes functions at run time with compile()/exec()/eval()
                       and drops them again (code objects die and their addresses are handed out again)
    pkg/__init__.py    a package next to the script
    pkg/core.py        closures, generators, recursion, exceptions, classes made inside functions
    pkg/shapes.py      namedtuple / dataclass style code generation (optional)

Every program is deterministic, prints what it computes, and ends in one of: falling off the end,
sys.exit(n), os._exit(n) (stdout flushed), an uncaught exception.  Nothing here knows anything about
uftrace; the ground truth of a run comes from harness/c19_projlog.py (sys.setprofile in an untraced
run of the same program)."""

HELPER = '''import os

CALLS = []


def leaf(x):
    return x + 1


def twice(x):
    return leaf(leaf(x))


def pid_ok():
    return os.getpid() > 0


def size(s):
    return len(s)


class Acc:
    """the class body is a code object of its own: it runs (and dies) at import"""
    kind = "acc"
    table = [i * i for i in range(3)]

    def __init__(self, start):
        self.total = start

    def add(self, x):
        self.total += leaf(x)
        return self

    @staticmethod
    def make(n):
        return Acc(n)

    @property
    def value(self):
        return self.total


def fold(xs):
    a = Acc.make(0)
    for x in xs:
        a.add(x)
    return a.value
'''

RULES = '''import os
import helper

HERE = __file__.rpartition("/")[0]       # the directory this module was imported from


def make_rule(i, inside):
    """a function compiled from a string: its code object lives as long as the function"""
    src = "def rule_%d(x):\\n    return helper.leaf(x) * %d\\n" % (i, i + 1)
    fname = os.path.join(HERE, "generated_rules.py") if inside else "<rule>"
    ns = {"helper": helper, "__name__": "rules"}
    exec(compile(src, fname, "exec"), ns)
    return ns["rule_%d" % i]


def run_rules(n, inside):
    total = 0
    for i in range(n):
        f = make_rule(i, inside)      # the previous rule (and its code object) is dropped here
        total += f(i)
    return total


def run_lambdas(n):
    total = 0
    for i in range(n):
        f = eval("lambda v: v + %d" % i, {"__name__": "rules"})
        total += f(i)
        del f
    return total


def kept_rules(n, inside):
    """the same, but all of them stay alive: no address can be handed out twice"""
    fs = [make_rule(100 + i, inside) for i in range(n)]
    return sum(f(1) for f in fs)


def class_factory(n):
    out = []
    for i in range(n):
        ns = {"__name__": "rules"}
        exec("class Gen%d:\\n    tag = %d\\n    def get(self):\\n        return self.tag\\n" % (i, i), ns)
        out.append(ns["Gen%d" % i]().get())
    return out
'''

PKG_INIT = '''def setup(n):
    return [n, n + 1]


VERSION = setup(1)
'''

CORE = '''import os


def countdown(n):
    while n > 0:
        yield n
        n -= 1


def total(n):
    return sum(v for v in countdown(n))


def fact(n):
    if n <= 1:
        return 1
    return n * fact(n - 1)


def thrower(msg):
    raise ValueError(msg)


def middle(msg):
    thrower(msg)
    return "not reached"


def guarded(msg):
    try:
        middle(msg)
    except ValueError as e:
        return str(e)


def c_error():
    try:
        int("zz")
    except ValueError:
        return -1


def adder(k):
    def add(x):
        return x + k
    return add


def local_class(v):
    class Box:
        def __init__(self):
            self.v = v

        def get(self):
            return self.v
    return Box().get()


def ordered(xs):
    return sorted(xs, key=lambda t: -t)


def joined():
    return os.path.join("a", "b")
'''

SHAPES_NT = '''from collections import namedtuple


def points(n):
    """namedtuple() generates its __new__ with eval(): code made and kept by the library"""
    out = []
    for i in range(n):
        P = namedtuple("P%d" % i, "x y")
        p = P(i, i + 1)
        out.append(p._replace(x=7).x + p.y)
    return out
'''

SHAPES_DC = '''import dataclasses


def records(n):
    """dataclass() generates __init__/__repr__/__eq__ with exec()"""
    out = []
    for i in range(n):
        R = dataclasses.make_dataclass("R%d" % i, [("a", int), ("b", int, dataclasses.field(default=2))])
        r = R(i)
        out.append((r.a + r.b, r == R(i), repr(r)))
    return out
'''

EXITS = ["none", "none", "none", "sys.exit", "sys.exit", "os._exit", "raise"]


def gen_project(rng, idx, want=None):
    """-> {"files": {relpath: text}, "features": [...], "exit": mode, "heavy": bool}
    `want`: features that must be present (the check spreads them over the projects)"""
    want = set(want or ())
    feats = set(want)
    for f, p in (("rules-drop", 0.55), ("rules-inside", 0.5), ("rules-kept", 0.3), ("lambdas", 0.4),
                 ("classgen", 0.35), ("namedtuple", 0.3), ("pkg", 0.8), ("helper-class", 0.6),
                 ("generator", 0.5), ("exception", 0.5), ("closure", 0.5), ("local-class", 0.4),
                 ("recursion", 0.4), ("pylib", 0.3)):
        if rng.random() < p:
            feats.add(f)
    if "dataclass" in want:
        feats.add("dataclass")
    exit_mode = rng.choice(EXITS)
    files = {"helper.py": HELPER, "rules.py": RULES, "pkg/__init__.py": PKG_INIT, "pkg/core.py": CORE}
    main = ["#!/usr/bin/env python3", "import os", "import sys", "import helper"]
    uses_rules = feats & {"rules-drop", "rules-kept", "lambdas", "classgen"}
    if uses_rules:
        main.append("import rules")
    if "pkg" in feats or feats & {"generator", "exception", "closure", "local-class", "recursion", "pylib"}:
        main.append("from pkg import core")
        main.append("import pkg")
    if "namedtuple" in feats:
        files["pkg/shapes.py"] = SHAPES_NT
        main.append("from pkg import shapes")
    if "dataclass" in feats:
        files["pkg/records.py"] = SHAPES_DC
        main.append("from pkg import records")
    main += ["", "", "def show(tag, v):", "    print(tag, v)", "    return v", ""]
    body = []
    inside = "rules-inside" in feats
    n = rng.randint(6, 18)
    steps = []
    steps.append("show('twice', helper.twice(%d))" % rng.randint(0, 9))
    if "helper-class" in feats:
        steps.append("show('fold', helper.fold([%s]))" % ", ".join(str(rng.randint(0, 5)) for _ in range(rng.randint(1, 4))))
    if rng.random() < 0.5:
        steps.append("show('pid', helper.pid_ok())")
    if "rules-drop" in feats:
        steps.append("show('rules', rules.run_rules(%d, %s))" % (n, inside))
    if "rules-kept" in feats:
        steps.append("show('kept', rules.kept_rules(%d, %s))" % (rng.randint(2, 5), inside))
    if "lambdas" in feats:
        steps.append("show('lambdas', rules.run_lambdas(%d))" % rng.randint(4, 12))
    if "classgen" in feats:
        steps.append("show('classes', rules.class_factory(%d))" % rng.randint(2, 6))
    if "generator" in feats:
        steps.append("show('total', core.total(%d))" % rng.randint(1, 4))
    if "recursion" in feats:
        steps.append("show('fact', core.fact(%d))" % rng.randint(1, 5))
    if "exception" in feats:
        steps.append("show('guarded', core.guarded('m%d'))" % idx)
        steps.append("show('cerr', core.c_error())")
    if "closure" in feats:
        steps.append("show('adder', core.adder(%d)(%d))" % (rng.randint(1, 5), rng.randint(1, 5)))
        steps.append("show('ordered', core.ordered([3, 1, 2]))")
    if "local-class" in feats:
        steps.append("show('box', [core.local_class(i) for i in range(%d)])" % rng.randint(1, 4))
    if "pylib" in feats:
        steps.append("show('joined', core.joined())")
    if "pkg" in feats:
        steps.append("show('setup', pkg.setup(%d))" % rng.randint(0, 9))
    if "namedtuple" in feats:
        steps.append("show('points', shapes.points(%d))" % rng.randint(1, 3))
    if "dataclass" in feats:
        steps.append("show('records', records.records(%d))" % rng.randint(1, 2))
    rng.shuffle(steps)
    # two program-level functions that group the steps, so that -F/-N have something to select
    half = len(steps) // 2
    body += ["def first_part():"] + ["    " + s for s in steps[:half] or ["pass"]] + ["    return %d" % idx, ""]
    body += ["def second_part():"] + ["    " + s for s in steps[half:] or ["pass"]] + ["    return len('%s')" % ("x" * (idx % 5)), ""]
    body += ["def work():", "    a = first_part()", "    b = second_part()", "    return a + b", "", ""]
    main += body
    main += ["show('work', work())"]
    if rng.random() < 0.4:
        main += ["show('again', second_part())"]
    main += ["print('done')"]
    rc = 0
    if exit_mode == "sys.exit":
        rc = rng.choice([0, 3, 7])
        main.append("sys.exit(%d)" % rc)
    elif exit_mode == "os._exit":
        rc = rng.choice([0, 4])
        main += ["sys.stdout.flush()", "os._exit(%d)" % rc]
    elif exit_mode == "raise":
        rc = 1
        main.append("core.thrower('uncaught')" if any(l == "from pkg import core" for l in main) else "raise KeyError('uncaught')")
    files["main.py"] = "\n".join(main) + "\n"
    return {"files": files, "features": sorted(feats), "exit": exit_mode, "rc": rc,
            "heavy": "dataclass" in feats}


# functions of the generated projects that -F / -N selections name (anchored regex: libmcount applies
# UFTRACE_FILTER to the interpreter's native symbols as well)
FILTER_POOL = [
    [], [], [],
    ["-F", "^work$"], ["-F", "^first_part$"], ["-F", "^second_part$"], ["-N", "^show$"],
    ["-N", "^second_part$"], ["-F", "^work$", "-N", "^first_part$"],
    ["-F", "^helper\\.twice$"], ["-N", "^helper\\.leaf$"], ["-F", "^rules\\.run_rules$"],
    ["-N", "^rules\\.make_rule$"], ["-F", "^rules\\.rule_3$"], ["-N", "^rules\\.rule_2$"],
    ["-F", "^second_part$", "-N", "^builtins\\.print$"], ["-N", "^pkg\\.core\\."], ["-F", "^pkg\\.core\\.fact$"],
    ["-F", "^helper\\.Acc\\.add$"], ["-N", "^builtins\\.exec$"], ["-F", "^rules\\.", "-N", "^helper\\.leaf$"],
]


# ---------------------------------------------------------------- projects that fork
# The processes of one run share nothing but what they inherited: a function that is called for the
# first time in a forked child (after the parent has exited, or while it waits) is as much a call of the
# script as any other.  Variants: the parent waits / the parent exits first (daemon style: the child
# blocks on a pipe until the parent is gone) / double fork (the middle process exits at once, the
# grandchild goes on after both are gone) / multiprocessing.Process (fork start method).
FORK_VARIANTS = ["wait", "parent-first", "double", "mp", "parent-first", "double"]

FORK_HELPER = '''def shared(x):
    return x + 1


def %(late_mod_fn)s(x):
    return [x, shared(x)]


class Late:
    def __init__(self, v):
        self.v = v

    def %(late_method)s(self):
        return self.v * 2
'''

LATE_BUILTINS = ["divmod(17, 5)", "abs(-3)", "hex(255)", "round(2.6)", "bin(5)", "oct(9)", "chr(65)", "ord('a')",
                 "pow(2, 5)", "hash(7)", "ascii('x')", "callable(len)"]


def gen_fork_project(rng, idx, variant=None):
    """-> {"files", "features", "variant", "rc", "late": [names first called in a child]}"""
    variant = variant or rng.choice(FORK_VARIANTS)
    tag = "%d%s" % (idx, rng.choice("abcdefgh"))
    late_mod_fn = "late_pair_" + tag
    late_method = "dbl_" + tag
    files = {"forkhelper.py": FORK_HELPER % {"late_mod_fn": late_mod_fn, "late_method": late_method}}
    nearly = rng.randint(1, 3)
    nlate = rng.randint(2, 5)
    builtins = rng.sample(LATE_BUILTINS, rng.randint(1, 3))
    rc = rng.choice([0, 0, 3])
    m = ["#!/usr/bin/env python3", "import os", "import sys"]
    if variant == "mp":
        m.append("import multiprocessing")
    m += ["import forkhelper", "", ""]
    for i in range(nearly):
        m += ["def early_%d(x):" % i, "    return forkhelper.shared(x) + %d" % i, "", ""]
    late = []
    for i in range(nlate):
        nm = "late_%s_%d" % (tag, i)
        late.append(nm)
        callee = "late_%s_%d(x) + 1" % (tag, i - 1) if i and rng.random() < 0.6 else "x * %d" % (i + 2)
        m += ["def %s(x):" % nm, "    return %s" % callee, "", ""]
    m += ["def wait_parent_gone(fd):", "    # end of file = every process that held the other end has exited",
          "    while os.read(fd, 1):", "        pass", "    os.close(fd)", "", ""]
    work = ["def child_work(n):", "    out = []"]
    order = list(range(nlate))
    rng.shuffle(order)
    for i in order:
        work.append("    out.append(late_%s_%d(n))" % (tag, i))
    if rng.random() < 0.8:
        work.append("    out.append(forkhelper.%s(n))" % late_mod_fn)
        late.append("forkhelper." + late_mod_fn)
    if rng.random() < 0.7:
        work.append("    out.append(forkhelper.Late(n).%s())" % late_method)
        late += ["forkhelper.Late.__init__", "forkhelper.Late." + late_method]
    for b in builtins:
        work.append("    out.append(%s)" % b)
    work += ["    out.append(early_0(n))", "    print('child', out)", "    sys.stdout.flush()", "    return len(out)", "", ""]
    m += work
    m += ["print('early', [%s])" % ", ".join("early_%d(%d)" % (i, rng.randint(0, 9)) for i in range(nearly)),
          "sys.stdout.flush()"]
    n = rng.randint(1, 9)
    child_end = rng.choice(["os._exit(0)", "sys.exit(0)", "os._exit(0)"])
    if variant == "wait":
        m += ["pid = os.fork()", "if pid == 0:", "    child_work(%d)" % n, "    " + child_end,
              "_, st = os.waitpid(pid, 0)", "print('parent', os.WEXITSTATUS(st))"]
    elif variant == "parent-first":
        m += ["r, w = os.pipe()", "pid = os.fork()", "if pid == 0:", "    os.close(w)", "    wait_parent_gone(r)",
              "    child_work(%d)" % n, "    " + child_end, "os.close(r)", "print('parent leaves')", "sys.stdout.flush()"]
    elif variant == "double":
        m += ["r, w = os.pipe()", "pid = os.fork()", "if pid == 0:", "    if os.fork() != 0:", "        os._exit(0)",
              "    os.close(w)", "    wait_parent_gone(r)", "    child_work(%d)" % n, "    " + child_end,
              "os.close(r)", "os.waitpid(pid, 0)", "print('parent leaves')", "sys.stdout.flush()"]
    else:
        m += ["multiprocessing.set_start_method('fork')", "p = multiprocessing.Process(target=child_work, args=(%d,))" % n,
              "p.start()", "p.join()", "print('parent', p.exitcode)"]
    if rc:
        m.append("sys.exit(%d)" % rc)
    files["main.py"] = "\n".join(m) + "\n"
    return {"files": files, "features": ["fork", "fork-" + variant], "variant": variant, "exit": "fork-" + variant,
            "rc": rc, "late": late, "heavy": variant == "mp"}
