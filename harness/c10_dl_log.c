/*
 * C10 e2e: ground truth of the loader for the dlopen timeline runs.  Compiled WITHOUT -pg
 * and linked into c10_dl_main (exported with -rdynamic so that plugins can call it).
 * Appends to the file named by $C10_LOG:
 *   LOG <tag> <handle>
 *   OBJ <dlpi_name hex|-> <realpath hex|-> <dlpi_addr> <first PT_LOAD start> <end of first exec PT_LOAD> <lowest> <highest>
 *   END
 */
#define _GNU_SOURCE
#include <limits.h>
#include <link.h>
#include <stdio.h>
#include <stdlib.h>
#include <string.h>

static void puthex(FILE *fp, const char *s)
{
	if (s == NULL || *s == '\0') {
		fputc('-', fp);
		return;
	}
	while (*s)
		fprintf(fp, "%02x", (unsigned char)*s++);
}

static int cb(struct dl_phdr_info *info, size_t size, void *arg)
{
	FILE *fp = arg;
	char buf[PATH_MAX];
	char *p = info->dlpi_name[0] ? realpath(info->dlpi_name, buf) : NULL;
	unsigned long start = 0, stop = 0, lo = -1UL, hi = 0;
	int i, have_start = 0, have_stop = 0;

	for (i = 0; i < info->dlpi_phnum; i++) {
		const ElfW(Phdr) *ph = &info->dlpi_phdr[i];
		unsigned long a = info->dlpi_addr + ph->p_vaddr;

		if (ph->p_type != PT_LOAD)
			continue;
		if (!have_start) {
			start = a;
			have_start = 1;
		}
		if ((ph->p_flags & PF_X) && !have_stop) {
			stop = a + ph->p_memsz;
			have_stop = 1;
		}
		if (a < lo)
			lo = a;
		if (a + ph->p_memsz > hi)
			hi = a + ph->p_memsz;
	}
	fprintf(fp, "OBJ ");
	puthex(fp, info->dlpi_name);
	fputc(' ', fp);
	puthex(fp, p);
	fprintf(fp, " %lx %lx %lx %lx %lx\n", (unsigned long)info->dlpi_addr, start, stop, lo, hi);
	return 0;
}

void c10_log(const char *tag, void *handle)
{
	const char *path = getenv("C10_LOG");
	FILE *fp;

	if (path == NULL)
		return;
	fp = fopen(path, "a");
	if (fp == NULL)
		return;
	fprintf(fp, "LOG %s %lx\n", tag, (unsigned long)handle);
	dl_iterate_phdr(cb, fp);
	fprintf(fp, "END\n");
	fclose(fp);
}
