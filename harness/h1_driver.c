/*
 * H1: in-process libmcount harness.  This file is linked statically with the
 * libmcount sources of the scratch snapshot.  libmcount's constructor runs
 * before main() and reads the UFTRACE_* environment prepared by lib/h1.py.
 *
 * stdin: one op per line
 *   T <n>            set the scripted clock to n (ns)
 *   TICK <n>         auto-advance the clock by n after every reading
 *   E pg <i> [off]   call mcount_entry(&slot, f_i + off, regs) with a fake return slot
 *   E cyg <i>        call __cyg_profile_func_enter(f_i, caller)
 *   X                return from the innermost open call of the script
 *   A <k> <hex64>    set integer argument register k (0..5) for the next pg entry
 *   RV <hex64>       set the return value for the next exit
 *   FLUSH            what the SIGSEGV handler does first: record open frames (mcount_rstack_restore + record)
 *   FORK             fork(); the child continues the script (atfork_child_handler runs), the parent waits
 *   END              print trailer and exit(0) (normal exit: destructor runs)
 * stdout: one line per op:
 *   <opno> rc=<r> [ret=ok|BAD] errno=<ok|BAD> recs=<hex of every new 16-byte record and payload, space separated>
 */
#define _GNU_SOURCE
#include <errno.h>
#include <pthread.h>
#include <stdint.h>
#include <stdio.h>
#include <stdlib.h>
#include <string.h>
#include <time.h>
#include <unistd.h>
#include <sys/wait.h>

#include "libmcount/internal.h"
#include "libmcount/mcount.h"
#include "utils/utils.h"

/* ---- scripted clock (overrides libc's for the whole executable) ---- */
static uint64_t h1_now = 1000;
static uint64_t h1_tick;
static unsigned long h1_clock_reads;

int clock_gettime(clockid_t id, struct timespec *ts)
{
	ts->tv_sec = h1_now / 1000000000ULL;
	ts->tv_nsec = h1_now % 1000000000ULL;
	h1_now += h1_tick;
	h1_clock_reads++;
	return 0;
}

/* ---- dummy traced functions: only their addresses / symbols are used ---- */
#define DUMMY(n)                                                                                   \
	__attribute__((noinline, used)) void n(void)                                               \
	{                                                                                          \
		asm volatile("nop;nop;nop;nop;nop;nop;nop;nop;nop;nop;nop;nop;nop;nop;nop;nop");   \
	}
DUMMY(f0) DUMMY(f1) DUMMY(f2) DUMMY(f3)
/* f4..f7 live in h1_funcs_b.c (another source file: location filters) */
extern void f4(void), f5(void), f6(void), f7(void);
/* a bigger function for size filters */
__attribute__((noinline, used)) void g_big(void)
{
	asm volatile(".rept 200\n nop\n .endr");
}

typedef void (*fn_t)(void);
static fn_t funcs[] = { f0, f1, f2, f3, f4, f5, f6, f7, g_big };
#define NFUNC (sizeof(funcs) / sizeof(funcs[0]))

extern int mcount_entry(unsigned long *parent_loc, unsigned long child, struct mcount_regs *regs);
extern unsigned long mcount_exit(long *retval);
extern void __cyg_profile_func_enter(void *child, void *parent);
extern void __cyg_profile_func_exit(void *child, void *parent);
extern unsigned long mcount_return_fn;

/* ---- the script's own call stack ---- */
struct hframe {
	int kind; /* 0 = pg, 1 = cyg */
	int fn;
	int hijacked;
	unsigned long orig;
	unsigned long slot[4]; /* slot[1] is the fake return slot; slot[0] plays parent_loc[-1] */
};
static struct hframe hstack[4096];
static int hdepth;

/* ---- reading back what libmcount emitted ---- */
static int cur_buf;
static unsigned cur_off;

static void dump_new_records(void)
{
	struct mcount_thread_data *mtdp = get_thread_data();
	struct mcount_shmem *shmem;

	printf(" recs=");
	if (mtdp == NULL || check_thread_data(mtdp) || mtdp->shmem.buffer == NULL) {
		printf("-");
		return;
	}
	shmem = &mtdp->shmem;
	while (cur_buf < shmem->nr_buf) {
		struct mcount_shmem_buffer *b = shmem->buffer[cur_buf];
		unsigned size = b->size;

		for (; cur_off < size; cur_off++)
			printf("%02x", (unsigned char)b->data[cur_off]);
		/* without a recorder buffers are used in index order */
		if (shmem->curr > cur_buf) {
			cur_buf++;
			cur_off = 0;
			continue;
		}
		break;
	}
}

static int fn_index(unsigned long addr)
{
	unsigned i;

	for (i = 0; i < NFUNC; i++)
		if (addr >= (unsigned long)funcs[i] && addr < (unsigned long)funcs[i] + 16)
			return i;
	return -1;
}

int main(void)
{
	char line[256];
	int opno = 0;
	struct mcount_regs regs;
	long retval = 0;

	memset(&regs, 0, sizeof(regs));
	setvbuf(stdout, NULL, _IOFBF, 1 << 16);

	/* symbol addresses, so that the wrapper can translate addr <-> name */
	{
		unsigned i;

		printf("SYMS");
		for (i = 0; i < NFUNC; i++)
			printf(" %lx", (unsigned long)funcs[i]);
		printf(" tramp=%lx\n", mcount_return_fn);
	}

	while (fgets(line, sizeof(line), stdin)) {
		char op[16] = "", a1[32] = "", a2[32] = "", a3[32] = "";
		int n = sscanf(line, "%15s %31s %31s %31s", op, a1, a2, a3);

		if (n < 1 || op[0] == '#')
			continue;
		opno++;
		if (!strcmp(op, "T")) {
			h1_now = strtoull(a1, NULL, 0);
			printf("%d ok\n", opno);
		}
		else if (!strcmp(op, "TICK")) {
			h1_tick = strtoull(a1, NULL, 0);
			printf("%d ok\n", opno);
		}
		else if (!strcmp(op, "A")) {
			int k = atoi(a1);
			unsigned long v = strtoull(a2, NULL, 16);
			unsigned long *r[6] = { &regs.rdi, &regs.rsi, &regs.rdx, &regs.rcx, &regs.r8, &regs.r9 };

			if (k >= 0 && k < 6)
				*r[k] = v;
			printf("%d ok\n", opno);
		}
		else if (!strcmp(op, "RV")) {
			retval = strtoull(a1, NULL, 16);
			printf("%d ok\n", opno);
		}
		else if (!strcmp(op, "E")) {
			int fn = atoi(a2);
			struct hframe *h = &hstack[hdepth];
			int rc = 0, e;

			if (fn < 0 || fn >= (int)NFUNC || hdepth >= 4095) {
				printf("%d bad-op\n", opno);
				continue;
			}
			h->fn = fn;
			h->orig = 0xcafe0000UL + hdepth * 16 + 1;
			h->slot[0] = (unsigned long)&h->slot[3];
			h->slot[1] = h->orig;
			h->hijacked = 0;
			errno = 4242;
			if (!strcmp(a1, "pg")) {
				unsigned long off = n >= 4 ? strtoul(a3, NULL, 0) : 0;

				h->kind = 0;
				rc = mcount_entry(&h->slot[1], (unsigned long)funcs[fn] + off, &regs);
				h->hijacked = h->slot[1] != h->orig;
			}
			else {
				h->kind = 1;
				__cyg_profile_func_enter((void *)funcs[fn], (void *)h->orig);
			}
			e = errno;
			hdepth++;
			printf("%d rc=%d hij=%d errno=%s", opno, rc, h->hijacked, e == 4242 ? "ok" : "BAD");
			dump_new_records();
			printf("\n");
		}
		else if (!strcmp(op, "X")) {
			struct hframe *h;
			int e;
			const char *ret = "-";

			if (hdepth == 0) {
				printf("%d bad-op\n", opno);
				continue;
			}
			h = &hstack[--hdepth];
			errno = 4242;
			if (h->kind == 0) {
				if (h->hijacked) {
					long rv = retval;
					unsigned long back = mcount_exit(&rv);

					ret = back == h->orig ? "ok" : "BAD";
				}
			}
			else
				__cyg_profile_func_exit((void *)funcs[h->fn], (void *)h->orig);
			e = errno;
			printf("%d ret=%s errno=%s", opno, ret, e == 4242 ? "ok" : "BAD");
			dump_new_records();
			printf("\n");
		}
		else if (!strcmp(op, "FLUSH")) {
			struct mcount_thread_data *mtdp = get_thread_data();

			int maxst = getenv("UFTRACE_MAX_STACK") ? atoi(getenv("UFTRACE_MAX_STACK")) : 1024;

			if (mtdp && !check_thread_data(mtdp) && mtdp->idx > 0) {
				int i;
				int all_restored = 1;
				/* as segv_handler(): idx clamped to the rstack array (repair of finding F11) */
				int top = mtdp->idx > maxst ? maxst : mtdp->idx;

				mcount_rstack_restore(mtdp);
				for (i = 0; i < hdepth; i++)
					if (hstack[i].kind == 0 && hstack[i].slot[1] != hstack[i].orig)
						all_restored = 0;
				record_trace_data(mtdp, &mtdp->rstack[top - 1], NULL);
				printf("%d restored=%d", opno, all_restored);
			}
			else
				printf("%d restored=1", opno);
			dump_new_records();
			printf("\n");
		}
		else if (!strcmp(op, "FORK")) {
			pid_t pid;

			fflush(stdout);
			pid = fork();
			if (pid > 0) {
				int st;

				/* the parent's part of the script ends here; the child carries on */
				waitpid(pid, &st, 0);
				_exit(WIFEXITED(st) ? WEXITSTATUS(st) : 99);
			}
			/* child: libmcount's atfork handler gave it fresh buffers */
			cur_buf = 0;
			cur_off = 0;
			printf("%d forked", opno);
			dump_new_records();
			printf("\n");
		}
		else if (!strcmp(op, "END")) {
			struct mcount_thread_data *mtdp = get_thread_data();

			if (!mtdp || check_thread_data(mtdp)) {
				printf("%d end nothread\n", opno);
				break;
			}
			printf("%d end idx=%d ridx=%d clock_reads=%lu", opno, mtdp->idx, mtdp->record_idx,
			       h1_clock_reads);
#ifndef DISABLE_MCOUNT_FILTER
			if (mtdp && !check_thread_data(mtdp))
				printf(" filt=%d/%d/%d/%d/%llu/%u en=%d", mtdp->filter.in_count,
				       mtdp->filter.out_count, mtdp->filter.depth, mtdp->filter.max_depth,
				       (unsigned long long)mtdp->filter.time, mtdp->filter.size,
				       (int)mcount_enabled);
#endif
			printf("\n");
			break;
		}
		else
			printf("%d bad-op\n", opno);
	}
	fflush(stdout);
	(void)fn_index;
	return 0;
}
