"""C19 / H5 ground truth: runs a script the way python/uftrace.py does, but with a
pure-Python profile function that logs the event stream (to the file named by
C19_LOG) in the harness' event syntax:  c:<name> r:<name> C:<name> R:<name> X:<name>
followed by " L" for a library function.  Names are computed independently of
trace-python.c from the rules it documents: "<module>.<qualname>", the module
prefix dropped for functions of __main__ (except "<module>"); C functions
"<module>.<qualname>", "builtins." when there is no module.  A Python function is
a library function unless it is in __main__ or its file is under the directory
of the main script; every C function is one.
usage: PYTHONPATH=/verif/harness python3 -m c19_pylog script.py [args]
(started with -m like uftrace.py, so the frames around exec() are the same)"""
import os
import sys

_log = open(os.environ["C19_LOG"], "w", buffering=1)      # line buffered: os._exit loses nothing
sys.argv = sys.argv[1:]
_pathname = sys.argv[0] if sys.argv[0][0] == "/" else os.getcwd() + "/" + sys.argv[0]
_main_dir = os.path.dirname(_pathname)
_first = [None]
_write = _log.write


def _trace(frame, event, arg):
    if _first[0] is None:
        _first[0] = frame
    if frame is _first[0]:
        return
    if event == "call" or event == "return":
        code = frame.f_code
        name = getattr(code, "co_qualname", code.co_name)
        mod = frame.f_globals.get("__name__")
        is_main = mod == "__main__"
        if isinstance(mod, str) and (not is_main or name == "<module>"):
            name = mod + "." + name
        fn = code.co_filename
        if fn.startswith(_main_dir) and fn[len(_main_dir):len(_main_dir) + 1] == "/":
            is_main = True
        _write("%s:%s%s\n" % ("c" if event == "call" else "r", name, "" if is_main else " L"))
    else:
        if type(arg).__name__ != "builtin_function_or_method":
            return
        name = getattr(arg, "__qualname__", None) or arg.__name__
        mod = arg.__module__
        if isinstance(mod, str):
            name = mod + "." + name
        elif "." not in name:
            name = "builtins." + name
        _write("%s:%s L\n" % ({"c_call": "C", "c_return": "R", "c_exception": "X"}[event], name))


_real_exit = os._exit


def os_exit(n):
    _real_exit(n)


os._exit = os_exit

new_globals = globals()
new_globals["__file__"] = _pathname
sys.path.insert(0, os.path.dirname(_pathname))
code = open(sys.argv[0]).read()
sys.setprofile(_trace)
exec(code, new_globals)
sys.setprofile(None)
