/*
 * C10 correspondence harness: drives the real symbol-file reader/writer and lookup
 * (utils/symbol.c), the session/task bookkeeping (utils/session.c) and the task.txt
 * writer/reader (utils/data-file.c) of the scratch snapshot of /repo.
 * symbol.c and session.c are #included to reach their static functions.
 *
 * argv[1] = scratch directory (data directory of the scenarios).
 * stdin, one case per line (numbers hex, byte strings hex or '-', symbol =
 * addr:size:typecode:namehex, sections separated by '|'):
 *
 *   lf <off> <texthex> <pathhex> <bidhex> | <addr>...
 *        load_module_symbol_file(text, off); find_sym on boundary addresses of every
 *        loaded symbol + the given ones; save_module_symbol_file; reload what was saved
 *   sv <off> <pathhex> <bidhex> | <table> | <addr>...
 *        in-memory table -> save_module_symbol_file -> load_module_symbol_file; find_sym on
 *        the in-memory table (bsearch on arbitrary tables)
 *   scen | <op> | <op> ...       (see lean/Driver/C10.lean; MODS carries the module path)
 *   elf <pathhex> | <addr>...
 *        table of a real ELF file as `uftrace record` builds it (load_module_symtab with
 *        SYMTAB_FL_ADJ_OFFSET), find_sym at the boundaries of its symbols, save_module_symtabs,
 *        reload of the written file
 *
 * stdout: pairs of  MODEL <query for `uvmodel C10`>  /  IMPL <result in the model's format>.
 */
#include "utils/symbol.c"
#include "utils/session.c"

#include <sys/stat.h>

int read_task_txt_file(struct uftrace_session_link *sess, char *dirname, char *symdir,
		       bool needs_symtab, bool sym_rel_addr, bool needs_srcline);

static char *dir;

/* ---------- small helpers ---------- */

static int hexv(int c)
{
	if (c >= '0' && c <= '9')
		return c - '0';
	if (c >= 'a' && c <= 'f')
		return c - 'a' + 10;
	if (c >= 'A' && c <= 'F')
		return c - 'A' + 10;
	return -1;
}

/* hex string (or "-") -> malloc'ed bytes, NUL terminated */
static char *unhex(const char *s, size_t *lenp)
{
	size_t n = strcmp(s, "-") ? strlen(s) / 2 : 0, i;
	char *b = xmalloc(n + 1);

	for (i = 0; i < n; i++)
		b[i] = hexv(s[2 * i]) * 16 + hexv(s[2 * i + 1]);
	b[n] = 0;
	if (lenp)
		*lenp = n;
	return b;
}

static void puthex(const char *b, size_t n)
{
	size_t i;

	if (n == 0)
		printf("-");
	for (i = 0; i < n; i++)
		printf("%02x", (unsigned char)b[i]);
}

static void put_sym(struct uftrace_symbol *s)
{
	if (s == NULL) {
		printf("-");
		return;
	}
	printf("%" PRIx64 ":%x:%x:", s->addr, s->size, (unsigned)(unsigned char)s->type);
	puthex(s->name, strlen(s->name));
}

static void put_table(struct uftrace_symtab *st)
{
	size_t i;

	if (st->nr_sym == 0)
		printf("-");
	for (i = 0; i < st->nr_sym; i++) {
		if (i)
			printf(" ");
		put_sym(&st->sym[i]);
	}
}

static char *path_in_dir(const char *name)
{
	char *p = NULL;

	xasprintf(&p, "%s/%s", dir, name);
	return p;
}

static void write_file(const char *path, const char *data, size_t len)
{
	FILE *fp = fopen(path, "w");

	if (fp == NULL) {
		perror(path);
		exit(3);
	}
	fwrite(data, 1, len, fp);
	fclose(fp);
}

static char *read_file(const char *path, size_t *lenp)
{
	FILE *fp = fopen(path, "r");
	char *buf;
	long n;

	*lenp = 0;
	if (fp == NULL)
		return xstrdup("");
	fseek(fp, 0, SEEK_END);
	n = ftell(fp);
	fseek(fp, 0, SEEK_SET);
	buf = xmalloc(n + 1);
	*lenp = fread(buf, 1, n, fp);
	buf[*lenp] = 0;
	fclose(fp);
	return buf;
}

static void clean_dir(void)
{
	char *cmd = NULL;

	xasprintf(&cmd, "rm -rf '%s'/* 2>/dev/null", dir);
	if (system(cmd)) { /* nothing */ }
	free(cmd);
}

/* parse "addr:size:type:namehex" */
static int parse_sym(const char *tok, struct uftrace_symbol *s)
{
	char *dup = xstrdup(tok), *p1, *p2, *p3;
	int ok = 0;

	p1 = strchr(dup, ':');
	p2 = p1 ? strchr(p1 + 1, ':') : NULL;
	p3 = p2 ? strchr(p2 + 1, ':') : NULL;
	if (p3) {
		*p1 = *p2 = *p3 = 0;
		s->addr = strtoull(dup, NULL, 16);
		s->size = strtoul(p1 + 1, NULL, 16);
		s->type = strtoul(p2 + 1, NULL, 16);
		s->name = unhex(p3 + 1, NULL);
		ok = 1;
	}
	free(dup);
	return ok;
}

/* tokens until "|" or end; returns number consumed (including the bar) */
static int parse_table(char **tok, int ntok, struct uftrace_symtab *st)
{
	int i;

	memset(st, 0, sizeof(*st));
	st->sym = xmalloc(sizeof(*st->sym) * (ntok + 1));
	for (i = 0; i < ntok && strcmp(tok[i], "|"); i++) {
		if (!strcmp(tok[i], "-"))
			continue;
		if (parse_sym(tok[i], &st->sym[st->nr_sym]))
			st->nr_sym++;
	}
	st->nr_alloc = st->nr_sym;
	return i < ntok ? i + 1 : i;
}

static void free_table(struct uftrace_symtab *st)
{
	unload_symtab(st);
}

static void do_find(struct uftrace_symtab *st, uint64_t *addrs, int n)
{
	int i;

	printf("MODEL find | ");
	put_table(st);
	printf(" |");
	for (i = 0; i < n; i++)
		printf(" %" PRIx64, addrs[i]);
	printf("\nIMPL wf=?");
	for (i = 0; i < n; i++) {
		printf(" ");
		put_sym(find_sym(st, addrs[i]));
	}
	printf("\n");
}

static int add_addr(uint64_t *a, int n, uint64_t v)
{
	a[n] = v;
	return n + 1;
}

/* save through the real writer, return the text */
static char *do_save(struct uftrace_symtab *st, uint64_t off, char *path, char *bid,
		     const char *pathhex, const char *bidhex, size_t *lenp)
{
	char *out = path_in_dir("out.sym");
	char *text;

	unlink(out);
	save_module_symbol_file(st, path, bid, out, off);
	text = read_file(out, lenp);
	printf("MODEL save %" PRIx64 " %s %s | ", off, pathhex, bidhex);
	put_table(st);
	printf("\nIMPL ");
	puthex(text, *lenp);
	printf("\n");
	free(out);
	return text;
}

static void do_load(struct uftrace_symtab *st, uint64_t off, const char *text, size_t len)
{
	char *in = path_in_dir("in.sym");

	write_file(in, text, len);
	memset(st, 0, sizeof(*st));
	load_module_symbol_file(st, in, off);
	printf("MODEL load %" PRIx64 " ", off);
	puthex(text, len);
	printf("\nIMPL ");
	put_table(st);
	printf("\n");
	unlink(in);
	free(in);
}

static void case_lf(char **tok, int ntok)
{
	struct uftrace_symtab st, st2;
	uint64_t off = strtoull(tok[1], NULL, 16);
	size_t len, len2, i;
	char *text = unhex(tok[2], &len);
	char *path = unhex(tok[3], NULL);
	char *bid = unhex(tok[4], NULL);
	uint64_t *addrs;
	int n = 0, k;
	char *saved;

	do_load(&st, off, text, len);

	addrs = xmalloc(sizeof(*addrs) * (st.nr_sym * 6 + ntok + 4));
	n = add_addr(addrs, n, 0);
	for (i = 0; i < st.nr_sym; i++) {
		struct uftrace_symbol *s = &st.sym[i];

		n = add_addr(addrs, n, s->addr - 1);
		n = add_addr(addrs, n, s->addr);
		n = add_addr(addrs, n, s->addr + s->size / 2);
		n = add_addr(addrs, n, s->addr + s->size - 1);
		n = add_addr(addrs, n, s->addr + s->size);
		n = add_addr(addrs, n, s->addr + s->size + 1);
	}
	for (k = 6; k < ntok; k++)
		n = add_addr(addrs, n, strtoull(tok[k], NULL, 16));
	do_find(&st, addrs, n);

	saved = do_save(&st, off, path, bid, tok[3], tok[4], &len2);
	do_load(&st2, off, saved, len2);

	free(saved);
	free(addrs);
	free_table(&st);
	free_table(&st2);
	free(text);
	free(path);
	free(bid);
}

static void case_sv(char **tok, int ntok)
{
	struct uftrace_symtab st, st2;
	uint64_t off = strtoull(tok[1], NULL, 16);
	char *path = unhex(tok[2], NULL);
	char *bid = unhex(tok[3], NULL);
	uint64_t *addrs = xmalloc(sizeof(*addrs) * (ntok + 1));
	size_t len;
	char *saved;
	int k, n = 0;

	k = 5 + parse_table(tok + 5, ntok - 5, &st);
	for (; k < ntok; k++)
		n = add_addr(addrs, n, strtoull(tok[k], NULL, 16));

	saved = do_save(&st, off, path, bid, tok[2], tok[3], &len);
	do_load(&st2, off, saved, len);
	do_find(&st, addrs, n);

	free(saved);
	free(addrs);
	free_table(&st);
	free_table(&st2);
	free(path);
	free(bid);
}

static void case_elf(char **tok, int ntok)
{
	char *path = unhex(tok[1], NULL);
	struct uftrace_sym_info sinfo = {
		.dirname = dir,
		.symdir = dir,
		.filename = path,
		.flags = SYMTAB_FL_ADJ_OFFSET,
	};
	char build_id[BUILD_ID_STR_SIZE];
	struct uftrace_module *m;
	struct uftrace_symtab st2;
	uint64_t *addrs;
	char *file = NULL, *text, *bidhex;
	size_t len, i, step;
	int n = 0;

	clean_dir();
	read_build_id(path, build_id, sizeof(build_id));
	m = load_module_symtab(&sinfo, path, build_id);

	addrs = xmalloc(sizeof(*addrs) * (m->symtab.nr_sym * 4 + 4 + ntok));
	for (i = 3; i < (size_t)ntok; i++)
		n = add_addr(addrs, n, strtoull(tok[i], NULL, 16));
	step = m->symtab.nr_sym / 400 + 1;
	for (i = 0; i < m->symtab.nr_sym; i += step) {
		struct uftrace_symbol *s = &m->symtab.sym[i];

		n = add_addr(addrs, n, s->addr);
		n = add_addr(addrs, n, s->addr + s->size - 1);
		n = add_addr(addrs, n, s->addr + s->size);
		n = add_addr(addrs, n, s->addr - 1);
	}
	do_find(&m->symtab, addrs, n);

	save_module_symtabs(dir);
	xasprintf(&file, "%s/%s.sym", dir, uftrace_basename(path));
	text = read_file(file, &len);
	bidhex = xmalloc(2 * strlen(build_id) + 2);
	bidhex[0] = '-';
	bidhex[1] = 0;
	for (i = 0; i < strlen(build_id); i++)
		sprintf(bidhex + 2 * i, "%02x", (unsigned char)build_id[i]);
	printf("MODEL save 0 %s %s | ", tok[1], bidhex);
	put_table(&m->symtab);
	printf("\nIMPL ");
	puthex(text, len);
	printf("\n");
	do_load(&st2, 0, text, len);

	free_table(&st2);
	free(text);
	free(file);
	free(bidhex);
	free(addrs);
	free(path);
	unload_module_symtabs();
	clean_dir();
}

/* ---------- scenarios ---------- */

#define MAXMOD 64
static char *modpath[MAXMOD];
static char *modbid[MAXMOD];

static void sid_str(char *buf, unsigned long sid)
{
	snprintf(buf, 17, "%016lx", sid);
}

static unsigned long sid_num(struct uftrace_session *s)
{
	char buf[17];

	memcpy(buf, s->sid, 16);
	buf[16] = 0;
	return strtoul(buf, NULL, 16);
}

static void case_scen(char **tok, int ntok, const char *line)
{
	struct uftrace_session_link link = {
		.root = RB_ROOT,
		.tasks = RB_ROOT,
	};
	int i = 1, loaded = 0, first = 1, m;
	char *symdir = xstrdup(dir);

	clean_dir();
	for (m = 0; m < MAXMOD; m++) {
		free(modpath[m]);
		free(modbid[m]);
		modpath[m] = NULL;
		modbid[m] = NULL;
	}

	printf("MODEL %s\nIMPL", line);

	while (i < ntok) {
		char **op;
		int nop = 0;

		if (!strcmp(tok[i], "|")) {
			i++;
			continue;
		}
		op = &tok[i];
		while (i + nop < ntok && strcmp(tok[i + nop], "|"))
			nop++;
		i += nop;

		if (!strcmp(op[0], "WS") && nop == 2) {
			/* --with-syms: symbol files live in a directory other than the data directory */
			if (!strcmp(op[1], "1")) {
				free(symdir);
				xasprintf(&symdir, "%s/symdir", dir);
				mkdir(symdir, 0755);
			}
		}
		else if (!strcmp(op[0], "MODT") && nop == 3) {
			unsigned id = strtoul(op[1], NULL, 16) % MAXMOD;
			size_t len;
			char *text = unhex(op[2], &len);
			char *file = NULL;

			xasprintf(&modpath[id], "/nonexistent-c10/mod%x.so", id);
			xasprintf(&file, "%s/mod%x.so.sym", symdir, id);
			write_file(file, text, len);
			free(file);
			free(text);
		}
		else if (!strcmp(op[0], "MODS") && nop >= 4) {
			unsigned id = strtoul(op[1], NULL, 16) % MAXMOD;
			char *bid = unhex(op[3], NULL);
			struct uftrace_symtab st;
			char *file = NULL;

			modpath[id] = unhex(op[2], NULL);
			modbid[id] = bid;
			parse_table(op + 4, nop - 4, &st);
			xasprintf(&file, "%s/%s.sym", symdir, uftrace_basename(modpath[id]));
			save_module_symbol_file(&st, modpath[id], bid, file, 0);
			free(file);
			free_table(&st);
		}
		else if (!strcmp(op[0], "S") && nop >= 5) {
			struct uftrace_msg_sess smsg = {};
			char sid[17], *file = NULL;
			const char *exe = "/nonexistent-c10/exe";
			FILE *fp;
			int k;

			sid_str(sid, strtoul(op[1], NULL, 16));
			memcpy(smsg.sid, sid, 16);
			smsg.task.pid = smsg.task.tid = strtoul(op[2], NULL, 16);
			smsg.task.time = strtoull(op[3], NULL, 16);

			xasprintf(&file, "%s/sid-%s.map", dir, sid);
			fp = fopen(file, "w");
			for (k = 5; k < nop; k++) {
				uint64_t a, b;
				unsigned id;

				if (sscanf(op[k], "%" SCNx64 ":%" SCNx64 ":%x", &a, &b, &id) != 3)
					continue;
				id %= MAXMOD;
				if (k == 5 && modpath[id])
					exe = modpath[id];
				fprintf(fp, "%" PRIx64 "-%" PRIx64 " r-xp 00000000 08:03 4096 %s", a, b,
					modpath[id] ? modpath[id] : "/nonexistent-c10/none");
				if (modbid[id] && modbid[id][0])
					fprintf(fp, " build-id:%s", modbid[id]);
				fprintf(fp, "\n");
			}
			if (strcmp(op[4], "-")) {
				uint64_t st = strtoull(op[4], NULL, 16);

				fprintf(fp, "%" PRIx64 "-%" PRIx64 " rw-p 00000000 00:00 0 [stack]\n", st,
					st + 0x21000);
			}
			fclose(fp);
			free(file);
			smsg.namelen = strlen(exe);
			write_session_info(dir, &smsg, exe);
		}
		else if ((!strcmp(op[0], "T") || !strcmp(op[0], "F")) && nop == 4) {
			struct uftrace_msg_task tmsg = {
				.pid = strtoul(op[1], NULL, 16),
				.tid = strtoul(op[2], NULL, 16),
				.time = strtoull(op[3], NULL, 16),
			};

			if (op[0][0] == 'T')
				write_task_info(dir, &tmsg);
			else
				write_fork_info(dir, &tmsg);
		}
		else if (!strcmp(op[0], "D") && nop == 5) {
			struct uftrace_msg_dlopen dmsg = {};
			char sid[17];
			unsigned id = strtoul(op[4], NULL, 16) % MAXMOD;

			sid_str(sid, strtoul(op[1], NULL, 16));
			memcpy(dmsg.sid, sid, 16);
			dmsg.task.time = strtoull(op[2], NULL, 16);
			dmsg.task.tid = dmsg.task.pid = 1;
			dmsg.base_addr = strtoull(op[3], NULL, 16);
			write_dlopen_info(dir, &dmsg, modpath[id] ? modpath[id] : "/nonexistent-c10/none");
		}
		else {
			/* queries: everything before them is replayed through the real reader */
			if (!loaded) {
				if (read_task_txt_file(&link, dir, symdir, true, false, false) < 0) {
					printf(" read-task-failed");
					break;
				}
				loaded = 1;
			}
			printf(" ");
			first = 0;
			if (!strcmp(op[0], "R") && nop == 3) {
				struct uftrace_task *t = find_task(&link, strtoul(op[1], NULL, 16));
				struct uftrace_session *s =
					find_task_session(&link, t, strtoull(op[2], NULL, 16));

				if (s)
					printf("%lx", sid_num(s));
				else
					printf("-");
			}
			else if ((!strcmp(op[0], "Y") && nop == 3) || (!strcmp(op[0], "L") && nop == 4)) {
				char sid[17];
				struct uftrace_session *s;

				sid_str(sid, strtoul(op[1], NULL, 16));
				s = get_session_from_sid(&link, sid);
				if (s == NULL)
					printf("nosess");
				else if (op[0][0] == 'Y')
					put_sym(find_symtabs(&s->sym_info, strtoull(op[2], NULL, 16)));
				else
					put_sym(session_find_dlsym(s, strtoull(op[2], NULL, 16),
								   strtoull(op[3], NULL, 16)));
			}
			else if (!strcmp(op[0], "Q") && nop == 4) {
				struct uftrace_task_reader tr = {
					.tid = strtoul(op[1], NULL, 16),
				};
				uint64_t time = strtoull(op[2], NULL, 16);
				uint64_t addr = strtoull(op[3], NULL, 16);
				struct uftrace_session *s;

				tr.t = find_task(&link, tr.tid);
				s = find_task_session(&link, tr.t, time);
				if (s == NULL && link.first && is_kernel_address(&link.first->sym_info, addr))
					s = link.first;
				if (s)
					printf("%lx/", sid_num(s));
				else
					printf("-/");
				if (link.first)
					put_sym(task_find_sym_addr(&link, &tr, time, addr));
				else
					printf("-");
			}
			else
				printf("bad-op");
		}
	}
	(void)first;
	printf("\n");

	delete_sessions(&link);
	unload_module_symtabs();
	clean_dir();
	free(symdir);
}

int main(int argc, char *argv[])
{
	char *line = NULL;
	size_t cap = 0;
	ssize_t n;

	if (argc < 2)
		return 2;
	dir = argv[1];
	mkdir(dir, 0755);
	setvbuf(stdout, NULL, _IOFBF, 1 << 20);
	logfp = fopen("/dev/null", "w");
	outfp = logfp;

	while ((n = getline(&line, &cap, stdin)) > 0) {
		char **tok;
		int ntok = 0;
		char *copy, *p, *save = NULL;

		if (line[n - 1] == '\n')
			line[--n] = 0;
		if (n == 0 || line[0] == '#')
			continue;
		copy = xstrdup(line);
		tok = xmalloc(sizeof(*tok) * (n / 2 + 2));
		for (p = strtok_r(copy, " ", &save); p; p = strtok_r(NULL, " ", &save))
			tok[ntok++] = p;

		printf("CASE\n");
		if (!strcmp(tok[0], "lf") && ntok >= 6)
			case_lf(tok, ntok);
		else if (!strcmp(tok[0], "sv") && ntok >= 5)
			case_sv(tok, ntok);
		else if (!strcmp(tok[0], "scen"))
			case_scen(tok, ntok, line);
		else if (!strcmp(tok[0], "elf") && ntok >= 2)
			case_elf(tok, ntok);
		else
			printf("MODEL bad\nIMPL bad-case\n");
		fflush(stdout);
		free(tok);
		free(copy);
	}
	return 0;
}
