/*
 * H2 harness for C03: the recorder's writer pool of cmds/record.c, the real code, stepped by a script.
 *
 * This file #includes cmds/record.c of the snapshot.  The real functions that run are
 *   read_record_mmap   (REC_START: append to shmem_list_head; REC_END: unlink + record_mmap_file)
 *   record_mmap_file, copy_to_buffer, writer_thread (2-4 real threads), write_buf_list, write_buffer,
 *   stop_all_writers, flush_shmem_list, record_remaining_buffer
 * Replaced through macros (only what touches the outside world):
 *   poll               a writer thread waits here for the script ("pick w"); the kick itself is read from the
 *                      real thread_ctl pipe by the real code
 *   pthread_mutex_lock the second critical section of writer_thread (write_list_lock after write_buf_list) is a
 *                      gate ("splice w")
 *   send_trace_data    (opts->host is set) one buffer is written: gate ("write w"), bytes logged per call
 *   uftrace_shmem_open a trace buffer is a memfd; every record_mmap_file maps it again (MAP_SHARED), so a buffer
 *                      that is listed twice is really mapped twice, as in a real session
 *   munmap             hand-back check (size == 0 and flag == WRITTEN when a writer thread unmaps), then the real one
 *
 * Script (stdin), one answer line per command:
 *   init <nwriters>
 *   start <tid> <idx> <nrec>     REC_START message through a pipe into read_record_mmap (buffer created on first use,
 *                                flag RECORDING, size 16*nrec, records tagged tid/idx/k)
 *   end <tid> <idx>              REC_END message
 *   pick <w> [f]                 writer w leaves poll() (f: without a kick, as after the pipe was closed)
 *   write <w>                    writer w writes the next buffer of its local list
 *   splice <w>                   writer w runs its second critical section
 *   stop                         stop_all_writers + every writer leaves poll() without POLLIN and is joined
 *   flushall                     flush_shmem_list
 *   remaining                    record_remaining_buffer
 *   drain                        run every writer until all are idle and buf_write_list is empty
 * Answer: ok|disabled SHM=[t.i,..] WL=[t.i,..] WR=[tid:head:bufs;..] K=<kicks> LOG=[t.i,..] [BAD=<text>]
 *   LOG: one entry per send_trace_data call with len > 0, in order (the bytes are checked against the buffer's tag:
 *   a write of anything else is reported in BAD).
 */
#define _GNU_SOURCE
#include <errno.h>
#include <fcntl.h>
#include <poll.h>
#include <pthread.h>
#include <signal.h>
#include <stdarg.h>
#include <stdbool.h>
#include <stdint.h>
#include <stdio.h>
#include <stdlib.h>
#include <string.h>
#include <sys/ioctl.h>
#include <sys/mman.h>
#include <sys/stat.h>
#include <sys/types.h>
#include <unistd.h>

static int verif_poll(struct pollfd *fds, nfds_t n, int timeout);
static int verif_lock(pthread_mutex_t *m);
static int verif_munmap(void *p, size_t n);
int verif_shmem_open(const char *name, int oflag, mode_t mode);
void verif_send(int sock, int tid, void *data, size_t len);

#define poll(f, n, t) verif_poll(f, n, t)
#define pthread_mutex_lock(m) verif_lock(m)
#define munmap(p, n) verif_munmap(p, n)
#define uftrace_shmem_open verif_shmem_open
#define send_trace_data verif_send

#include "cmds/record.c"

#undef poll
#undef pthread_mutex_lock
#undef munmap
#undef uftrace_shmem_open
#undef send_trace_data

#define BUFSZ 4096
#define MAXW 8
#define MAXB 4096
#define SID "00000000c03c03c0"

struct vbuf {
	int tid, idx, fd;
	unsigned nrec;
};
static struct vbuf vb[MAXB];
static int nvb;

struct tag {
	uint32_t tid, idx, k, magic;
};

static struct {
	pthread_t th;
	pthread_mutex_t m;
	pthread_cond_t c;
	int gate; /* 0 running, 'P' 'W' 'S' 'X' (exited) */
	int go; /* 1: go on, 2: leave poll without POLLIN */
	int wrote; /* a buffer was written since the last critical section */
	char *stack;
	struct writer_arg *warg;
} W[MAXW];
static int nw;
static __thread int my_idx = -1;
static struct uftrace_opts vopts;
static int msgpipe[2];

static char logbuf[1 << 16];
static int loglen;
static char bad[512];

static void set_bad(const char *fmt, ...)
{
	va_list ap;
	if (bad[0])
		return;
	va_start(ap, fmt);
	vsnprintf(bad, sizeof(bad), fmt, ap);
	va_end(ap);
}

/* ---- gates ------------------------------------------------------------------------------------------ */
static int gate_wait(int kind)
{
	int i = my_idx, go;
	pthread_mutex_lock(&W[i].m);
	W[i].gate = kind;
	pthread_cond_broadcast(&W[i].c);
	while (!W[i].go)
		pthread_cond_wait(&W[i].c, &W[i].m);
	go = W[i].go;
	W[i].go = 0;
	pthread_mutex_unlock(&W[i].m);
	return go;
}

/* main thread: let writer i go on and wait until it stands at its next gate */
static void release(int i, int how)
{
	struct timespec ts;
	pthread_mutex_lock(&W[i].m);
	W[i].gate = 0;
	W[i].go = how;
	pthread_cond_broadcast(&W[i].c);
	clock_gettime(CLOCK_REALTIME, &ts);
	ts.tv_sec += 20;
	while (!W[i].gate) {
		if (pthread_cond_timedwait(&W[i].c, &W[i].m, &ts) == ETIMEDOUT) {
			printf("stuck writer %d does not reach a gate\n", i);
			fflush(stdout);
			_exit(3);
		}
	}
	pthread_mutex_unlock(&W[i].m);
}

static int verif_poll(struct pollfd *fds, nfds_t n, int timeout)
{
	char marker;
	int go;
	if (my_idx < 0)
		return poll(fds, n, timeout);
	W[my_idx].stack = &marker;
	W[my_idx].wrote = 0;
	go = gate_wait('P');
	fds[0].revents = go == 1 ? POLLIN : 0;
	return go == 1 ? 1 : 0;
}

static int verif_lock(pthread_mutex_t *m)
{
	if (my_idx >= 0 && m == &write_list_lock && W[my_idx].wrote) {
		W[my_idx].wrote = 0;
		gate_wait('S');
	}
	return pthread_mutex_lock(m);
}

static int verif_munmap(void *p, size_t n)
{
	struct mcount_shmem_buffer *b = p;
	if (my_idx >= 0 && (b->size != 0 || b->flag != SHMEM_FL_WRITTEN))
		set_bad("writer %d hands back a buffer with size=%u flag=%u", my_idx, b->size, b->flag);
	return munmap(p, n);
}

int verif_shmem_open(const char *name, int oflag, mode_t mode)
{
	unsigned long sid;
	unsigned tid, idx;
	int i;
	if (sscanf(name, "/uftrace-%016lx-%u-%03u", &sid, &tid, &idx) != 3)
		return -1;
	for (i = 0; i < nvb; i++)
		if (vb[i].tid == (int)tid && vb[i].idx == (int)idx)
			return dup(vb[i].fd);
	errno = ENOENT;
	return -1;
}

void verif_send(int sock, int tid, void *data, size_t len)
{
	struct tag *t = data;
	size_t k;
	if (my_idx >= 0) {
		gate_wait('W');
		W[my_idx].wrote = 1;
	}
	if (len == 0)
		return;
	if (len % sizeof(*t) || t->magic != 0xc03c03c0u || (int)t->tid != tid)
		set_bad("write of %zu bytes for tid %d that are not one tagged buffer of that task", len, tid);
	for (k = 0; k < len / sizeof(*t); k++)
		if (t[k].tid != t[0].tid || t[k].idx != t[0].idx || t[k].k != k || t[k].magic != 0xc03c03c0u)
			set_bad("torn or mixed buffer contents at record %zu of %u.%u", k, t[0].tid, t[0].idx);
	loglen += snprintf(logbuf + loglen, sizeof(logbuf) - loglen, "%s%u.%u", loglen ? "," : "", t->tid, t->idx);
	if (loglen > (int)sizeof(logbuf) - 64)
		loglen = sizeof(logbuf) - 64;
}

/* ---- state printing ------------------------------------------------------------------------------------ */
static int known_node(struct list_head *l, struct buf_list **all, int n)
{
	int i;
	for (i = 0; i < n; i++)
		if (&all[i]->list == l)
			return 1;
	return 0;
}

static void show_buf(struct buf_list *b, int *first)
{
	struct mcount_shmem_buffer *s = b->shmem_buf;
	struct tag *t;
	if (s == NULL)
		return; /* already written, waits for the move to buf_free_list */
	t = (struct tag *)s->data;
	printf("%s%u.%u", *first ? "" : ",", t->tid, t->idx);
	*first = 0;
}

/* every struct buf_list the recorder ever made is remembered here (malloc hook is overkill: we collect them
   from the lists we can reach and from what we saw before) */
static struct buf_list *seen[MAXB];
static int nseen;

static void remember(struct buf_list *b)
{
	int i;
	for (i = 0; i < nseen; i++)
		if (seen[i] == b)
			return;
	if (nseen < MAXB)
		seen[nseen++] = b;
}

static void collect(void)
{
	struct buf_list *b;
	struct writer_arg *w;
	int i;
	list_for_each_entry(b, &buf_write_list, list)
		remember(b);
	list_for_each_entry(b, &buf_free_list, list)
		remember(b);
	for (i = 0; i < nw; i++) {
		if (W[i].gate == 'X')
			continue;
		w = W[i].warg;
		list_for_each_entry(b, &w->bufs, list)
			remember(b);
	}
}

static int on_list(struct list_head *head, struct buf_list *x)
{
	struct buf_list *b;
	list_for_each_entry(b, head, list)
		if (b == x)
			return 1;
	return 0;
}

static int kicks(void)
{
	int n = 0;
	if (ioctl(thread_ctl[0], FIONREAD, &n) < 0)
		return 0;
	return n / (int)sizeof(int);
}

static void show_state(const char *status)
{
	struct shmem_list *sl;
	struct buf_list *b;
	int first, i, j;

	collect();
	printf("%s SHM=[", status);
	first = 1;
	list_for_each_entry(sl, &shmem_list_head, list) {
		unsigned long sid;
		unsigned tid, idx;
		sscanf(sl->id, "/uftrace-%016lx-%u-%03u", &sid, &tid, &idx);
		printf("%s%u.%u", first ? "" : ",", tid, idx);
		first = 0;
	}
	printf("] WL=[");
	first = 1;
	list_for_each_entry(b, &buf_write_list, list)
		show_buf(b, &first);
	printf("] WR=[");
	for (i = 0; i < nw; i++) {
		struct writer_arg *w = W[i].warg;
		if (i)
			printf(";");
		if (W[i].gate == 'X') {
			printf("-::");
			continue;
		}
		if (w->tid == -1)
			printf("-:");
		else
			printf("%d:", w->tid);
		/* the local `head` of writer i: nodes on no global list whose chain ends in a sentinel on i's stack */
		first = 1;
		for (j = 0; j < nseen; j++) {
			struct buf_list *x = seen[j];
			struct list_head *l;
			int k, owner = -1, steps = 0;
			long best = 1 << 20;
			if (on_list(&buf_write_list, x) || on_list(&buf_free_list, x))
				continue;
			for (k = 0; k < nw; k++)
				if (W[k].gate != 'X' && on_list(&W[k].warg->bufs, x))
					break;
			if (k < nw)
				continue;
			if (x->list.next == &x->list)
				continue; /* not linked anywhere */
			/* is x the first node after the sentinel? */
			if (known_node(x->list.prev, seen, nseen))
				continue;
			for (k = 0; k < nw; k++) {
				long d = (char *)x->list.prev - W[k].stack;
				if (W[k].gate == 'X' || W[k].stack == NULL)
					continue;
				if (d < 0)
					d = -d;
				if (d < best) {
					best = d;
					owner = k;
				}
			}
			if (owner != i)
				continue;
			for (l = &x->list; l != x->list.prev && steps < MAXB; l = l->next, steps++)
				show_buf(list_entry(l, struct buf_list, list), &first);
		}
		printf(":");
		first = 1;
		list_for_each_entry(b, &w->bufs, list)
			show_buf(b, &first);
	}
	printf("] K=%d LOG=[%.*s]", thread_ctl[1] >= 0 ? kicks() : 0, loglen, logbuf);
	if (bad[0])
		printf(" BAD=%s", bad);
	printf("\n");
	fflush(stdout);
}

/* ---- commands ------------------------------------------------------------------------------------------ */
static void *tramp(void *arg)
{
	struct writer_arg *w = arg;
	my_idx = w->idx;
	writer_thread(arg);
	pthread_mutex_lock(&W[my_idx].m);
	W[my_idx].gate = 'X';
	pthread_cond_broadcast(&W[my_idx].c);
	pthread_mutex_unlock(&W[my_idx].m);
	return NULL;
}

static void wait_gate(int i)
{
	pthread_mutex_lock(&W[i].m);
	while (!W[i].gate)
		pthread_cond_wait(&W[i].c, &W[i].m);
	pthread_mutex_unlock(&W[i].m);
}

static void make_buffer(int tid, int idx, unsigned nrec)
{
	struct mcount_shmem_buffer *s;
	struct tag *t;
	unsigned k;
	int i, fd;
	for (i = 0; i < nvb; i++)
		if (vb[i].tid == tid && vb[i].idx == idx)
			return;
	if (nvb == MAXB) {
		printf("too many buffers\n");
		exit(2);
	}
	fd = memfd_create("c03buf", 0);
	if (fd < 0 || ftruncate(fd, BUFSZ) < 0) {
		perror("memfd");
		exit(2);
	}
	s = mmap(NULL, BUFSZ, PROT_READ | PROT_WRITE, MAP_SHARED, fd, 0);
	if (s == MAP_FAILED) {
		perror("mmap");
		exit(2);
	}
	if (nrec < 1)
		nrec = 1;
	if (nrec > (BUFSZ - sizeof(*s)) / sizeof(*t))
		nrec = (BUFSZ - sizeof(*s)) / sizeof(*t);
	t = (struct tag *)s->data;
	for (k = 0; k < nrec; k++)
		t[k] = (struct tag){ tid, idx, k, 0xc03c03c0u };
	s->size = nrec * sizeof(*t);
	s->flag = SHMEM_FL_RECORDING | (idx == 0 ? SHMEM_FL_NEW : 0);
	munmap(s, BUFSZ);
	vb[nvb++] = (struct vbuf){ tid, idx, fd, nrec };
}

static void send_msg(int type, int tid, int idx)
{
	char id[64];
	struct uftrace_msg m = { .magic = UFTRACE_MSG_MAGIC, .type = type };
	snprintf(id, sizeof(id), "/uftrace-%s-%d-%03d", SID, tid, idx);
	m.len = strlen(id);
	if (write(msgpipe[1], &m, sizeof(m)) < 0 || write(msgpipe[1], id, m.len) < 0) {
		perror("msgpipe");
		exit(2);
	}
	read_record_mmap(msgpipe[0], "", BUFSZ);
}

static int head_nonempty_or_gate(int i, int g)
{
	return W[i].gate == g;
}

static void drain(void)
{
	int i, progress = 1, rounds = 0;
	while (progress && rounds++ < 100000) {
		progress = 0;
		for (i = 0; i < nw; i++) {
			if (W[i].gate == 'W' || W[i].gate == 'S') {
				release(i, 1);
				progress = 1;
			}
			else if (W[i].gate == 'P' && !list_empty(&buf_write_list) && thread_ctl[1] >= 0 && kicks() > 0) {
				release(i, 1);
				progress = 1;
			}
		}
	}
}

int main(void)
{
	char line[256];
	int i;

	setvbuf(stdout, NULL, _IOLBF, 0);
	signal(SIGPIPE, SIG_IGN);
	vopts.host = "verif";
	vopts.dirname = "";
	vopts.bufsize = BUFSZ;
	if (pipe(msgpipe) < 0)
		return 2;

	while (fgets(line, sizeof(line), stdin)) {
		char cmd[32] = "", a3[8] = "";
		int a = 0, b = 0, c = 0, n;
		n = sscanf(line, "%31s %d %d %d", cmd, &a, &b, &c);
		if (n < 1)
			continue;
		if (!strcmp(cmd, "init")) {
			nw = a < 1 ? 1 : a > MAXW ? MAXW : a;
			if (pipe(thread_ctl) < 0)
				return 2;
			for (i = 0; i < nw; i++) {
				struct writer_arg *w = xzalloc(sizeof(*w));
				w->opts = &vopts;
				w->idx = i;
				w->tid = -1;
				w->sock = -1;
				INIT_LIST_HEAD(&w->list);
				INIT_LIST_HEAD(&w->bufs);
				W[i].warg = w;
				pthread_mutex_init(&W[i].m, NULL);
				pthread_cond_init(&W[i].c, NULL);
				pthread_create(&W[i].th, NULL, tramp, w);
			}
			for (i = 0; i < nw; i++)
				wait_gate(i);
			show_state("ok");
		}
		else if (!strcmp(cmd, "start")) {
			make_buffer(a, b, c);
			send_msg(UFTRACE_MSG_REC_START, a, b);
			show_state("ok");
		}
		else if (!strcmp(cmd, "end")) {
			int found = 0;
			for (i = 0; i < nvb; i++)
				found |= vb[i].tid == a && vb[i].idx == b;
			if (!found) {
				show_state("disabled");
				continue;
			}
			send_msg(UFTRACE_MSG_REC_END, a, b);
			show_state("ok");
		}
		else if (!strcmp(cmd, "pick")) {
			int force = sscanf(line, "%*s %*d %7s", a3) == 1 && a3[0] == 'f';
			if (a < 0 || a >= nw || !head_nonempty_or_gate(a, 'P') || (!force && (thread_ctl[1] < 0 || kicks() == 0))) {
				show_state("disabled");
				continue;
			}
			if (force && (thread_ctl[1] < 0 || kicks() == 0)) {
				/* the closed pipe reads as end of file: give the read() something harmless instead */
				show_state("disabled");
				continue;
			}
			release(a, 1);
			show_state("ok");
		}
		else if (!strcmp(cmd, "write") || !strcmp(cmd, "splice")) {
			if (a < 0 || a >= nw || W[a].gate != (cmd[0] == 'w' ? 'W' : 'S')) {
				show_state("disabled");
				continue;
			}
			release(a, 1);
			show_state("ok");
		}
		else if (!strcmp(cmd, "drain")) {
			drain();
			show_state("ok");
		}
		else if (!strcmp(cmd, "stop")) {
			int busy = 0;
			for (i = 0; i < nw; i++)
				busy |= W[i].gate != 'P';
			if (busy || thread_ctl[1] < 0) {
				show_state("disabled");
				continue;
			}
			stop_all_writers();
			for (i = 0; i < nw; i++) {
				release(i, 2);
				pthread_join(W[i].th, NULL);
			}
			show_state("ok");
		}
		else if (!strcmp(cmd, "flushall")) {
			if (thread_ctl[1] >= 0) {
				show_state("disabled");
				continue;
			}
			flush_shmem_list("", BUFSZ);
			show_state("ok");
		}
		else if (!strcmp(cmd, "remaining")) {
			if (thread_ctl[1] >= 0) {
				show_state("disabled");
				continue;
			}
			nseen = 0;
			record_remaining_buffer(&vopts, -1);
			show_state("ok");
		}
		else {
			printf("bad-op\n");
		}
	}
	fflush(stdout);
	_exit(0);
}
