/*
 * C16 end-to-end sender.  The real senders of the scratch snapshot
 *   cmds/recv.c      (#included: setup_client_socket, send_trace_dir_name, send_trace_data,
 *                     send_trace_perf_data, send_trace_kernel_data, send_trace_metadata,
 *                     send_trace_info, send_trace_end)
 *   cmds/record.c    (pieces extracted verbatim by translators/c16_extract.py: write_buffer and the
 *                     `if (opts->host)` tail of write_symbol_files)
 * put one complete LOCAL data directory on a TCP connection to a real `uftrace recv`, the way
 * `uftrace record --host` does for the same run:
 *   send_trace_dir_name(NAME);
 *   the contents of every TID.dat through write_buffer() in chunks, interleaved with the contents of
 *   every non-empty perf-cpuN.dat / kernel-cpuN.dat under its cpu number (record_perf_data() never
 *   sends an empty buffer, so a cpu without events sends nothing);
 *   the host block: task.txt, sid-*.map, *.sym, *.dbg, info, [kernel_header, kallsyms], [events.txt],
 *   send_trace_end, close, remove_directory(DIR)  -- so DIR must be a scratch copy.
 *
 * usage: c16_send <host> <port> <DIR> <NAME> <chunk bytes> <flags: k e or ->
 * exit 0 when everything was handed to the socket.
 */
#define _GNU_SOURCE
#include "cmds/recv.c"
#include "c16_record_gen.c"

struct src {
	char kind;		/* 'D' trace data, 'P' perf, 'K' kernel */
	int id;			/* tid or cpu */
	unsigned char *buf;
	long len, off;
};

static int cmp_src(const void *a, const void *b)
{
	const struct src *x = a, *y = b;

	if (x->kind != y->kind)
		return x->kind - y->kind;
	return (x->id > y->id) - (x->id < y->id);
}

static unsigned char *slurp(const char *path, long *len)
{
	FILE *fp = fopen(path, "rb");
	unsigned char *buf;

	if (!fp) {
		perror(path);
		exit(3);
	}
	fseek(fp, 0, SEEK_END);
	*len = ftell(fp);
	fseek(fp, 0, SEEK_SET);
	buf = malloc(*len + 1);
	if (*len && fread(buf, 1, *len, fp) != (size_t)*len) {
		perror(path);
		exit(3);
	}
	fclose(fp);
	return buf;
}

int main(int argc, char *argv[])
{
	struct uftrace_opts opts = {};
	struct writer_data wd;
	struct src *srcs = NULL;
	int nsrc = 0, i, sock, left;
	long chunk;
	DIR *dp;
	struct dirent *ent;

	if (argc != 7) {
		fprintf(stderr, "usage: c16_send host port dir name chunk flags\n");
		return 2;
	}
	opts.host = argv[1];
	opts.port = atoi(argv[2]);
	opts.dirname = argv[3];
	chunk = atol(argv[5]);
	opts.kernel = strchr(argv[6], 'k') != NULL;
	opts.event = strchr(argv[6], 'e') ? "ev" : NULL;
	if (chunk <= 0)
		chunk = 1 << 20;

	dp = opendir(opts.dirname);
	if (!dp) {
		perror(opts.dirname);
		return 3;
	}
	while ((ent = readdir(dp))) {
		char path[PATH_MAX];
		int id, n = 0;
		char kind = 0;

		if (sscanf(ent->d_name, "%d.dat%n", &id, &n) == 1 && n == (int)strlen(ent->d_name))
			kind = 'D';
		else if (sscanf(ent->d_name, "perf-cpu%d.dat%n", &id, &n) == 1 &&
			 n == (int)strlen(ent->d_name))
			kind = 'P';
		else if (sscanf(ent->d_name, "kernel-cpu%d.dat%n", &id, &n) == 1 &&
			 n == (int)strlen(ent->d_name))
			kind = 'K';
		if (!kind)
			continue;
		srcs = realloc(srcs, (nsrc + 1) * sizeof(*srcs));
		snprintf(path, sizeof(path), "%s/%s", opts.dirname, ent->d_name);
		srcs[nsrc].kind = kind;
		srcs[nsrc].id = id;
		srcs[nsrc].off = 0;
		srcs[nsrc].buf = slurp(path, &srcs[nsrc].len);
		nsrc++;
	}
	closedir(dp);
	qsort(srcs, nsrc, sizeof(*srcs), cmp_src);

	sock = setup_client_socket(&opts);
	send_trace_dir_name(sock, argv[4]);

	/* one chunk of every source in turn, as the writer threads take turns */
	do {
		left = 0;
		for (i = 0; i < nsrc; i++) {
			struct src *s = &srcs[i];
			long n = s->len - s->off;

			if (n <= 0)
				continue;
			if (n > chunk)
				n = chunk;
			if (s->kind == 'D') {
				struct mcount_shmem_buffer *shm = malloc(sizeof(*shm) + n + 1);
				struct buf_list bl = { .tid = s->id, .shmem_buf = shm };

				shm->size = n;
				shm->flag = 0;
				memcpy(shm->data, s->buf + s->off, n);
				write_buffer(&bl, &opts, sock);
				free(shm);
			}
			else if (s->kind == 'P')
				send_trace_perf_data(sock, s->id, s->buf + s->off, n);
			else
				send_trace_kernel_data(sock, s->id, s->buf + s->off, n);
			s->off += n;
			if (s->off < s->len)
				left = 1;
		}
	} while (left);

	memset(&wd, 0, sizeof(wd));
	wd.sock = sock;
	c16_host_block(&wd, &opts);	/* … send_trace_end, close(sock), remove_directory */
	return 0;
}
