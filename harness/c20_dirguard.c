/*
 * C20 correspondence harness: runs the real create_directory()/remove_directory()
 * of utils/utils.c (compiled from the scratch snapshot of /repo) on prepared
 * directory trees, with libc interposition for fault injection.
 *
 * stdin, one case per line:
 *   cd <parent> <d> <faults|->           create_directory(d) in <parent>
 *   live <parent> <tmp> <fillsrc> <faults|->
 *   trace <parent> <ev>,<ev>,... <fillsrc> <faults|->     an execution path of a command:
 *         c:<name> create_directory(name), filled from <fillsrc> when it succeeds;
 *         r:<name> remove_directory(name);  f:<name> nothing (mkstemp + unlink of a free name)
 * stdout per case:
 *   MODEL <line for `uvmodel C20`>
 *   IMPL <result line in the model's output format>
 */
#define _GNU_SOURCE
#include <dirent.h>
#include <dlfcn.h>
#include <errno.h>
#include <fcntl.h>
#include <stdio.h>
#include <stdlib.h>
#include <string.h>
#include <sys/stat.h>
#include <unistd.h>

int create_directory(const char *dirname);
int remove_directory(const char *dirname);
extern FILE *logfp, *outfp;

enum { K_STAT, K_UNLINK, K_RMDIR, K_RENAME, K_MKDIR, K_FOPEN, K_MAX };
static const char *kname[K_MAX] = { "stat", "unlink", "rmdir", "rename", "mkdir", "fopen" };
static int armed;
static int cnt[K_MAX];
static int nfault;
static struct { int kind, k; } faults[64];
static int fired;

static int tick(int kind)
{
	int i, k;

	if (!armed)
		return 0;
	k = cnt[kind]++;
	for (i = 0; i < nfault; i++) {
		if (faults[i].kind == kind && faults[i].k == k) {
			fired++;
			errno = EACCES;
			return 1;
		}
	}
	return 0;
}

#define REAL(name) ((typeof(&name))dlsym(RTLD_NEXT, #name))

int stat(const char *path, struct stat *st)
{
	if (tick(K_STAT))
		return -1;
	return REAL(stat)(path, st);
}
int stat64(const char *path, struct stat64 *st)
{
	if (tick(K_STAT))
		return -1;
	return REAL(stat64)(path, st);
}
/* the repaired remove_directory uses lstat(): same fault kind, same counter */
int lstat(const char *path, struct stat *st)
{
	if (tick(K_STAT))
		return -1;
	return REAL(lstat)(path, st);
}
int lstat64(const char *path, struct stat64 *st)
{
	if (tick(K_STAT))
		return -1;
	return REAL(lstat64)(path, st);
}
int unlink(const char *path)
{
	if (tick(K_UNLINK))
		return -1;
	return REAL(unlink)(path);
}
int rmdir(const char *path)
{
	if (tick(K_RMDIR))
		return -1;
	return REAL(rmdir)(path);
}
int rename(const char *a, const char *b)
{
	if (tick(K_RENAME))
		return -1;
	return REAL(rename)(a, b);
}
int mkdir(const char *path, mode_t mode)
{
	if (tick(K_MKDIR))
		return -1;
	return REAL(mkdir)(path, mode);
}
FILE *fopen(const char *path, const char *mode)
{
	if (tick(K_FOPEN))
		return NULL;
	return REAL(fopen)(path, mode);
}
FILE *fopen64(const char *path, const char *mode)
{
	if (tick(K_FOPEN))
		return NULL;
	return REAL(fopen64)(path, mode);
}

static void parse_faults(const char *s)
{
	char *dup, *tok, *save = NULL;

	nfault = 0;
	fired = 0;
	memset(cnt, 0, sizeof(cnt));
	if (!strcmp(s, "-"))
		return;
	dup = strdup(s);
	for (tok = strtok_r(dup, ",", &save); tok; tok = strtok_r(NULL, ",", &save)) {
		char *colon = strchr(tok, ':');
		int i;

		if (!colon)
			continue;
		*colon = 0;
		for (i = 0; i < K_MAX; i++) {
			if (!strcmp(tok, kname[i]) && nfault < 64) {
				faults[nfault].kind = i;
				faults[nfault].k = atoi(colon + 1);
				nfault++;
			}
		}
	}
	free(dup);
}

static int cmpstr(const void *a, const void *b)
{
	return strcmp(*(char *const *)a, *(char *const *)b);
}

/* dump entries of the directory `path` as tree tokens; readdir order or sorted */
static void dump_dir(const char *path, int sorted, FILE *out)
{
	DIR *dp = opendir(path);
	struct dirent *ent;
	char **names = NULL;
	int n = 0, i;

	if (!dp)
		return;
	while ((ent = readdir(dp))) {
		if (!strcmp(ent->d_name, ".") || !strcmp(ent->d_name, ".."))
			continue;
		names = realloc(names, (n + 1) * sizeof(*names));
		names[n++] = strdup(ent->d_name);
	}
	closedir(dp);
	if (sorted)
		qsort(names, n, sizeof(*names), cmpstr);

	for (i = 0; i < n; i++) {
		char buf[4096];
		struct stat st;

		snprintf(buf, sizeof(buf), "%s/%s", path, names[i]);
		if (lstat(buf, &st) < 0)
			continue;
		if (S_ISDIR(st.st_mode)) {
			fprintf(out, " D %s", names[i]);
			dump_dir(buf, sorted, out);
			fprintf(out, " E");
		}
		else if (S_ISLNK(st.st_mode)) {
			char target[1024];
			ssize_t tl = readlink(buf, target, sizeof(target) - 1);

			target[tl > 0 ? tl : 0] = 0;
			fprintf(out, " L %s %s", names[i], target);
		}
		else {
			int fd = open(buf, O_RDONLY);
			unsigned char data[256];
			int len = fd >= 0 ? read(fd, data, sizeof(data)) : 0, j;

			if (fd >= 0)
				close(fd);
			fprintf(out, " F %s ", names[i]);
			if (len <= 0)
				fprintf(out, "-");
			for (j = 0; j < len; j++)
				fprintf(out, "%02x", data[j]);
		}
		free(names[i]);
	}
	free(names);
}

int main(void)
{
	char line[8192];

	setvbuf(stdout, NULL, _IOLBF, 0);
	logfp = fopen("/dev/null", "w");
	outfp = logfp;
	while (fgets(line, sizeof(line), stdin)) {
		char cmd[16], parent[2048], d[256], a3[2048], a4[2048];
		int n = sscanf(line, "%15s %2047s %255s %2047s %2047s", cmd, parent, d, a3, a4);
		int ret;

		if (n < 4)
			continue;
		if (chdir(parent) < 0) {
			printf("MODEL bad\nIMPL chdir-failed\n");
			continue;
		}
		if (!strcmp(cmd, "cd")) {
			char old[300];

			snprintf(old, sizeof(old), "%s.old", d);
			parse_faults(a3);
			printf("MODEL cd %s %s %s |", d, old, a3);
			dump_dir(".", 0, stdout);
			printf("\n");
			armed = 1;
			ret = create_directory(d);
			armed = 0;
			printf("IMPL ok=%d |", ret == 0);
			dump_dir(".", 1, stdout);
			printf("\n");
			printf("INFO fired=%d\n", fired);
		}
		else if (!strcmp(cmd, "live") && n == 5) {
			char sh[8192];

			parse_faults(a4);
			printf("MODEL live %s %s |", d, a4);
			dump_dir(".", 0, stdout);
			printf(" |");
			armed = 1;
			ret = create_directory(d);
			armed = 0;
			if (ret == 0) {
				snprintf(sh, sizeof(sh), "cp -r '%s'/. '%s'/ 2>/dev/null", a3, d);
				if (system(sh) != 0) { /* empty fill source */ }
				dump_dir(d, 0, stdout);
				printf("\n");
				armed = 1;
				remove_directory(d);
				armed = 0;
			}
			else
				printf("\n");
			printf("IMPL");
			dump_dir(".", 1, stdout);
			printf("\n");
			printf("INFO fired=%d\n", fired);
		}
		else if (!strcmp(cmd, "trace") && n == 5) {
			char *mbuf = NULL, *tok, *save = NULL, *evs = strdup(d);
			size_t mlen = 0;
			FILE *m = open_memstream(&mbuf, &mlen);
			char res[256];
			int nres = 0;

			parse_faults(a4);
			fprintf(m, "MODEL trace %s %s |", a4, d);
			dump_dir(".", 0, m);
			for (tok = strtok_r(evs, ",", &save); tok; tok = strtok_r(NULL, ",", &save)) {
				const char *name = tok + 2;

				if (tok[0] == 'c') {
					armed = 1;
					ret = create_directory(name);
					armed = 0;
					if (nres < 255)
						res[nres++] = ret == 0 ? '1' : '0';
					if (ret == 0) {
						char sh[8192];

						snprintf(sh, sizeof(sh), "cp -r '%s'/. '%s'/ 2>/dev/null", a3, name);
						if (system(sh) != 0) { /* empty fill source */ }
						fprintf(m, " |");
						dump_dir(name, 0, m);
					}
				}
				else if (tok[0] == 'r') {
					armed = 1;
					remove_directory(name);
					armed = 0;
				}
			}
			res[nres] = 0;
			fclose(m);
			printf("%s\n", mbuf);
			printf("IMPL res=%s |", res);
			dump_dir(".", 1, stdout);
			printf("\n");
			printf("INFO fired=%d\n", fired);
			free(mbuf);
			free(evs);
		}
	}
	return 0;
}
