/* ground-truth logger and script cursor of the C11 e2e programs: compiled WITHOUT instrumentation */
#define _GNU_SOURCE
#include <stdio.h>
#include <sys/syscall.h>
#include <unistd.h>
#include "c11_e2e.h"

static volatile int pc;
static int nthread, nfork;
static __thread int tidx = -1;

int gt_pc_next(void) { return pc++; }
void gt_pc_skip(int n) { pc += n; nfork++; }
void gt_flush(void) { fflush(stdout); }
void gt_thread_start(void)
{
	tidx = nthread++;
	printf("T %d %ld\n", tidx, (long)syscall(SYS_gettid));
}
void gt_child(int n)
{
	tidx = 100 + nfork;
	printf("T %d %ld\n", tidx, (long)syscall(SYS_gettid));
}
void gt_enter(int fn, int depth) { printf("E %d %d %d\n", tidx, fn, depth); }
void gt_note(const char *what, int val) { printf("N %d %s %d\n", tidx, what, val); }
