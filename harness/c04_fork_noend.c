/*
 * C04 e2e probe (checks/c04.py): a fork() that announces itself to the recorder (libmcount's atfork prepare handler sends
 * FORK_START) but never produces a child that could send FORK_END.
 *   mode 0: control, the fork succeeds;
 *   mode 1: the clone system call fails with EAGAIN (seccomp filter), the program goes on and exits normally;
 *   mode 2: the process is killed AT the clone system call (SECCOMP_RET_KILL_PROCESS), i.e. between libmcount's prepare
 *           handler and the child's handler - "killed at any point".
 * `uftrace record` must terminate and leave a complete directory in all three.
 */
#define _GNU_SOURCE
#include <errno.h>
#include <linux/audit.h>
#include <linux/filter.h>
#include <linux/seccomp.h>
#include <stddef.h>
#include <stdio.h>
#include <stdlib.h>
#include <sys/prctl.h>
#include <sys/syscall.h>
#include <sys/wait.h>
#include <unistd.h>
volatile int sink;
__attribute__((noinline)) void before(void) { sink++; }
__attribute__((noinline)) void after(void) { sink++; }
static int no_clone(unsigned action)
{
	struct sock_filter f[] = {
		BPF_STMT(BPF_LD | BPF_W | BPF_ABS, offsetof(struct seccomp_data, nr)),
		BPF_JUMP(BPF_JMP | BPF_JEQ | BPF_K, __NR_clone, 3, 0),
		BPF_JUMP(BPF_JMP | BPF_JEQ | BPF_K, 435 /* clone3 */, 2, 0),
		BPF_JUMP(BPF_JMP | BPF_JEQ | BPF_K, __NR_fork, 1, 0),
		BPF_STMT(BPF_RET | BPF_K, SECCOMP_RET_ALLOW),
		BPF_STMT(BPF_RET | BPF_K, action),
	};
	struct sock_fprog prog = { sizeof(f) / sizeof(f[0]), f };
	if (prctl(PR_SET_NO_NEW_PRIVS, 1, 0, 0, 0)) return -1;
	return prctl(PR_SET_SECCOMP, SECCOMP_MODE_FILTER, &prog);
}
int main(int argc, char **argv)
{
	int mode = argc > 1 ? atoi(argv[1]) : 1;
	pid_t pid;
	for (int i = 0; i < 20; i++) before();
	if (mode && no_clone(mode == 1 ? (SECCOMP_RET_ERRNO | EAGAIN) : SECCOMP_RET_KILL_PROCESS)) { perror("seccomp"); return 3; }
	pid = fork();
	if (pid == 0) _exit(0);
	if (pid > 0) {
		waitpid(pid, 0, 0);
		for (int i = 0; i < 30; i++) after();
		return mode ? 4 : 0;      /* 4: the filter did not work */
	}
	for (int i = 0; i < 30; i++) after();
	printf("fork failed: errno %d\n", errno);
	return 0;
}
