/*
 * C19 end-to-end harness, libmcount side (see c19_hook.c).  This file sees
 * libmcount's internal headers; c19_hook.c sees python/trace-python.c.  Both are
 * linked statically with the libmcount sources of the scratch snapshot, so the
 * hooks called here are the real __cyg_profile_func_enter / _exit.
 */
#define _GNU_SOURCE
#include <errno.h>
#include <pthread.h>
#include <stdint.h>
#include <stdio.h>
#include <stdlib.h>
#include <string.h>
#include <time.h>
#include <unistd.h>

#include "libmcount/internal.h"
#include "libmcount/mcount.h"
#include "utils/symbol.h"
#include "utils/utils.h"

/* ---- scripted clock (overrides libc's for the whole executable) ---- */
static uint64_t hk_now = 1000;

int clock_gettime(clockid_t id, struct timespec *ts)
{
	ts->tv_sec = hk_now / 1000000000ULL;
	ts->tv_nsec = hk_now % 1000000000ULL;
	return 0;
}

void hk_set_clock(uint64_t t)
{
	hk_now = t;
}

extern void __cyg_profile_func_enter(void *child, void *parent);
extern void __cyg_profile_func_exit(void *child, void *parent);

void hk_enter(unsigned long child)
{
	__cyg_profile_func_enter((void *)child, NULL);
}

void hk_exit(void)
{
	__cyg_profile_func_exit(NULL, NULL);
}

static struct mcount_thread_data *hk_mtd(void)
{
	struct mcount_thread_data *mtdp = get_thread_data();

	if (check_thread_data(mtdp))
		return NULL;
	return mtdp;
}

/* mcount_prepare() ran on this thread: there is a shadow stack */
int hk_prepared(void)
{
	struct mcount_thread_data *mtdp = hk_mtd();

	return mtdp != NULL && mtdp->rstack != NULL;
}

int hk_idx(void)
{
	struct mcount_thread_data *mtdp = hk_mtd();

	return mtdp ? mtdp->idx : 0;
}

int hk_maxstack(void)
{
	return mcount_rstack_max;
}

/* where __cygprof_exit looks when idx == 0: &rstack[-1].flags (address arithmetic only) */
uint32_t *hk_below_ptr(void)
{
	struct mcount_thread_data *mtdp = hk_mtd();

	if (mtdp == NULL || mtdp->rstack == NULL)
		return NULL;
	return (uint32_t *)((char *)mtdp->rstack - sizeof(*mtdp->rstack) +
			    offsetof(struct mcount_ret_stack, flags));
}

long hk_below_offset(void)
{
	return (long)offsetof(struct mcount_ret_stack, flags) - (long)sizeof(struct mcount_ret_stack);
}

unsigned hk_cygflag(void)
{
	return MCOUNT_FL_CYGPROF;
}

/* every record written so far, oldest first: "<time>:<type>:<depth>:<addr>" */
int hk_dump_records(char *out, int cap, unsigned long *entry_addrs, int max_addrs)
{
	struct mcount_thread_data *mtdp = hk_mtd();
	struct mcount_shmem *shmem;
	int len = 0, nr = 0, i;

	out[0] = 0;
	if (mtdp == NULL || mtdp->shmem.buffer == NULL)
		return 0;
	shmem = &mtdp->shmem;
	for (i = 0; i < shmem->nr_buf && i <= shmem->curr; i++) {
		struct mcount_shmem_buffer *b = shmem->buffer[i];
		unsigned off;

		for (off = 0; off + sizeof(struct uftrace_record) <= b->size;
		     off += sizeof(struct uftrace_record)) {
			struct uftrace_record *r = (void *)(b->data + off);

			len += snprintf(out + len, cap - len, "%llu:%u:%u:%llu ",
					(unsigned long long)r->time, (unsigned)r->type,
					(unsigned)r->depth, (unsigned long long)r->addr);
			if (r->type == UFTRACE_ENTRY && nr < max_addrs) {
				int k, seen = 0;

				for (k = 0; k < nr; k++)
					if (entry_addrs[k] == r->addr)
						seen = 1;
				if (!seen)
					entry_addrs[nr++] = r->addr;
			}
			if (len > cap - 64)
				return nr;
		}
	}
	return nr;
}

/* the real reader of <dir>/python.fake.sym (utils/symbol.c), as the analysis commands use it */
static struct uftrace_module *hk_mod;

int hk_load_symfile(const char *dir)
{
	struct uftrace_sym_info sinfo = {
		.dirname = dir,
		.symdir = dir,
		.flags = SYMTAB_FL_USE_SYMFILE | SYMTAB_FL_DEMANGLE,
	};

	hk_mod = load_module_symtab(&sinfo, "python.fake", "");
	return hk_mod != NULL ? (int)hk_mod->symtab.nr_sym : -1;
}

const char *hk_resolve(unsigned long addr)
{
	struct uftrace_symbol *sym;

	if (hk_mod == NULL)
		return NULL;
	sym = find_sym(&hk_mod->symtab, addr);
	return sym ? sym->name : NULL;
}
