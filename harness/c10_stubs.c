/*
 * C10 harness: utils/data-file.c is linked for read_task_txt_file()/write_*_info();
 * its open_data_file()/close_data_file() reference these functions of other units,
 * which the harness never calls.
 */
#include <stdlib.h>
#define STUB(name) int name(void) { abort(); }
STUB(clear_uftrace_info)
STUB(finish_events_file)
STUB(finish_extern_data)
STUB(finish_perf_data)
STUB(read_events_file)
STUB(read_uftrace_info)
STUB(reset_task_handle)
STUB(setup_extern_data)
STUB(setup_fstack_args)
STUB(setup_kernel_data)
STUB(setup_perf_data)
