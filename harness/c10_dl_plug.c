/*
 * C10 e2e: a plugin library for the dlopen timeline runs (checks/c10.py).
 * Compiled with -pg -fPIC -shared and
 *   -DN=<id>                 suffix of every function name
 *   -DDEP=<id>               (optional) linked against plugin <id>; setup_N calls dep_fn_<id>
 *   -DNEST='"path"' -DNESTFN='"run_<id>"'
 *                            (optional) the constructor dlopen()s another plugin and calls into it
 *   -DDTOR                   (optional) a destructor that calls fini_N (runs inside dlclose())
 *   -DPAD=<bytes>            (optional) makes the image bigger, so that it is mapped elsewhere
 * The constructor runs while the dlopen() that loads the library has not returned yet.
 */
#include <dlfcn.h>
#include <stddef.h>

#define CAT_(a, b) a##b
#define CAT(a, b) CAT_(a, b)
#define F(x) CAT(x, N)

extern void c10_log(const char *tag, void *handle) __attribute__((weak));

static volatile int state;

#ifdef DEP
extern int CAT(dep_fn_, DEP)(int);
#endif

__attribute__((noinline)) int F(setup_)(int n)
{
	state += n;
#ifdef DEP
	state += CAT(dep_fn_, DEP)(n);
#endif
	return state;
}

__attribute__((noinline)) int F(pre_nest_)(int n)
{
	return state + n;
}

__attribute__((noinline)) int F(post_nest_)(int n)
{
	return state - n;
}

__attribute__((constructor, noinline)) static void F(ctor_)(void)
{
	F(setup_)(3);
#ifdef NEST
	{
		void *h;
		int (*fn)(int);

		F(pre_nest_)(1);
		h = dlopen(NEST, RTLD_LAZY);
		F(post_nest_)(1);
		if (c10_log)
			c10_log("nest", h);
		fn = h ? (int (*)(int))dlsym(h, NESTFN) : NULL;
		if (fn)
			state += fn(2);
	}
#endif
}

__attribute__((noinline)) int F(run_)(int x)
{
	return x + state;
}

#ifdef DTOR
__attribute__((noinline)) int F(fini_)(int x)
{
	return state -= x;
}

__attribute__((destructor, noinline)) static void F(dtor_)(void)
{
	F(fini_)(1);
}
#endif

#ifdef PAD
char F(pad_)[PAD] = { 1 };
#endif

__attribute__((noinline)) int F(dep_fn_)(int x)
{
	return x * 2 + state;
}
