/*
 * C19 end-to-end harness: the real uftrace_trace_python() of python/trace-python.c
 * (whole file #included) inside an embedded interpreter, with its cygprof_enter /
 * cygprof_exit pointers set to the real __cyg_profile_func_enter / _exit of the
 * libmcount sources linked statically into this executable (H1 style: libmcount's
 * constructor runs before main and reads the UFTRACE_* environment prepared by the
 * check; clock_gettime is scripted, see c19_hook_mc.c).  One case per process.
 *
 * stdin, one line:
 *   hook <fixed> <guard> <pin> <keep|set|clear> <ignored> <NONE|SINGLE|NESTED> <regex|glob|simple>
 *        <UFTRACE_FILTER|-> <lib names a,b|-> | <tok> ...
 *   tok = <ev>@<fid>  ev = c:<name> call, r:<name> return, C:<name> c_call, R:<name> c_return,
 *                     X:<name> c_exception, o:<name> another event string; the frame argument
 *                     is frame object <fid> (for C events: the caller's frame)
 *         new@<fid>   allocate frame object <fid> (a types.SimpleNamespace: every frame object of
 *                     this harness is in one size class of the allocator)
 *         del@<fid>   drop the harness' reference to frame object <fid>
 *   <fixed> <guard> <pin> are echoed (the check substitutes them per model variant);
 *   keep|set|clear: what bit 14 of the word at &rstack[-1].flags is while an exit hook runs with
 *   idx == 0 — as the heap has it, forced to 1, forced to 0 (the word is restored afterwards).  It
 *   stands for "whatever the heap holds there"; under `uftrace record` it varies from run to run.
 * stdout:
 *   MODEL hook <fixed> <guard> <pin> <the word, hex> <mcount_rstack_max> <mode> ... | <tok> ...
 *   IMPL  <E<addr>|X ...> | <count_in> <count_out> <libcall_count> | <time>:<type>:<depth>:<addr> ... |
 *         idx=<n> oob=<0|1> lone=<k> | <addr>:<type>:<name> ... (python.fake.sym as written by write_symtab) |
 *         <addr>=<name> ... (every recorded entry address looked up by utils/symbol.c's reader)
 *   NOTE  alias=<fids whose object got the first frame's address> firstref=<refcount the tracer
 *         added to the first frame> lone=<exit hooks that arrived with idx == 0> below=<natural word>
 */
#include "python/trace-python.c"

#include <setjmp.h>
#include <signal.h>
#include <stdio.h>
#include <stdlib.h>
#include <string.h>

#define MAIN_DIR "/uv/main"
#define MAXOUT (1 << 18)
#define MAXFID 4096

/* c19_hook_mc.c */
extern void hk_set_clock(uint64_t t);
extern void hk_enter(unsigned long child);
extern void hk_exit(void);
extern int hk_prepared(void);
extern int hk_idx(void);
extern int hk_maxstack(void);
extern uint32_t *hk_below_ptr(void);
extern unsigned hk_cygflag(void);
extern int hk_dump_records(char *out, int cap, unsigned long *entry_addrs, int max_addrs);
extern int hk_load_symfile(const char *dir);
extern const char *hk_resolve(unsigned long addr);

static char outbuf[MAXOUT];
static int outlen;
static char recbuf[MAXOUT];

static int poke_mode; /* 0 keep, 1 set, 2 clear */
static int n_lone;
static int oob;
static uint32_t below_used;
static uint32_t below_natural;
static int below_known;

static void h_enter(unsigned long child, unsigned long parent)
{
	outlen += snprintf(outbuf + outlen, MAXOUT - outlen, "E%lu ", child);
	hk_enter(child);
}

/* what had been written before an exit hook arrived with idx == 0: once libmcount has taken
 * rstack[-1] for a frame, anything may follow (garbage records, a crash); the case is compared up
 * to that point */
static char recbuf_before[MAXOUT];
static unsigned long addrs_before[4096];
static int naddr_before;
static int have_before;
static int crashed;
static sigjmp_buf crash_jmp;

static void crash_handler(int sig)
{
	siglongjmp(crash_jmp, 1);
}

static void h_exit(unsigned long child, unsigned long parent)
{
	uint32_t *volatile bp = NULL;
	volatile uint32_t saved = 0;
	volatile int lone = hk_prepared() && hk_idx() == 0;
	struct sigaction sa, old_segv, old_bus;

	outlen += snprintf(outbuf + outlen, MAXOUT - outlen, "X ");
	if (!lone) {
		hk_exit();
		return;
	}
	n_lone++;
	naddr_before = hk_dump_records(recbuf_before, MAXOUT, addrs_before, 4096);
	have_before = 1;

	memset(&sa, 0, sizeof(sa));
	sa.sa_handler = crash_handler;
	sigemptyset(&sa.sa_mask);
	sa.sa_flags = SA_NODEFER;
	sigaction(SIGSEGV, &sa, &old_segv);
	sigaction(SIGBUS, &sa, &old_bus);
#ifndef C19_NO_PEEK /* the AddressSanitizer build leaves the word alone: only libmcount may touch it */
	if (sigsetjmp(crash_jmp, 1) == 0) {
		bp = hk_below_ptr();
		saved = *bp;
		if (!below_known) {
			below_natural = saved;
			below_known = 1;
		}
		if (poke_mode == 1)
			*bp = saved | hk_cygflag();
		else if (poke_mode == 2)
			*bp = saved & ~hk_cygflag();
		below_used = *bp;
	}
	else {
		/* not even mapped: the code as found cannot survive looking at it */
		bp = NULL;
		below_used = hk_cygflag();
	}
#endif
	if (sigsetjmp(crash_jmp, 1) == 0)
		hk_exit();
	else
		crashed = 1;
	if (bp)
		*bp = saved;
	sigaction(SIGSEGV, &old_segv, NULL);
	sigaction(SIGBUS, &old_bus, NULL);
	if (crashed || hk_idx() < 0)
		oob = 1;
}

static PyObject *ns_type; /* types.SimpleNamespace */
static PyObject *c_funcs; /* dict: name -> PyCFunction */
static PyObject *frames[MAXFID];

static PyObject *h_dummy(PyObject *self, PyObject *args)
{
	Py_RETURN_NONE;
}

static PyObject *make_ns(void)
{
	PyObject *args = PyTuple_New(0);
	PyObject *o = PyObject_Call(ns_type, args, NULL);

	Py_DECREF(args);
	return o;
}

static void set_attr(PyObject *o, const char *k, PyObject *v)
{
	PyObject_SetAttrString(o, k, v);
	Py_DECREF(v);
}

/* make frame object f the frame of python function `name` */
static void dress_frame(PyObject *f, const char *name, int is_lib)
{
	char file[600], mod[256];
	PyObject *code, *glob, *m;
	const char *dot = strchr(name, '.');
	const char *qual;

	if (dot) {
		snprintf(mod, sizeof(mod), "%.*s", (int)(dot - name), name);
		qual = dot + 1;
	}
	else {
		strcpy(mod, "__main__");
		qual = name;
	}
	if (is_lib)
		snprintf(file, sizeof(file), "/usr/lib/python3/%s.py", mod);
	else if (dot)
		snprintf(file, sizeof(file), MAIN_DIR "/%s.py", mod);
	else
		snprintf(file, sizeof(file), MAIN_DIR "/main.py");

	code = make_ns();
	set_attr(code, "co_qualname", PyUnicode_FromString(qual));
	set_attr(code, "co_name", PyUnicode_FromString(qual));
	set_attr(code, "co_filename", PyUnicode_FromString(file));
	set_attr(code, "co_firstlineno", PyLong_FromLong(1));
	glob = PyDict_New();
	m = PyUnicode_FromString(mod);
	PyDict_SetItemString(glob, "__name__", m);
	Py_DECREF(m);
	set_attr(f, "f_code", code);
	set_attr(f, "f_globals", glob);
}

static PyObject *get_c_func(const char *name)
{
	PyObject *fn = PyDict_GetItemString(c_funcs, name);
	const char *dot = strchr(name, '.');
	PyMethodDef *def;
	PyObject *mod = NULL;

	if (fn)
		return fn;
	def = calloc(1, sizeof(*def));
	def->ml_name = strdup(dot ? dot + 1 : name);
	def->ml_meth = h_dummy;
	def->ml_flags = METH_VARARGS;
	if (dot && strncmp(name, "builtins.", 9)) {
		char modname[256];

		snprintf(modname, sizeof(modname), "%.*s", (int)(dot - name), name);
		mod = PyUnicode_FromString(modname);
	}
	fn = PyCFunction_NewEx(def, NULL, mod);
	Py_XDECREF(mod);
	PyDict_SetItemString(c_funcs, name, fn);
	Py_DECREF(fn);
	return fn;
}

static int in_list(const char *list, const char *name)
{
	size_t n = strlen(name);
	const char *p = list;

	if (!strcmp(list, "-"))
		return 0;
	while (p && *p) {
		const char *e = strchr(p, ',');
		size_t l = e ? (size_t)(e - p) : strlen(p);

		if (l == n && !strncmp(p, name, n))
			return 1;
		p = e ? e + 1 : NULL;
	}
	return 0;
}

static void finish(int rc)
{
	fflush(stdout);
	/* skip the destructors (the file's own would write python.sym into the cwd; libmcount's may
	 * not survive an out-of-bounds shadow stack) */
	_exit(rc);
}

int main(void)
{
	char *line = NULL;
	size_t cap = 0;
	char *save = NULL, *tok, *copy, *bar;
	char *cmd, *fixed, *guard, *pin, *below, *maxst, *mode, *ptype, *filt, *libs;
	PyObject *types, *r, *args;
	void *first_addr = NULL;
	long firstref = -1;
	int nev = 0, i;
	char alias[4096] = "";
	int alen = 0;
	const char *dir = getenv("UFTRACE_DIR");
	unsigned long entry_addrs[4096];
	int naddr;
	char path[4096];
	FILE *fp;

	if (getline(&line, &cap, stdin) <= 0)
		return 2;
	line[strcspn(line, "\n")] = 0;
	copy = strdup(line);
	cmd = strtok_r(copy, " ", &save);
	fixed = strtok_r(NULL, " ", &save);
	guard = strtok_r(NULL, " ", &save);
	pin = strtok_r(NULL, " ", &save);
	below = strtok_r(NULL, " ", &save);
	maxst = strtok_r(NULL, " ", &save);
	mode = strtok_r(NULL, " ", &save);
	ptype = strtok_r(NULL, " ", &save);
	filt = strtok_r(NULL, " ", &save);
	libs = strtok_r(NULL, " ", &save);
	tok = strtok_r(NULL, " ", &save);
	if (!cmd || strcmp(cmd, "hook") || !fixed || !guard || !pin || !below || !maxst || !mode ||
	    !ptype || !filt || !libs || !tok || strcmp(tok, "|") || dir == NULL) {
		fprintf(stderr, "bad case line: %s\n", line);
		return 2;
	}
	bar = strstr(line, " | ");
	if (!strcmp(below, "set"))
		poke_mode = 1;
	else if (!strcmp(below, "clear"))
		poke_mode = 2;

	/* ---- environment as cmds/record.c sets it up for the python module ---- */
	setenv("UFTRACE_SHMEM", "1", 1);
	setenv("UFTRACE_PYMAIN", MAIN_DIR "/main.py", 1);
	unsetenv("UFTRACE_DEBUG");
	if (!strcmp(filt, "-"))
		unsetenv("UFTRACE_FILTER");
	else
		setenv("UFTRACE_FILTER", filt, 1);
	setenv("UFTRACE_PATTERN", ptype, 1);
	if (!strcmp(mode, "SINGLE"))
		unsetenv("UFTRACE_PY_LIBCALL");
	else
		setenv("UFTRACE_PY_LIBCALL", mode, 1);

	Py_Initialize();
	types = PyImport_ImportModule("types");
	ns_type = types ? PyObject_GetAttrString(types, "SimpleNamespace") : NULL;
	c_funcs = PyDict_New();
	if (!ns_type) {
		fprintf(stderr, "no SimpleNamespace\n");
		return 2;
	}

	/* the real module init: sets skip_first_frame, calls init_uftrace() */
	if (PyInit_uftrace_python() == NULL) {
		fprintf(stderr, "module init failed\n");
		return 2;
	}
	cygprof_enter = h_enter;
	cygprof_exit = h_exit;
	/* the regions stay mapped; nothing is left in /dev/shm if this process is killed (sanitizer) */
	if (symtab)
		uftrace_shmem_unlink(uftrace_shmem_name);
	if (dbg_info)
		uftrace_shmem_unlink(uftrace_shmem_dbg_name);

	while ((tok = strtok_r(NULL, " ", &save)) != NULL && !oob) {
		char *at = strrchr(tok, '@');
		int fid;

		if (at == NULL) {
			fprintf(stderr, "bad token %s\n", tok);
			finish(2);
		}
		*at = 0;
		fid = atoi(at + 1);
		if (fid < 0 || fid >= MAXFID) {
			fprintf(stderr, "bad frame id %d\n", fid);
			finish(2);
		}
		if (!strcmp(tok, "new")) {
			frames[fid] = make_ns();
			if (first_addr && (void *)frames[fid] == first_addr)
				alen += snprintf(alias + alen, sizeof(alias) - alen, "%s%d", alen ? "," : "", fid);
			continue;
		}
		if (!strcmp(tok, "del")) {
			Py_CLEAR(frames[fid]);
			continue;
		}
		{
			const char *name = tok + 2;
			const char *ev;
			PyObject *frame = frames[fid], *arg;
			int is_lib = in_list(libs, name);
			long before = 0;

			if (tok[1] != ':' || !*name || frame == NULL) {
				fprintf(stderr, "bad event %s@%d\n", tok, fid);
				finish(2);
			}
			switch (tok[0]) {
			case 'c': ev = "call"; break;
			case 'r': ev = "return"; break;
			case 'C': ev = "c_call"; break;
			case 'R': ev = "c_return"; break;
			case 'X': ev = "c_exception"; break;
			case 'o': ev = "exception"; break;
			default:
				fprintf(stderr, "bad event %s\n", tok);
				finish(2);
			}
			if (tok[0] == 'c' || tok[0] == 'r') {
				if (!PyObject_HasAttrString(frame, "f_code"))
					dress_frame(frame, name, is_lib);
				arg = Py_None;
			}
			else {
				arg = get_c_func(name);
			}
			hk_set_clock(1000 + 10 * (uint64_t)nev);
			if (nev == 0) {
				first_addr = frame;
				before = (long)Py_REFCNT(frame);
			}
			args = Py_BuildValue("(OsO)", frame, ev, arg);
			r = uftrace_trace_python(NULL, args);
			if (r == NULL) {
				PyErr_Print();
				fprintf(stderr, "trace function raised\n");
				finish(2);
			}
			Py_DECREF(r);
			Py_DECREF(args);
			if (nev == 0)
				firstref = (long)Py_REFCNT(frame) - before;
			nev++;
		}
	}

	/* ---- what was written ---- */
	if (oob && have_before) {
		memcpy(recbuf, recbuf_before, MAXOUT);
		memcpy(entry_addrs, addrs_before, sizeof(entry_addrs));
		naddr = naddr_before;
	}
	else {
		naddr = hk_dump_records(recbuf, MAXOUT, entry_addrs, 4096);
	}
	write_symtab(dir); /* the real one: <dir>/python.fake.sym */

	printf("MODEL hook %s %s %s %x %d %s %s %s %s%s\n", fixed, guard, pin, below_used, hk_maxstack(),
	       mode, ptype, filt, libs, bar ? bar : " |");
	printf("IMPL %s| %d %d %d | %s| idx=%d oob=%d lone=%d |", outbuf, filter_state.count_in,
	       filter_state.count_out, libcall_count, recbuf, oob ? 0 : hk_idx(), oob, n_lone);
	snprintf(path, sizeof(path), "%s/%s.sym", dir, UFTRACE_PYTHON_SYMTAB_NAME);
	fp = fopen(path, "r");
	if (fp) {
		char *l = NULL;
		size_t c = 0;

		while (getline(&l, &c, fp) > 0) {
			unsigned long a;
			char type;
			char nm[512];

			if (l[0] == '#')
				continue;
			if (sscanf(l, "%lx %c %511s", &a, &type, nm) == 3)
				printf(" %lu:%c:%s", a, type, nm);
			else
				printf(" BAD-LINE");
		}
		free(l);
		fclose(fp);
	}
	else {
		printf(" NO-SYM-FILE");
	}
	printf(" |");
	if (hk_load_symfile(dir) < 0)
		printf(" READER-FAILED");
	for (i = 0; i < naddr; i++) {
		const char *nm = hk_resolve(entry_addrs[i]);

		printf(" %lu=%s", entry_addrs[i], nm ? nm : "?");
	}
	printf("\n");
	printf("NOTE alias=%s firstref=%ld lone=%d below=%x crashed=%d\n", alen ? alias : "-", firstref, n_lone,
	       below_natural, crashed);
	unlink(path);
	finish(0);
	return 0;
}
