/* C15 / H4: drive the real escaping functions of the snapshot build.
 *   print_json_escaped_char()  cmds/replay.c
 *   json_quote()               utils/utils.c
 * linked against the objects of the (ASan) uftrace build; uftrace.o's main is
 * renamed by objcopy.  stdin: "esc <hex>" | "quote <hex>" ("-" = empty);
 * stdout: MODEL <query for uvmodel C15> / IMPL <result in the model's format>. */
#include <stdio.h>
#include <stdlib.h>
#include <string.h>

void print_json_escaped_char(char **args, size_t *len, const char c);
char *json_quote(char *str, int *len);

static int hexval(int c)
{
	if (c >= '0' && c <= '9')
		return c - '0';
	if (c >= 'a' && c <= 'f')
		return c - 'a' + 10;
	return -1;
}

static size_t unhex(const char *s, unsigned char *out)
{
	size_t n = 0;

	if (!strcmp(s, "-"))
		return 0;
	while (s[0] && s[1] && hexval(s[0]) >= 0 && hexval(s[1]) >= 0) {
		out[n++] = hexval(s[0]) * 16 + hexval(s[1]);
		s += 2;
	}
	return n;
}

static void puthex(const unsigned char *b, size_t n)
{
	size_t i;

	if (n == 0) {
		printf("-");
		return;
	}
	for (i = 0; i < n; i++)
		printf("%02x", b[i]);
}

int main(void)
{
	static char line[1 << 20];
	static unsigned char in[1 << 19];
	static char out[1 << 22];

	while (fgets(line, sizeof(line), stdin)) {
		static char op[16], arg[1 << 19];
		size_t n, i;

		if (sscanf(line, "%15s %524287s", op, arg) != 2)
			continue;
		n = unhex(arg, in);
		printf("MODEL %s %s\n", op, arg);
		printf("IMPL ");
		if (!strcmp(op, "esc")) {
			char *p = out;
			size_t len = sizeof(out) - 1;

			for (i = 0; i < n; i++)
				print_json_escaped_char(&p, &len, (char)in[i]);
			puthex((unsigned char *)out, p - out);
		}
		else if (!strcmp(op, "quote")) {
			int len = n;
			char *q;

			in[n] = '\0';
			q = json_quote((char *)in, &len);
			puthex((unsigned char *)q, len);
			free(q);
		}
		printf("\n");
	}
	return 0;
}
