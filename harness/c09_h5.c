/*
 * C09 / H5: a traced program that prints what it computed from its own arguments.
 * Built with -pg and run under `uftrace record -A/-R` of the snapshot build: its output must be
 * the same as without tracing, and `uftrace replay` must show the values it really passed
 * (string, NULL, unreadable pointer, double, float, long, long double on the stack).
 */
#include <stdio.h>
#include <string.h>
__attribute__((noinline)) double mix(const char *s, double d, float f, long n) { return d * 2 + f + n; }
__attribute__((noinline)) const char *pick(int i, const char *a) { return i ? a : NULL; }
__attribute__((noinline)) long double ld(long double x, int k) { return x * k; }
int main(void) {
	double r1 = mix("h\xc3\xa9llo", 1.5, 0.25f, -3);
	double r2 = mix(NULL, 2.5, 0.5f, 7);
	double r3 = mix((const char *)0x10, 3.5, 0.75f, 100001);
	const char *p = pick(1, "NULL");
	const char *q = pick(0, "x");
	long double l = ld(1.25L, 4);
	printf("%f %f %f %s %p %Lf\n", r1, r2, r3, p, (void *)q, l);
	return 0;
}
