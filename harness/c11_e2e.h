/* shared between harness/c11_e2e.c (instrumented), c11_e2e_gt.c (not instrumented),
 * c11_e2e_lib.cc (a non-instrumented shared library) and the generated script.h */
#ifndef C11_E2E_H
#define C11_E2E_H

enum {
	OP_CALL, OP_RET, OP_LEAF, OP_SPIN, OP_SETJMP, OP_SIGSETJMP, OP_LONGJMP, OP_SIGLONGJMP, OP_TAIL,
	OP_VFORK, OP_FORK, OP_THREAD, OP_PEXIT, OP_EXIT, OP_LIBTAIL,
	/* C++ only */
	OP_TRYCALL, OP_DTORCALL, OP_RETHROWCALL, OP_THROW, OP_LIBDTORCALL, OP_LIBCBCATCH, OP_STATICTHROW,
};

struct op {
	int kind, a, b;
};

#define NFN 13
/* ids used in the ground-truth log: 0..5 = f0..f5, 10..12 = t0..t2 */
enum { FN_LEAF = 20, FN_SPIN, FN_VFORK, FN_CB, FN_CTOR, FN_DTOR, FN_CBCATCH, FN_STATIC };

#ifdef __cplusplus
extern "C" {
#endif
extern const struct op script[];
void gt_enter(int fn, int depth);
void gt_note(const char *what, int val);
int gt_pc_next(void);
void gt_pc_skip(int n);
void gt_thread_start(void);
void gt_child(int n);
void gt_flush(void);
/* the library */
void lib_tailcall(int (*f)(int), int x);
void lib_tailcall_v(void (*f)(int), int x);
#ifdef __cplusplus
}
struct LibObj {
	void (*cb)(int);
	int v;
	~LibObj();
};
#endif
#endif
