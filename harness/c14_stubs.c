/*
 * C14 harness: link-time stubs for symbols that the pulled-in utils objects
 * (utils/filter.c: triggers with argument specs; arch mcount-dynamic.c: xray
 * trampolines; libmcount/dynamic.c: dl_iterate_phdr callback) reference but the
 * anchored -P/-U path never calls.  Kept in a TU without uftrace headers so the
 * prototypes cannot conflict.
 */
#include <stddef.h>

void __xray_entry(void)
{
}
void __xray_exit(void)
{
}
void *find_auto_argspec(void *a, void *b, void *c, void *d)
{
	return NULL;
}
void *find_auto_retspec(void *a, void *b, void *c, void *d)
{
	return NULL;
}
void free_arg_spec(void *a)
{
}
void *parse_argspec(char *a, void *b)
{
	return NULL;
}
_Bool mcount_is_main_executable(const char *filename, const char *exename)
{
	return 0;
}
