/* a library that is NOT instrumented (built -O2): tail calls into callbacks, and a class whose
 * destructor calls back into the program (it runs from landing pads) */
#include "c11_e2e.h"
extern "C" void lib_tailcall(int (*f)(int), int x) { f(x); }
extern "C" void lib_tailcall_v(void (*f)(int), int x) { f(x); }
LibObj::~LibObj() { cb(v); }
