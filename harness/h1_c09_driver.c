/*
 * C09 — H1 driver for the argument / return-value payload path.  Linked statically with
 * the libmcount sources of the scratch snapshot (lib/h1.py); UFTRACE_ARGUMENT / UFTRACE_RETVAL
 * carry the specs.  The per-thread argument buffer is replaced by a block of the same layout
 * (1024-byte slices) that has one extra slice at the end, so that every slice -- also the last
 * one -- is followed by memory the driver owns and can inspect.
 *
 * stdin ops (one per line), stdout one line per op "<opno> ...":
 *   T <n>              scripted clock := n
 *   FILL <hex byte>    fill byte for the slice of the next frame and the slice after it
 *   R <k> <hex64>      integer argument register k (0..5 = rdi rsi rdx rcx r8 r9)
 *   XMM <k> <hex64>    low 64 bits of xmm<k> at the next entry (k = 0..7)
 *   SW <k> <hex64>     stack word: parent_loc[k], k = 1..110
 *   RV <hex64>         *retval at the next exit
 *   FP <hex64>         xmm0 (low 64 bits) at the next exit
 *   ST0 <hex20>        x87 st(0) at the next exit (10 bytes, little endian hex)
 *   STR <slot> <hex|-> define C string <slot> (bytes + NUL)            -> "ok addr=<hex>"
 *   STRW <slot> <hex|-> same, placed so that the NUL is the last byte of a readable page
 *   STRAT <hexaddr> <hex|-> write bytes + NUL at an absolute address (wall / hole areas)   -> "ok addr=<hex>"
 *   OBJ <slot> <hexptr> std::string object whose _M_dataplus is <hexptr> -> "ok addr=<hex>"
 *   E <fn>             mcount_entry(f<fn>)   -> "rc= hij= idx= xc=<mask of xmm registers changed by the hook> arg=<flag> sz=<size field> mem=<hex>"
 *   X                  mcount_exit           -> "ret= rvf=<flag> sz= mem=<hex> recs=<hex>"
 *   XTA <hex trigger|-> <hex args|-> <hex rets|->
 *                      extract_trigger_args() of the snapshot (what `uftrace record` stores in the info file
 *                      for -T / -A / -R)  -> "n=<rc> argspec=<hex|-> retspec=<hex|->"
 *   MRMAP <hexaddr> <npages> <r|n>   mmap(MAP_FIXED) inside the MR arena (r = readable+writable, n = PROT_NONE)  -> "ok"
 *   MRUNMAP <hexaddr> <npages>       munmap inside the MR arena                                                -> "ok"
 *   MRBRK <hexdelta>                 sbrk(+delta)                                                              -> "ok brk=<hex>"
 *   MRSTR <addr> <hex|->             bytes + NUL at <addr> (hex, or B+<hex> = program break + offset, K+<hex> = break before the last MRBRK + offset, H+<hex> = heap start + offset)
 *   MRQ <addr> <safe> <chk>          one query of the readable-region cache.  The address space is read (raw read of
 *                                    /proc/self/maps, no allocation) -> "addr=<hex> maps=<start:stop:r|n:p|h|s;...>";
 *                                    chk=1: check_mem_region() of the snapshot is called directly -> " chk=<0|1>";
 *                                    rd=<0|1>: a string at <addr> can be loaded now (by the maps just read);
 *                                    skip=1: safe=1, the verdict was "readable" and it is not -> the following E/X pair
 *                                    is not executed ("skipped": the capture would fault the driver)
 *   R <k> @            register k := address of the last MRQ
 *   DCOPY              uftrace_deep_copy_triggers(mcount_triggers) (what the libmcount agent does before it applies an
 *                      update): -> "orig=<tree> copy=<tree> pargs=<0|1>", tree = filters in address order, each
 *                      <start>-<end>:<flags>:<root distance>[idx/fmt/size/exact/type/reg-or-ofs/regcnt/type name,...];
 *                      pargs=1: every copied filter's trigger.pargs points to its own list
 *   END
 * mem = bytes [4, 2048) of the frame's slice (i.e. including the whole next slice) without the
 * trailing bytes that still have the fill value.
 */
#define _GNU_SOURCE
#include <errno.h>
#include <fcntl.h>
#include <pthread.h>
#include <signal.h>
#include <stdint.h>
#include <stdio.h>
#include <stdlib.h>
#include <string.h>
#include <sys/mman.h>
#include <time.h>
#include <unistd.h>

#include "libmcount/internal.h"
#include "libmcount/mcount.h"
#include "utils/utils.h"
#include "utils/filter.h"
#include "utils/argspec.h"
#include "utils/rbtree.h"

static uint64_t h1_now = 1000;

int clock_gettime(clockid_t id, struct timespec *ts)
{
	ts->tv_sec = h1_now / 1000000000ULL;
	ts->tv_nsec = h1_now % 1000000000ULL;
	return 0;
}

#define DUMMY(n)                                                                                   \
	__attribute__((noinline, used)) void n(void)                                               \
	{                                                                                          \
		asm volatile("nop;nop;nop;nop;nop;nop;nop;nop;nop;nop;nop;nop;nop;nop;nop;nop");   \
	}
DUMMY(f0) DUMMY(f1) DUMMY(f2) DUMMY(f3)
extern void f4(void), f5(void), f6(void), f7(void);
DUMMY(f8) DUMMY(f9) DUMMY(f10) DUMMY(f11) DUMMY(f12) DUMMY(f13) DUMMY(f14) DUMMY(f15)
DUMMY(f16) DUMMY(f17) DUMMY(f18) DUMMY(f19) DUMMY(f20) DUMMY(f21) DUMMY(f22) DUMMY(f23)
DUMMY(f24) DUMMY(f25) DUMMY(f26) DUMMY(f27) DUMMY(f28) DUMMY(f29) DUMMY(f30) DUMMY(f31)

typedef void (*fn_t)(void);
static fn_t funcs[] = { f0,  f1,  f2,  f3,  f4,  f5,  f6,  f7,  f8,  f9,  f10, f11, f12, f13, f14, f15,
			f16, f17, f18, f19, f20, f21, f22, f23, f24, f25, f26, f27, f28, f29, f30, f31 };
#define NFUNC (sizeof(funcs) / sizeof(funcs[0]))

extern int mcount_entry(unsigned long *parent_loc, unsigned long child, struct mcount_regs *regs);
extern unsigned long mcount_exit(long *retval);
extern unsigned long mcount_return_fn;
extern int extract_trigger_args(char **pargs, char **prets, char *trigger);

static char *xta_arg(const char *h)
{
	size_t n = strlen(h) / 2, i;
	char *out;

	if (!strcmp(h, "-"))
		return NULL;
	out = malloc(n + 1);
	for (i = 0; i < n; i++) {
		unsigned v;

		sscanf(h + 2 * i, "%2x", &v);
		out[i] = v;
	}
	out[n] = 0;
	return out;
}

static void xta_out(const char *k, const char *s)
{
	printf(" %s=", k);
	if (s == NULL || !*s) {
		printf("%s", s ? "00" : "-");
		return;
	}
	for (; *s; s++)
		printf("%02x", (unsigned char)*s);
}

#define NSTACK 112
struct hframe {
	int fn;
	int hijacked;
	int idx;
	unsigned long orig;
	unsigned long slot[2 + NSTACK]; /* slot[1] = return slot = parent_loc; parent_loc[k] = slot[1 + k] */
};
static struct hframe hstack[64];
static int hdepth;

static int cur_buf;
static unsigned cur_off;

static void dump_new_records(int quiet)
{
	struct mcount_thread_data *mtdp = get_thread_data();
	struct mcount_shmem *shmem;
	int any = 0;

	if (quiet) {
		if (mtdp && !check_thread_data(mtdp) && mtdp->shmem.buffer) {
			cur_buf = mtdp->shmem.curr > 0 ? mtdp->shmem.curr : 0;
			cur_off = mtdp->shmem.buffer[cur_buf]->size;
		}
		return;
	}
	printf(" recs=");
	if (mtdp == NULL || check_thread_data(mtdp) || mtdp->shmem.buffer == NULL) {
		printf("-");
		return;
	}
	shmem = &mtdp->shmem;
	while (cur_buf < shmem->nr_buf) {
		struct mcount_shmem_buffer *b = shmem->buffer[cur_buf];
		unsigned size = b->size;

		for (; cur_off < size; cur_off++) {
			printf("%02x", (unsigned char)b->data[cur_off]);
			any = 1;
		}
		if (shmem->curr > cur_buf) {
			cur_buf++;
			cur_off = 0;
			continue;
		}
		break;
	}
	if (!any)
		printf("-");
}

/* ---- strings and objects ---- */
#define NSLOT 64
static char strpool[NSLOT][160];
static char *strptr[NSLOT];
/* page 0 readable, page 1 PROT_NONE (static: same address in every run of a non-PIE binary) */
static char wallarea[3 * 4096] __attribute__((aligned(4096)));
static char *wallpage;
static long objpool[NSLOT][4];

/* three pages: readable, unmapped (a hole punched into .bss at start-up), readable */
static char holearea[3 * 4096] __attribute__((aligned(4096)));
static unsigned long holepage;

static volatile int cur_opno;
static void crash_handler(int sig)
{
	/* the property: an unreadable string pointer must not fault the traced program */
	printf("\n%d CRASH sig=%d\n", cur_opno, sig);
	fflush(stdout);
	_exit(77);
}

static unsigned char fillb;
static unsigned char *bigbuf;
static int maxstack;

static void dump_mem(unsigned char *slice)
{
	int end = 2048;

	while (end > 4 && slice[end - 1] == fillb)
		end--;
	printf(" mem=");
	if (end == 4)
		printf("-");
	for (int i = 4; i < end; i++)
		printf("%02x", slice[i]);
}

static int unhex(const char *h, unsigned char *out, int max)
{
	int n = 0;

	if (!strcmp(h, "-"))
		return 0;
	while (h[0] && h[1] && n < max) {
		unsigned v;

		sscanf(h, "%2x", &v);
		out[n++] = v;
		h += 2;
	}
	return n;
}

/* ---- MR family: histories of the address space against check_mem_region ---- */
#define MR_ARENA 0x100000000000UL
#define MR_ARENA_PAGES 256
extern bool check_mem_region(struct mcount_arg_context *ctx, unsigned long addr);
struct mr_line {
	unsigned long s, e;
	int r;
	char k;
};
static char mr_buf[1 << 17];
static struct mr_line mr_lines[1024];
static int mr_nlines;
static unsigned long mr_last_addr;
static int mr_skip, mr_skipx;
static unsigned long mr_grown; /* the program break before the last MRBRK */

static void mr_read_maps(void)
{
	int fd = open("/proc/self/maps", O_RDONLY);
	size_t len = 0;
	char *p, *nl;

	mr_nlines = 0;
	if (fd < 0)
		return;
	for (;;) {
		ssize_t n = read(fd, mr_buf + len, sizeof(mr_buf) - 1 - len);

		if (n <= 0)
			break;
		len += n;
	}
	close(fd);
	mr_buf[len] = 0;
	for (p = mr_buf; *p && mr_nlines < 1024; p = nl + 1) {
		struct mr_line *l = &mr_lines[mr_nlines];
		char *q;

		nl = strchr(p, '\n');
		if (nl == NULL)
			break;
		*nl = 0;
		l->s = strtoul(p, &q, 16);
		l->e = strtoul(q + 1, &q, 16);
		l->r = q[1] == 'r';
		l->k = strstr(q, "[heap]") ? 'h' : strstr(q, "[stack") ? 's' : 'p';
		mr_nlines++;
	}
}

static int mr_page_readable(unsigned long a)
{
	int i;

	for (i = 0; i < mr_nlines; i++)
		if (mr_lines[i].r && mr_lines[i].s <= a && a < mr_lines[i].e)
			return 1;
	return 0;
}

/* the copy loop of save_to_argbuf can load the string at a (by the maps just read) */
static int mr_string_readable(unsigned long a)
{
	unsigned long end = (a | 4095UL) + 1, i;

	if (!mr_page_readable(a))
		return 0;
	for (i = a; i < end && i < a + 100; i++)
		if (*(volatile char *)i == 0)
			return 1;
	if (i == a + 100)
		return 1;
	return mr_page_readable(end);
}

static unsigned long mr_heap_start(void)
{
	int i;

	for (i = 0; i < mr_nlines; i++)
		if (mr_lines[i].k == 'h')
			return mr_lines[i].s;
	return 0;
}

static unsigned long mr_addr(const char *t)
{
	if (t[0] == 'B' && t[1] == '+')
		return (unsigned long)sbrk(0) + strtoul(t + 2, NULL, 16);
	if (t[0] == 'K' && t[1] == '+')
		return mr_grown + strtoul(t + 2, NULL, 16);
	if (t[0] == 'H' && t[1] == '+') {
		mr_read_maps();
		return mr_heap_start() + strtoul(t + 2, NULL, 16);
	}
	return strtoul(t, NULL, 16);
}

static int mr_in_arena(unsigned long a, unsigned long n)
{
	return a >= MR_ARENA && (a & 4095) == 0 && n >= 1 && a + n * 4096 <= MR_ARENA + MR_ARENA_PAGES * 4096UL;
}

/* ---- DCOPY: the deep copy of the trigger tree made by the agent ---- */
extern struct uftrace_triggers_info *mcount_triggers;

static int dcopy_print(struct rb_root *root)
{
	struct rb_node *n;
	int own = 1, any = 0;

	for (n = rb_first(root); n; n = rb_next(n)) {
		struct uftrace_filter *f = rb_entry(n, struct uftrace_filter, node);
		struct uftrace_arg_spec *a;
		struct rb_node *up;
		int dist = 0, first = 1;

		for (up = n; rb_parent(up); up = rb_parent(up))
			dist++;
		printf("%lx-%lx:%x:%d[", (unsigned long)f->start, (unsigned long)f->end, (unsigned)f->trigger.flags, dist);
		list_for_each_entry(a, &f->args, list) {
			printf("%s%d/%d/%d/%d/%d/%d/%d/%s", first ? "" : ",", a->idx, (int)a->fmt, a->size, (int)a->exact,
			       (int)a->type, (int)a->reg_idx, (int)a->struct_reg_cnt, a->type_name ? a->type_name : "-");
			first = 0;
		}
		printf("];");
		if (f->trigger.pargs != &f->args)
			own = 0;
		any = 1;
	}
	if (!any)
		printf("-");
	return own;
}

int main(void)
{
	static char line[8192];
	int opno = 0;
	struct mcount_regs regs;
	long retval = 0;
	uint64_t xmm[8] = { 0 };
	uint64_t xmm_after[8] = { 0 };
	uint64_t stackw[NSTACK] = { 0 };
	uint64_t fpret = 0;
	unsigned char st0[16] = { 0 };
	int have_st0 = 0;
	long page = 4096;
	char *nonepage;

	memset(&regs, 0, sizeof(regs));
	setvbuf(stdout, NULL, _IOFBF, 1 << 16);
	maxstack = getenv("UFTRACE_MAX_STACK") ? atoi(getenv("UFTRACE_MAX_STACK")) : 1024;

	{
		struct sigaction sa;

		memset(&sa, 0, sizeof(sa));
		sa.sa_handler = crash_handler;
		sigaction(SIGSEGV, &sa, NULL);
		sigaction(SIGBUS, &sa, NULL);
	}
	if (munmap(holearea + page, page) == 0)
		holepage = (unsigned long)holearea + page;
	wallpage = wallarea;
	nonepage = wallarea + page + 16;
	if (mprotect(wallarea + page, page, PROT_NONE) < 0) {
		printf("SYMS-FAILED mprotect\n");
		return 1;
	}

	/* warm up: creates the thread data (allocates argbuf) */
	{
		unsigned long slot[4] = { 0, 0xcafe0001UL, 0, 0 };
		struct mcount_thread_data *mtdp;

		slot[0] = (unsigned long)&slot[3];
		if (mcount_entry(&slot[1], (unsigned long)funcs[0], &regs) == 0 && slot[1] != 0xcafe0001UL) {
			long rv = 0;

			h1_now++;
			mcount_exit(&rv);
		}
		mtdp = get_thread_data();
		if (mtdp == NULL || check_thread_data(mtdp) || mtdp->argbuf == NULL) {
			printf("SYMS-FAILED no thread data\n");
			return 1;
		}
		bigbuf = calloc((size_t)maxstack + 2, ARGBUF_SIZE);
		free(mtdp->argbuf);
		mtdp->argbuf = bigbuf;
	}
	{
		unsigned i;

		printf("SYMS");
		for (i = 0; i < NFUNC; i++)
			printf(" %lx", (unsigned long)funcs[i]);
		printf(" tramp=%lx none=%lx wall=%lx strpool=%lx objpool=%lx hole=%lx argbuf_size=%d\n", mcount_return_fn,
		       (unsigned long)nonepage, (unsigned long)(wallarea + page), (unsigned long)strpool,
		       (unsigned long)objpool, holepage, ARGBUF_SIZE);
	}
	dump_new_records(1); /* skip the warm-up records */

	while (fgets(line, sizeof(line), stdin)) {
		char op[16] = "", a1[64] = "";
		static char a2[8000];
		int n;

		a2[0] = 0;
		n = sscanf(line, "%15s %63s %7999s", op, a1, a2);
		if (n < 1 || op[0] == '#')
			continue;
		opno++;
		cur_opno = opno;
		if (!strcmp(op, "XTA")) {
			static char t[8000], a[8000], r[8000];
			char *trg, *args, *rets, *a0, *r0;
			int rc;

			t[0] = a[0] = r[0] = 0;
			sscanf(line, "%*s %7999s %7999s %7999s", t, a, r);
			trg = xta_arg(t);
			a0 = args = xta_arg(a);
			r0 = rets = xta_arg(r);
			rc = extract_trigger_args(&args, &rets, trg);
			printf("%d n=%d", opno, rc);
			xta_out("argspec", args);
			xta_out("retspec", rets);
			printf("\n");
			(void)a0;
			(void)r0;
		}
		else if (!strcmp(op, "STRAT")) {
			unsigned char tmp[160];
			char *dst = (char *)strtoull(a1, NULL, 16);
			int len = unhex(a2, tmp, 150);

			memcpy(dst, tmp, len);
			dst[len] = 0;
			printf("%d ok addr=%lx\n", opno, (unsigned long)dst);
		}
		else if (!strcmp(op, "MRMAP") || !strcmp(op, "MRUNMAP")) {
			unsigned long a = strtoul(a1, NULL, 16);
			unsigned long np = strtoul(a2, NULL, 10);
			char prot[8] = "r";
			int rc;

			sscanf(line, "%*s %*s %*s %7s", prot);
			if (!mr_in_arena(a, np)) {
				printf("%d bad-op\n", opno);
				continue;
			}
			if (!strcmp(op, "MRUNMAP"))
				rc = munmap((void *)a, np * 4096);
			else
				rc = mmap((void *)a, np * 4096, prot[0] == 'n' ? PROT_NONE : PROT_READ | PROT_WRITE,
					  MAP_PRIVATE | MAP_ANONYMOUS | MAP_FIXED, -1, 0) == (void *)a ? 0 : -1;
			printf("%d %s\n", opno, rc == 0 ? "ok" : "failed");
		}
		else if (!strcmp(op, "MRBRK")) {
			void *old = sbrk(strtoul(a1, NULL, 16));

			if (old != (void *)-1)
				mr_grown = (unsigned long)old;
			printf("%d %s brk=%lx\n", opno, old == (void *)-1 ? "failed" : "ok", (unsigned long)sbrk(0));
		}
		else if (!strcmp(op, "MRSTR")) {
			unsigned char tmp[160];
			char *dst = (char *)mr_addr(a1);
			int len = unhex(a2, tmp, 150);

			memcpy(dst, tmp, len);
			dst[len] = 0;
			printf("%d ok addr=%lx\n", opno, (unsigned long)dst);
		}
		else if (!strcmp(op, "MRQ")) {
			int safe = 1, chk = 1, v = -1, rd, i;
			struct mcount_thread_data *mtdp = get_thread_data();

			sscanf(a2, "%d", &safe);
			sscanf(line, "%*s %*s %*s %d", &chk);
			mr_last_addr = mr_addr(a1);
			mr_read_maps();
			printf("%d addr=%lx maps=", opno, mr_last_addr);
			for (i = 0; i < mr_nlines; i++)
				printf("%s%lx:%lx:%c:%c", i ? ";" : "", mr_lines[i].s, mr_lines[i].e,
				       mr_lines[i].r ? 'r' : 'n', mr_lines[i].k);
			if (chk) {
				struct mcount_arg_context ctx;

				memset(&ctx, 0, sizeof(ctx));
				ctx.regs = &regs;
				ctx.regions = &mtdp->mem_regions;
				ctx.arch = &mtdp->arch;
				v = check_mem_region(&ctx, mr_last_addr);
			}
			rd = mr_string_readable(mr_last_addr);
			mr_skip = safe && !rd && (v != 0);
			printf(" chk=%d rd=%d skip=%d\n", v, rd, mr_skip);
		}
		else if (!strcmp(op, "DCOPY")) {
			struct uftrace_triggers_info copy = uftrace_deep_copy_triggers(mcount_triggers);
			int own;

			printf("%d orig=", opno);
			dcopy_print(&mcount_triggers->root);
			printf(" copy=");
			own = dcopy_print(&copy.root);
			printf(" pargs=%d counts=%d/%d:%d/%d\n", own, mcount_triggers->filter_count, copy.filter_count,
			       mcount_triggers->caller_count, copy.caller_count);
		}
		else if (!strcmp(op, "T")) {
			h1_now = strtoull(a1, NULL, 0);
			printf("%d ok\n", opno);
		}
		else if (!strcmp(op, "FILL")) {
			fillb = strtoul(a1, NULL, 16);
			printf("%d ok\n", opno);
		}
		else if (!strcmp(op, "R")) {
			int k = atoi(a1);
			unsigned long v = a2[0] == '@' ? mr_last_addr : strtoull(a2, NULL, 16);
			unsigned long *r[6] = { &regs.rdi, &regs.rsi, &regs.rdx, &regs.rcx, &regs.r8, &regs.r9 };

			if (k >= 0 && k < 6)
				*r[k] = v;
			printf("%d ok\n", opno);
		}
		else if (!strcmp(op, "XMM")) {
			int k = atoi(a1);

			if (k >= 0 && k < 8)
				xmm[k] = strtoull(a2, NULL, 16);
			printf("%d ok\n", opno);
		}
		else if (!strcmp(op, "SW")) {
			int k = atoi(a1);

			if (k >= 1 && k < NSTACK)
				stackw[k] = strtoull(a2, NULL, 16);
			printf("%d ok\n", opno);
		}
		else if (!strcmp(op, "RV")) {
			retval = strtoull(a1, NULL, 16);
			printf("%d ok\n", opno);
		}
		else if (!strcmp(op, "FP")) {
			fpret = strtoull(a1, NULL, 16);
			printf("%d ok\n", opno);
		}
		else if (!strcmp(op, "ST0")) {
			memset(st0, 0, sizeof(st0));
			unhex(a1, st0, 10);
			have_st0 = 1;
			printf("%d ok\n", opno);
		}
		else if (!strcmp(op, "STR") || !strcmp(op, "STRW")) {
			int k = atoi(a1);
			unsigned char tmp[160];
			int len;

			if (k < 0 || k >= NSLOT) {
				printf("%d bad-op\n", opno);
				continue;
			}
			len = unhex(a2, tmp, 150);
			if (!strcmp(op, "STR"))
				strptr[k] = strpool[k];
			else {
				/* each slot gets its own place right before the wall; only one STRW string is live at a time */
				strptr[k] = wallpage + page - (len + 1);
			}
			memcpy(strptr[k], tmp, len);
			strptr[k][len] = 0;
			printf("%d ok addr=%lx\n", opno, (unsigned long)strptr[k]);
		}
		else if (!strcmp(op, "OBJ")) {
			int k = atoi(a1);

			if (k < 0 || k >= NSLOT) {
				printf("%d bad-op\n", opno);
				continue;
			}
			objpool[k][0] = strtoull(a2, NULL, 16);
			objpool[k][1] = objpool[k][0] ? 3 : 0;
			printf("%d ok addr=%lx\n", opno, (unsigned long)objpool[k]);
		}
		else if (!strcmp(op, "E")) {
			int fn = atoi(a1);
			struct hframe *h = &hstack[hdepth];
			struct mcount_thread_data *mtdp = get_thread_data();
			int rc, i, idx;
			unsigned char *slice;

			if (fn < 0 || fn >= (int)NFUNC || hdepth >= 63 || mtdp->idx >= maxstack) {
				printf("%d bad-op\n", opno);
				continue;
			}
			if (mr_skip) {
				mr_skip = 0;
				mr_skipx = 1;
				printf("%d skipped\n", opno);
				continue;
			}
			idx = mtdp->idx;
			h->fn = fn;
			h->idx = idx;
			h->orig = 0xcafe0000UL + hdepth * 16 + 1;
			h->slot[0] = (unsigned long)&h->slot[3];
			h->slot[1] = h->orig;
			for (i = 1; i < NSTACK; i++)
				h->slot[1 + i] = stackw[i];
			h->hijacked = 0;
			slice = bigbuf + (size_t)idx * ARGBUF_SIZE;
			memset(slice, fillb, 2 * ARGBUF_SIZE);

			asm volatile("movq 0(%0), %%xmm0\n\t"
				     "movq 8(%0), %%xmm1\n\t"
				     "movq 16(%0), %%xmm2\n\t"
				     "movq 24(%0), %%xmm3\n\t"
				     "movq 32(%0), %%xmm4\n\t"
				     "movq 40(%0), %%xmm5\n\t"
				     "movq 48(%0), %%xmm6\n\t"
				     "movq 56(%0), %%xmm7\n\t"
				     :
				     : "r"(xmm)
				     : "xmm0", "xmm1", "xmm2", "xmm3", "xmm4", "xmm5", "xmm6", "xmm7", "memory");
			rc = mcount_entry(&h->slot[1], (unsigned long)funcs[fn], &regs);
			/* the traced function's own floating-point arguments must survive the hook */
			asm volatile("movq %%xmm0, 0(%0)\n\t"
				     "movq %%xmm1, 8(%0)\n\t"
				     "movq %%xmm2, 16(%0)\n\t"
				     "movq %%xmm3, 24(%0)\n\t"
				     "movq %%xmm4, 32(%0)\n\t"
				     "movq %%xmm5, 40(%0)\n\t"
				     "movq %%xmm6, 48(%0)\n\t"
				     "movq %%xmm7, 56(%0)\n\t"
				     :
				     : "r"(xmm_after)
				     : "memory");
			h->hijacked = h->slot[1] != h->orig;
			hdepth++;
			{
				unsigned xc = 0;

				for (i = 0; i < 8; i++)
					if (xmm_after[i] != xmm[i])
						xc |= 1u << i;
				printf("%d rc=%d hij=%d idx=%d xc=%x", opno, rc, h->hijacked, idx, xc);
			}
			if (h->hijacked) {
				struct mcount_ret_stack *rs = &mtdp->rstack[idx];

				printf(" arg=%d sz=%u", !!(rs->flags & MCOUNT_FL_ARGUMENT),
				       (rs->flags & MCOUNT_FL_ARGUMENT) ? *(unsigned *)slice : 0);
				dump_mem(slice);
			}
			dump_new_records(0);
			printf("\n");
		}
		else if (!strcmp(op, "X")) {
			struct hframe *h;
			struct mcount_thread_data *mtdp = get_thread_data();
			const char *ret = "-";

			if (mr_skipx) {
				mr_skipx = 0;
				printf("%d skipped\n", opno);
				continue;
			}
			if (hdepth == 0) {
				printf("%d bad-op\n", opno);
				continue;
			}
			h = &hstack[--hdepth];
			if (h->hijacked) {
				long rv = retval;
				unsigned long back;
				unsigned char *slice = bigbuf + (size_t)h->idx * ARGBUF_SIZE;
				struct mcount_ret_stack *rs = &mtdp->rstack[h->idx];

				if (have_st0)
					asm volatile("fldt %0" : : "m"(st0));
				asm volatile("movq %0, %%xmm0" : : "m"(fpret) : "xmm0");
				back = mcount_exit(&rv);
				if (have_st0)
					asm volatile("fstp %%st(0)" ::: "st");
				have_st0 = 0;
				ret = back == h->orig ? "ok" : "BAD";
				printf("%d ret=%s rvf=%d sz=%u", opno, ret, !!(rs->flags & MCOUNT_FL_RETVAL),
				       (rs->flags & MCOUNT_FL_RETVAL) ? *(unsigned *)slice : 0);
				dump_mem(slice);
			}
			else
				printf("%d ret=-", opno);
			dump_new_records(0);
			printf("\n");
		}
		else if (!strcmp(op, "END")) {
			printf("%d end\n", opno);
			break;
		}
		else
			printf("%d bad-op\n", opno);
	}
	fflush(stdout);
	return 0;
}
