/*
 * C13 correspondence harness: runs the real demangle() of utils/demangle.c
 * (compiled from the scratch snapshot of /repo with ASan+UBSan) on names given
 * on stdin, one hex-encoded name per line ("-" = empty name).
 *
 * stdout per case:
 *   MODEL dm <hex>
 *   IMPL <hex of the returned string | -> | IMPL CRASH <sanitizer summary> | IMPL HANG
 *
 * A crash / sanitizer abort / timeout of demangle() is a *result*: the work is
 * done in forked workers; when a worker dies the parent records the verdict for
 * the input it was working on and forks a new worker for the rest.
 *
 * argv[1] = scratch file for the workers' stderr (sanitizer reports),
 * argv[2] = per-name CPU-time limit in milliseconds (default 2000),
 * argv[3] = give up after that many HANG verdicts (default 25): the rest is reported as SKIP.
 */
#define _GNU_SOURCE
#include <errno.h>
#include <fcntl.h>
#include <signal.h>
#include <stdio.h>
#include <stdlib.h>
#include <string.h>
#include <sys/resource.h>
#include <sys/time.h>
#include <sys/wait.h>
#include <unistd.h>

char *demangle(char *str);
extern FILE *logfp, *outfp;

static char **names;	/* decoded */
static char **hexes;
static int nr, cap;

static int hexval(int c)
{
	if (c >= '0' && c <= '9')
		return c - '0';
	if (c >= 'a' && c <= 'f')
		return c - 'a' + 10;
	if (c >= 'A' && c <= 'F')
		return c - 'A' + 10;
	return -1;
}

static void put_hex(FILE *fp, const char *s)
{
	if (!*s) {
		fputc('-', fp);
		return;
	}
	for (; *s; s++)
		fprintf(fp, "%02x", (unsigned char)*s);
}

static void on_alarm(int sig)
{
	_exit(97);
}

static void worker(int from, int wfd, int tmo)
{
	FILE *out = fdopen(wfd, "w");
	int i;

	struct itimerval on = { { 0, 0 }, { tmo / 1000, (tmo % 1000) * 1000 } }, off = { { 0, 0 }, { 0, 0 } };

	/* CPU-time timer: a hang is an endless loop; wall-clock load must not matter */
	signal(SIGPROF, on_alarm);
	for (i = from; i < nr; i++) {
		char *copy = strdup(names[i]); /* exact-size heap copy: ASan sees any over-read */
		char *res;

		setitimer(ITIMER_PROF, &on, NULL);
		res = demangle(copy);
		setitimer(ITIMER_PROF, &off, NULL);
		fprintf(out, "%d ", i);
		if (res == NULL)
			fputs("NULL", out);
		else
			put_hex(out, res);
		fputc('\n', out);
		fflush(out);
		free(res);
		free(copy);
	}
	fclose(out);
	_exit(0);
}

static void summary(const char *errfile, char *buf, size_t sz)
{
	FILE *fp = fopen(errfile, "r");
	char line[1024];

	snprintf(buf, sz, "no-report");
	if (!fp)
		return;
	while (fgets(line, sizeof(line), fp)) {
		char *p = strstr(line, "SUMMARY: ");
		char *q;

		if (!p) {
			p = strstr(line, "runtime error: ");
			if (!p)
				continue;
		}
		q = strchr(p, '\n');
		if (q)
			*q = 0;
		for (q = p; *q; q++)
			if (*q == ' ')
				*q = '_';
		/* drop addresses / paths: keep the kind and the function */
		snprintf(buf, sz, "%.200s", p);
		if (strstr(p, "SUMMARY"))
			break;
	}
	fclose(fp);
}

int main(int argc, char **argv)
{
	char *line = NULL;
	size_t lsz = 0;
	ssize_t n;
	const char *errfile = argc > 1 ? argv[1] : "/dev/null";
	int tmo = argc > 2 ? atoi(argv[2]) : 2000;
	int next = 0;
	int max_hangs = argc > 3 ? atoi(argv[3]) : 25;
	int hangs = 0;
	char **res;

	outfp = stdout;
	logfp = stdout;
	setrlimit(RLIMIT_CORE, &(struct rlimit){ 0, 0 });

	while ((n = getline(&line, &lsz, stdin)) > 0) {
		char *s, *d;
		int i, len;

		while (n > 0 && (line[n - 1] == '\n' || line[n - 1] == '\r'))
			line[--n] = 0;
		if (n == 0)
			continue;
		if (nr == cap) {
			cap = cap ? cap * 2 : 1024;
			names = realloc(names, cap * sizeof(*names));
			hexes = realloc(hexes, cap * sizeof(*hexes));
		}
		hexes[nr] = strdup(line);
		len = strcmp(line, "-") ? n / 2 : 0;
		d = malloc(len + 1);
		s = line;
		for (i = 0; i < len; i++) {
			int a = hexval(s[2 * i]), b = hexval(s[2 * i + 1]);

			if (a < 0 || b < 0 || (a == 0 && b == 0)) {
				fprintf(stderr, "bad input line %d\n", nr);
				return 2;
			}
			d[i] = a * 16 + b;
		}
		d[len] = 0;
		names[nr++] = d;
	}
	res = calloc(nr + 1, sizeof(*res));

	while (next < nr) {
		int pfd[2];

		if (hangs >= max_hangs) {
			/* the code under test loops on many inputs: do not spend hours on it */
			res[next++] = strdup("SKIP");
			continue;
		}
		pid_t pid;
		FILE *in;
		int status, idx;
		char buf[1 << 16];

		if (pipe(pfd) < 0)
			return 3;
		fflush(stdout);
		pid = fork();
		if (pid < 0)
			return 3;
		if (pid == 0) {
			int efd = open(errfile, O_WRONLY | O_CREAT | O_TRUNC, 0600);

			close(pfd[0]);
			if (efd >= 0) {
				dup2(efd, 2);
				close(efd);
			}
			worker(next, pfd[1], tmo);
		}
		close(pfd[1]);
		in = fdopen(pfd[0], "r");
		while ((n = getline(&line, &lsz, in)) > 0) {
			char *sp = strchr(line, ' ');

			if (!sp || line[n - 1] != '\n')
				break; /* torn line: the worker died while printing */
			line[n - 1] = 0;
			idx = atoi(line);
			if (idx != next)
				break;
			res[next++] = strdup(sp + 1);
		}
		fclose(in);
		waitpid(pid, &status, 0);
		if (next < nr) {
			/* the worker died on names[next] */
			if (WIFEXITED(status) && WEXITSTATUS(status) == 97) {
				snprintf(buf, sizeof(buf), "HANG");
				hangs++;
			}
			else {
				char sum[512];

				summary(errfile, sum, sizeof(sum));
				snprintf(buf, sizeof(buf), "CRASH %s", sum);
			}
			res[next++] = strdup(buf);
		}
	}

	for (int i = 0; i < nr; i++) {
		printf("MODEL dm %s\n", hexes[i]);
		printf("IMPL %s\n", res[i]);
	}
	return 0;
}
