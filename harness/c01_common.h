/* C01 e2e (H5) programs: helpers shared by harness/c01_w.c (C scenarios), harness/c01_x.cc (C++
 * scenarios) and harness/c01_plug.c (the dlopen()ed library).  The programs are run twice by
 * checks/c01.py, natively and under `uftrace record <options>`, and everything they let the
 * outside see (stdout, stderr, exit status, files written to the working directory) is compared.
 * c01_params.h is generated per VERIF_SEED (constants of the formulas, array contents, thrown
 * values, exit codes). Nothing here may print addresses, pids, descriptor numbers >= 3 or times. */
#ifndef C01_COMMON_H
#define C01_COMMON_H
#include <stdint.h>
#include <string.h>
#include <stdio.h>
#include "c01_params.h"

#define NI __attribute__((noinline))
#ifdef __cplusplus
extern "C" {
#endif

struct dd { double a, b; };
struct ll { long a, b; };
struct big { long v[5]; };

extern __thread uint64_t c01_h; /* per thread: the digest of the main thread must not depend on thread timing */
static inline void mixu(uint64_t x) { c01_h ^= x + 0x9e3779b97f4a7c15ULL + (c01_h << 6) + (c01_h >> 2); }
static inline void mixd(double d) { uint64_t u; memcpy(&u, &d, 8); mixu(u); }
static inline void mixld(long double d) { uint64_t u[2] = {0, 0}; memcpy(u, &d, 10); mixu(u[0] ^ (u[1] << 1)); }

typedef long (*body_fn)(int v, int round);
/* instrumented helpers living in the main program (used by the plugin as call-backs too) */
long down(int d, body_fn f, int v, int round);
double fp_leaf(double a, float b, int c);
long double fp_ld(long double x, int n);
struct dd fp_dd(double a, double b);
struct ll fp_ll(long a, long b);
struct big fp_big(int n);
double fp_var(int n, ...);
long fp_work(int seed);

#ifdef __cplusplus
}
#endif
#endif
