"""C09 — spec-source combinations (loaded by checks/c09.py; `K` is that module).

One function can get its argument / return-value specs from several option sources: -A, -R,
-T f@argN/…, -T f@retval/…, repeated options, several items of one option, patterns (regex / glob)
overlapping with plain names, the same index given twice, indices in any order, --auto-args.
libmcount (the WRITER of a payload) builds the function's list from UFTRACE_TRIGGER, then
UFTRACE_ARGUMENT, then UFTRACE_RETVAL; replay / dump / script (the READERS) build it from the
`argspec:` / `retspec:` lines that extract_trigger_args() stored in the info file.  This family checks

  H1  the real libmcount, given the three environment strings, packs exactly what the model packs with
      the model's writer list (Uft.Argbuf.writerList); the real extract_trigger_args() (op XTA of the
      driver) returns the strings the model predicts (Uft.Argbuf.infoArgs / infoRets);
  H3  a data directory whose info file carries the strings the real extract_trigger_args() produced and
      whose payloads were packed with the writer's list is shown by the real `uftrace replay` with the
      values the calls passed (text of every call);
  H5  a generated program (deterministic per seed) that logs its own arguments is recorded with generated
      option sets; replay, dump, dump --chrome, a python and a lua script must show, value by value, what
      the program logged; `uftrace info`'s argument lines must be the model's.

The expected final list of a function is computed here from the documented semantics (py_merge),
independently of the Lean model; the model's lists are compared with it.
"""
import fnmatch
import json
import os
import re
import struct
import subprocess
from concurrent.futures import ThreadPoolExecutor

K = None          # checks.c09


def bind(mod):
    global K
    K = mod


REGEX_CHARS = ".?*+-^$|()[]{}"
FINDINGS = {
    "C09-TRIGRET": "extract_trigger_args stores a `-T f@retval/<fmt>` action as plain `f@retval` in the info file: "
                   "libmcount records the value in the requested format (string: 2-byte length + bytes; /i32: 4 bytes), "
                   "replay / dump / script decode an 8-byte integer and lose the records that follow a longer string",
    "C09-TRIGAUTO": "extract_trigger_args stores `-T f@<spec>,auto-args` as `f@<spec>;f`: libmcount ignores `auto-args` "
                    "next to an explicit spec, the readers look f up in the auto-args table / DWARF and decode the "
                    "payload with that layout",
    "C09-OLDFMT": "setup_fstack_args re-applies the argspec line as a return-value spec whenever the characters "
                  "\"retval\" occur in it (old data format), also when a retspec line exists: `-A f@arg1,retval/s "
                  "-R f@retval/i32` is recorded as a 4-byte integer and decoded as a string",
}
SHAPES = {
    "C09-TRIGRET": "a -T item with a retval action that carries a format or size (anything but plain `retval`)",
    "C09-TRIGAUTO": "a -T item with `auto-args` next to explicit arg / retval actions, for a function known to the "
                    "auto-args table or to DWARF",
    "C09-OLDFMT": "the text `retval` inside a -A option (a retval action, which -A ignores, or a function name) "
                  "together with a return-value spec for the same function from -R or -T",
}


# ---------------------------------------------------------------------------------------------
# specs
# ---------------------------------------------------------------------------------------------
FMTS = "diuxoscfSpet"


class RawSpec:
    """a spec given by its model token idx:fmt:size:ty:loc:sregs (what add_arg_spec ends up with)"""
    def __init__(self, tok):
        p = tok.split(":")
        self.idx, self.f, self.size, self.ty, self.loc = int(p[0]), p[1], int(p[2]), int(p[3]), int(p[4])
        self.sregs = [] if p[5] == "-" else [int(x) for x in p[5].split(".")]
        self.exact = (p[6] == "1") if len(p) > 6 else None
        inv = {v: k for k, v in K.REGNUM.items()}
        self.tregs = [inv.get(r, "R%d" % r) for r in self.sregs]
        self.kind = "retval" if self.idx == 0 else ("fparg" if self.ty == 1 else "arg")
        self.n = self.idx

    def model(self):
        return (self.idx, self.f, self.size, self.ty, self.loc, list(self.sregs))

    def token(self):
        return "%d:%s:%d:%d:%d:%s" % (self.idx, self.f, self.size, self.ty, self.loc,
                                      ".".join(map(str, self.sregs)) or "-")

    def key(self):
        return (self.ty, self.idx if self.ty in (0, 1) else self.loc)

    def is_ret(self):
        return self.idx == 0

    def text(self):
        inv = {v: k for k, v in K.REGNUM.items()}
        s = "retval" if self.idx == 0 else ("fparg%d" % self.idx if self.ty == 1 and self.f == "f" else "arg%d" % self.idx)
        if self.f == "t":
            s += "/t%d" % self.size
            if self.sregs:
                s += "%" + "+".join(inv.get(r, "?") for r in self.sregs)
        elif self.f == "c":
            s += "/c"
        elif self.f in "sSp":
            s += "/" + self.f
        else:
            s += "/%s%d" % (self.f, 8 * self.size)
        if self.ty == 3:
            s += "%%stack+%d" % self.loc
        elif self.ty == 2 and not self.sregs:
            s += "%" + inv.get(self.loc, "?")
        return s


SPEC_RE = re.compile(r"^(?:(arg|fparg)(\d+)|(retval))(?:/([diuxoscfSpt])?(\d+)?)?(?:%(.+))?$")


def spec_from_text(t):
    """parse the spec texts this check generates (K.Spec.text) -> K.Spec or None"""
    m = SPEC_RE.match(t)
    if not m:
        return None
    kind = m.group(1) or "retval"
    n = int(m.group(2)) if m.group(2) else 0
    fmt, num, locs = m.group(4), m.group(5), m.group(6)
    loc, tregs, tsize, bits = None, [], None, None
    if fmt == "t":
        tsize = int(num or 0)
    elif num:
        bits = int(num)
    if locs:
        if locs.startswith("stack+"):
            loc = ("stack", int(locs[6:]))
        elif fmt == "t":
            tregs = locs.split("+")
        else:
            loc = ("reg", locs)
    return K.Spec(kind, n, fmt, bits, loc, tsize, tregs)


# ---------------------------------------------------------------------------------------------
# option items and cases
# ---------------------------------------------------------------------------------------------
class OItem:
    """one `name@action,…` item of a -T / -A / -R option"""
    def __init__(self, src, name, acts, join=False):
        self.src, self.name, self.acts, self.join = src, name, list(acts), join
        self.tag = 0
        self.matched = []

    def specs(self):
        return [a for a in self.acts if not isinstance(a, str)]

    def auto(self):
        return "auto-args" in self.acts

    def text(self):
        if not self.acts:
            return self.name
        return self.name + "@" + ",".join(a if isinstance(a, str) else a.text() for a in self.acts)

    def is_simple(self):
        return not any(ch in REGEX_CHARS for ch in self.name)


class OptCase:
    """a command line's worth of -T / -A / -R items over the functions `names` (index = function id)"""
    def __init__(self, names, ptype="regex", skip=()):
        self.names, self.ptype, self.items, self.skip = list(names), ptype, [], set(skip)
        self.auto_args = False

    def add(self, it):
        it.tag = len([x for x in self.items if x.src == it.src])
        it.matched = self.match(it)
        self.items.append(it)
        return it

    def match(self, it):
        out = []
        for i, n in enumerate(self.names):
            if name_matches(it.name, self.ptype, n):
                out.append(i)
        return out

    def by_src(self, s):
        return [it for it in self.items if it.src == s]

    def strings(self):
        """what uftrace.c's opt_add_string makes of repeated options: items of one kind joined by ';'"""
        return {s: (";".join(it.text() for it in self.by_src(s)) or None) for s in "TAR"}

    def env(self):
        st = self.strings()
        e = {"UFTRACE_PATTERN": self.ptype}
        for s, k in (("T", "UFTRACE_TRIGGER"), ("A", "UFTRACE_ARGUMENT"), ("R", "UFTRACE_RETVAL")):
            if st[s]:
                e[k] = st[s]
        return e

    def argv(self):
        """the options as the user writes them: one option per item, or several items of a kind in one option"""
        out = []
        for it in self.items:
            flag = {"T": "-T", "A": "-A", "R": "-R"}[it.src]
            if it.join and len(out) >= 2 and out[-2] == flag:
                out[-1] += ";" + it.text()
            else:
                out += [flag, it.text()]
        if self.ptype == "glob":
            out = ["--match", "glob"] + out
        if self.auto_args:
            out.append("--auto-args")
        return out

    def model_tokens(self):
        toks = []
        for it in self.items:
            sp = it.specs()
            toks.append("%s/%d/%d/%d/%d/%s/%s" % (
                it.src, it.tag, 1 if it.is_simple() else 0, 1 if it.auto() else 0, 1 if "retval" in it.name else 0,
                ".".join(map(str, it.matched)) or "-", ";".join(a.token() for a in sp) or "-"))
        return toks

    def describe(self):
        return {"options": self.argv(), "pattern_type": self.ptype,
                "UFTRACE_TRIGGER": self.strings()["T"], "UFTRACE_ARGUMENT": self.strings()["A"],
                "UFTRACE_RETVAL": self.strings()["R"]}

    def shapes(self):
        """which open-finding shapes the option set has (see SHAPES)"""
        sh = set()
        for it in self.by_src("T"):
            for a in it.specs():
                if a.is_ret() and a.text() != "retval":
                    sh.add("C09-TRIGRET")
            if it.auto() and it.specs():
                sh.add("C09-TRIGAUTO")
        if any("retval" in it.text() for it in self.by_src("A")):
            sh.add("C09-OLDFMT")
        return sh


def py_merge(case, f):
    """The final list of function f from the documented semantics, written without looking at the model:
    triggers are installed first, then -A, then -R; -A only takes arg / fparg actions and -R only retval;
    a spec for an argument that is already in the list (same index, or same register / stack slot) replaces
    format and size in place unless the old one came from a plain name and the new one from a pattern;
    otherwise it is appended.  (Items without specs — auto-args — are not handled here: None.)"""
    lst = []
    for src in "TAR":
        for it in case.by_src(src):
            if f not in it.matched:
                continue
            acts = [a for a in it.specs() if src == "T" or (src == "R") == a.is_ret()]
            if not acts:
                if src != "T" or it.auto():
                    return None
                continue
            for a in acts:
                ra = RawSpec(a.token())
                for e in lst:
                    if e[0].key() == ra.key():
                        if it.is_simple() or not e[1]:
                            ra.idx = ra.n = e[0].idx
                            ra.kind = e[0].kind
                            e[0], e[1] = ra, it.is_simple()
                        break
                else:
                    lst.append([ra, it.is_simple()])
    return [e[0] for e in lst]


def model_lists(case, xf, auto_lines=()):
    """-> ({f: (writer [RawSpec], reader [RawSpec], args agree, rets agree)}, info line) from the Lean model"""
    toks = case.model_tokens()
    lines = ["SRC RESET", "SRC FIX %d %d %d" % xf] + list(auto_lines) + \
            ["SRC LISTS %d %s" % (len(case.names), " ".join(toks)), "SRC INFO " + " ".join(toks)]
    out = K.run_model(lines)
    res = {}
    ll = out[-2]
    if ll not in ("-", ""):
        for part in ll.split(" | "):
            kvs = dict(x.split("=", 1) for x in part.split())
            w = [] if kvs["w"] == "-" else [RawSpec(t) for t in kvs["w"].split(",")]
            r = [] if kvs["r"] == "-" else [RawSpec(t) for t in kvs["r"].split(",")]
            res[int(kvs["f"])] = (w, r, kvs["la"] == "1", kvs["lr"] == "1")
    return res, out[-1]


def parse_model_info(case, line):
    """model INFO line -> (argspec items, retspec items, old pass) with items = (name, [tokens])"""
    kvs = dict(x.split("=", 1) for x in line.split())

    def items(v):
        if v == "-":
            return []
        out = []
        for x in v.split(";"):
            head, specs = x.split("@", 1)
            it = case.by_src(head[0])[int(head[1:])]
            out.append((it.name, [] if specs == "-" else specs.split(",")))
        return out
    return items(kvs["args"]), items(kvs["rets"]), kvs["old"] == "1"


def parse_impl_info(s):
    """an argspec / retspec string of the implementation -> [(name, [tokens | '?text'])]"""
    out = []
    if not s:
        return out
    for x in s.split(";"):
        if "@" in x:
            name, acts = x.split("@", 1)
            toks = []
            for a in acts.split(","):
                sp = spec_from_text(a)
                toks.append(sp.token() if sp else "?" + a)
            out.append((name, toks))
        else:
            out.append((x, []))
    return out


VARIANTS = [(0, 0), (1, 0), (0, 1), (1, 1)]       # (ret, auto) as visible in the info strings


def info_variant(case, argspec, retspec, cache=None):
    """which (ret, auto) variants of the model's info transformation give the implementation's strings"""
    ia, ir = parse_impl_info(argspec), parse_impl_info(retspec)
    ok = []
    for v in VARIANTS:
        _, line = model_lists(case, (v[0], v[1], 0))
        ma, mr, _ = parse_model_info(case, line)
        if ma == ia and mr == ir:
            ok.append(v)
    return ok


# ---------------------------------------------------------------------------------------------
# H1 / H3: generated option sets over the driver's functions f1..f31
# ---------------------------------------------------------------------------------------------
def fname(k):
    return "f%d" % k


def name_matches(patt, ptype, name):
    if not any(ch in REGEX_CHARS for ch in patt):
        return patt == name
    if ptype == "regex":
        return re.search(patt, name) is not None
    return fnmatch.fnmatchcase(name, patt)


def patterns_for(rng, k, ptype):
    """a name text that matches function k (and possibly others, never f0: the driver's outer frames)"""
    n = fname(k)
    o = rng.choice([j for j in range(1, K.NF) if j != k])
    if ptype == "glob":
        c = [n, n, "f" + "?" * (len(n) - 1), n[:-1] + "?", n[:-1] + "[0-9]", "f[1-9]*", "f[1-9]", "f[1-3][0-9]", "*" + n[1:]]
    else:
        c = [n, n, n, "^%s$" % n, "^f(%d|%d)$" % (k, o), "^f(%d|%d)$" % (o, k), "^%s.$" % n[:-1], "^f[1-9]$",
             "^f[1-9][0-9]?$", "%s$" % n[1:], "^f[1-3][0-9]$"]
    c = [x for x in c if name_matches(x, ptype, n) and not name_matches(x, ptype, "f0")]
    return rng.choice(c)


def vary(rng, sp):
    """another spec for the same argument (same add_arg_spec key), different format / size"""
    idx, fmt, size, ty, loc, sregs = sp.model()
    if sp.is_ret():
        return K.rand_spec(rng, set(), ret=True)
    if fmt in ("t",) or ty == 1 or fmt == "f":
        n = K.Spec(sp.kind, sp.n, sp.fmt, sp.bits, sp.loc, sp.tsize, sp.tregs)
        if fmt == "t":
            n.tsize = rng.choice([1, 4, 8, 12, 16])
        else:
            n.bits = rng.choice([32, 64])
        return n
    f = rng.choice(["d", "i", "u", "x", "o", "s", "c", "p", None])
    b = rng.choice([None, 8, 16, 32, 64]) if f in ("d", "i", "u", "x", "o") else None
    return K.Spec("arg", sp.n, f, b, sp.loc)


def gen_src_case(rng, ptype="regex", ntargets=8, shapes_ok=True):
    names = [fname(k) for k in range(K.NF)]
    case = OptCase(names, ptype, skip=[0])
    targets = rng.sample(range(1, K.NF), ntargets)
    pending = []
    for k in targets:
        nitems = rng.choice([2, 2, 3, 3, 4, 5])
        seen = []          # specs already given to this function
        for j in range(nitems):
            src = rng.choice("TTAAR") if j else rng.choice("TTA")
            acts = []
            nspec = rng.choice([1, 1, 2, 3])
            for _ in range(nspec):
                r = rng.random()
                want_ret = (src == "R") or (src == "T" and r < 0.3)
                if seen and rng.random() < 0.45:
                    cand = [s for s in seen if s.is_ret() == want_ret]
                    sp = vary(rng, rng.choice(cand)) if cand else None
                else:
                    sp = K.rand_spec(rng, set(), ret=want_ret)
                if sp is None:
                    continue
                if want_ret and src == "T" and rng.random() < 0.8:
                    sp = K.Spec("retval")              # plain `retval`, the common trigger form
                acts.append(sp)
                seen.append(sp)
            if shapes_ok and src == "A" and rng.random() < 0.04:
                acts.append(K.rand_spec(rng, set(), ret=True))        # ignored by -A
            if shapes_ok and src == "R" and rng.random() < 0.1:
                acts.insert(0, K.rand_spec(rng, set()))                # ignored by -R
            if not acts:
                continue
            pending.append((k, src, acts))
    rng.shuffle(pending)
    for k, src, acts in pending:
        case.add(OItem(src, patterns_for(rng, k, ptype), acts, join=rng.random() < 0.4))
    return case


def conflict_free(case, lists):
    """the generator's own limits: one location is not read both as char* and as std::string; structs fit the
    stack words the driver provides"""
    for f, (w, _, _, _) in lists.items():
        seen = {}
        for sp in w:
            if sp.f in ("s", "S") and not sp.is_ret():
                l = K.location(sp)
                if seen.setdefault(l, sp.f) != sp.f:
                    return False
            if sp.f == "t" and sp.ty == 3 and sp.loc * 8 + sp.size > 8 * (K.NSTACKW - 2):
                return False
        if len([sp for sp in w if sp.is_ret() and sp.f in ("s", "S")]) > 1:
            return False
    return True


class SrcProc:
    """an H1 process whose spec table comes from an option case"""
    def __init__(self, name, case, lists):
        self.name, self.case, self.lists = name, case, lists
        self.fns = {f: w for f, (w, _, _, _) in lists.items() if w}
        self.calls = []
        self.pre_ops = []

    def env(self):
        e = {"UFTRACE_BUFFER": "4194304", "UFTRACE_MAX_STACK": "8"}
        e.update(self.case.env())
        return e

    def info_specs(self):
        """(argspec, retspec, pattern type, argauto) of the info file: the strings the real extract_trigger_args made"""
        return self.info_a, self.info_r, self.case.ptype, getattr(self, "argauto", "")


def hexs(s):
    return s.encode().hex() if s else "-"


def gen_src_proc(rng, i, ncalls, ptype="regex"):
    for _ in range(30):
        case = gen_src_case(rng, ptype)
        lists, _ = model_lists(case, (0, 0, 0))
        if conflict_free(case, lists) and lists:
            break
    p = SrcProc("specsrc-%d" % i, case, lists)
    fs = sorted(p.fns)
    for j in range(ncalls):
        k = fs[j % len(fs)] if j < len(fs) else rng.choice(fs)
        c = K.Call(k, depth=rng.choice([0, 0, 0, 1, 2]))
        K.fill_values(rng, p.fns[k], c, [0])
        c.tag = "options %s" % " ".join(case.argv())[:300]
        p.calls.append(c)
    return p


def directed_src_cases():
    """corpus: the combinations named in the property's strengthening round, always run first"""
    S = K.Spec
    out = []

    def mk(name, items, ptype="regex"):
        case = OptCase([fname(k) for k in range(K.NF)], ptype, skip=[0])
        for src, n, acts, *j in items:
            case.add(OItem(src, n, acts, join=bool(j and j[0])))
        out.append((name, case))

    # trigger + -A on one function, different sizes; plain retval from the trigger, -R for another function
    mk("T-then-A", [("T", "f1", [S("arg", 2, "i", 32), S("retval")]), ("A", "f1", [S("arg", 3, "x", 64)]),
                    ("R", "f2", [S("retval", fmt="i", bits=32)]), ("A", "f2", [S("arg", 1, "i", 32)])])
    # the same with a string, given in non-increasing index order, -A before -T on the command line
    mk("A-before-T-on-cmdline", [("A", "f1", [S("arg", 3, "x", 64), S("arg", 1, "s")]), ("T", "f1", [S("arg", 2, "i", 32)]),
                                 ("R", "f1", [S("retval", fmt="s")]), ("A", "f3", [S("arg", 2, "c"), S("arg", 1, "i", 16)])])
    # duplicate index: the later source overrides format and size in place
    mk("duplicate-index", [("T", "f4", [S("arg", 1, "x", 64), S("arg", 2, "i", 32)]), ("A", "f4", [S("arg", 1, "i", 8)]),
                           ("A", "f4", [S("arg", 3, "s")], True), ("A", "f4", [S("arg", 2, "x", 64)], True),
                           ("T", "f5", [S("retval")]), ("R", "f5", [S("retval", fmt="c")])])
    # pattern overlapping a plain name: the plain name wins whatever the order
    mk("pattern-vs-name", [("A", "^f[67]$", [S("arg", 1, "s"), S("arg", 2, "i", 32)]), ("T", "f6", [S("arg", 1, "x", 64)]),
                           ("T", "f7", [S("arg", 2, "u", 16)]), ("A", "^f(7|8)$", [S("arg", 2, "x", 64), S("arg", 4, "c")]),
                           ("R", "^f[6-8]$", [S("retval", fmt="i", bits=32)]), ("T", "f8", [S("retval")])])
    # two patterns: the later one overrides
    mk("pattern-vs-pattern", [("T", "^f1[0-2]$", [S("arg", 1, "i", 32), S("retval")]), ("A", "^f1[12]$", [S("arg", 1, "s")]),
                              ("R", "^f1[0-9]$", [S("retval", fmt="u", bits=16)]), ("A", "^f10$", [S("arg", 2, "x", 8)])])
    # registers and stack slots as keys; floating point next to integers
    mk("locations", [("T", "f13", [S("arg", 1, "x", 64, ("reg", "RSI")), S("fparg", 1)]),
                     ("A", "f13", [S("arg", 5, "i", 32, ("reg", "RSI")), S("arg", 1, "i", 32, ("stack", 2))]),
                     ("A", "f13", [S("fparg", 1, None, 32), S("arg", 2, "u", 16, ("stack", 2))]),
                     ("R", "f13", [S("retval", fmt="f")])])
    mk("glob", [("T", "f1?", [S("arg", 1, "i", 32)]), ("A", "f14", [S("arg", 1, "s"), S("arg", 2)]),
                ("A", "f1[45]", [S("arg", 2, "c")]), ("R", "f*5", [S("retval", fmt="x", bits=32)])], ptype="glob")
    return out


def directed_src_proc(rng, name, case):
    lists, _ = model_lists(case, (0, 0, 0))
    p = SrcProc("specsrc-" + name, case, lists)
    for k in sorted(p.fns):
        for _ in range(3):
            c = K.Call(k, depth=rng.choice([0, 1]))
            K.fill_values(rng, p.fns[k], c, [0], alphabet="ascii", maxlen=40)
            c.tag = "options %s" % " ".join(case.argv())[:300]
            p.calls.append(c)
    return p


def probe_src_procs(rng):
    """one directed process per open-finding shape (H1 for the writer, H3 for the readers)"""
    S = K.Spec
    names = [fname(k) for k in range(K.NF)]
    out = []

    def mk(fid, items, auto_lines=(), argauto=""):
        case = OptCase(names, "regex", skip=[0])
        for src, n, acts in items:
            case.add(OItem(src, n, acts))
        lists, _ = model_lists(case, (0, 0, 0), auto_lines)
        p = SrcProc("specsrc-probe-" + fid[4:], case, lists)
        p.probe, p.auto_lines, p.argauto = fid, list(auto_lines), argauto
        return p
    # C09-TRIGRET: a string return value asked for through a trigger, followed by other calls
    p = mk("C09-TRIGRET", [("T", "f21", [S("retval", fmt="s")]), ("A", "f22", [S("arg", 1, "i", 32)]),
                           ("R", "f22", [S("retval", fmt="i", bits=32)])])
    for n in (3, 26):
        c = K.Call(21)
        K.fill_values(rng, [], c, [0])
        c.rvptr = K.Ptr("str", K.rand_bytes(rng, n, "ascii"), 0)
        c.tag = "-T f21@retval/s, a %d-byte string is returned" % n
        p.calls.append(c)
        c = K.Call(22)
        K.fill_values(rng, p.fns[22], c, [1])
        c.tag = "the call after it"
        p.calls.append(c)
    out.append(p)
    # C09-TRIGAUTO: `auto-args` next to an explicit spec, for a function the (reader's) auto-args table knows
    p = mk("C09-TRIGAUTO", [("T", "f23", [S("arg", 1, "x", 64), "auto-args"]), ("A", "f22", [S("arg", 1, "i", 32)])],
           auto_lines=["SRC AUTO 23 A 1:p:8:0:0:- 2:u:8:0:0:- 3:s:8:0:0:-"], argauto="f23@arg1/p,arg2/u,arg3/s")
    for _ in range(2):
        c = K.Call(23)
        K.fill_values(rng, p.fns[23], c, [0])
        c.tag = "-T f23@arg1/x64,auto-args with f23@arg1/p,arg2/u,arg3/s in the auto-args table"
        c.no_model = True        # the `auto-args` action sets the return-value flag: an EXIT payload of 0 bytes
        p.calls.append(c)
        c = K.Call(22)
        K.fill_values(rng, p.fns[22], c, [1])
        c.tag = "the call after it"
        p.calls.append(c)
    out.append(p)
    # C09-OLDFMT: -A with a retval action (ignored by -A) next to -R
    p = mk("C09-OLDFMT", [("A", "f24", [S("arg", 1, "i", 32), S("retval", fmt="s")]), ("R", "f24", [S("retval", fmt="i", bits=32)]),
                          ("A", "f22", [S("arg", 1, "i", 32)])])
    for _ in range(2):
        c = K.Call(24)
        K.fill_values(rng, p.fns[24], c, [0])
        c.tag = "-A f24@arg1/i32,retval/s -R f24@retval/i32"
        p.calls.append(c)
        c = K.Call(22)
        K.fill_values(rng, p.fns[22], c, [1])
        c.tag = "the call after it"
        p.calls.append(c)
    out.append(p)
    return out


# ---------------------------------------------------------------------------------------------
# H5: generated program
# ---------------------------------------------------------------------------------------------
class PType:
    def __init__(self, ctype, cls, size, signed=True, kind="int"):
        self.ctype, self.cls, self.size, self.signed, self.kind = ctype, cls, size, signed, kind


PTYPES = {
    "int": PType("int", "I", 4), "unsigned": PType("unsigned", "I", 4, False), "long": PType("long", "I", 8),
    "ulong": PType("unsigned long", "I", 8, False), "short": PType("short", "I", 2),
    "char": PType("char", "I", 1, True, "char"), "str": PType("const char *", "I", 8, False, "str"),
    "ptr": PType("void *", "I", 8, False, "ptr"), "enum": PType("enum color", "I", 4, False, "enum"),
    "double": PType("double", "F", 8, True, "double"), "float": PType("float", "F", 4, True, "float"),
}
ENUM_NAMES = ["RED", "GREEN", "BLUE", "BLACK"]
STR_POOL = ["", "a", "ms", "kilobytes", "héllo wörld", "日本語テキスト", "tab\there", "x" * 97, "y" * 98,
            "long-" + "0123456789" * 12, "NULL", "plain ascii text, with punctuation; and more", "ß"]


class PFunc:
    def __init__(self, name, params, ret):
        self.name, self.params, self.ret = name, params, ret      # params: [PType], ret: PType | None
        self.calls = []                                           # [[python values]]

    def int_params(self):
        return [(i, p) for i, p in enumerate(self.params) if p.cls == "I"]

    def fp_params(self):
        return [(i, p) for i, p in enumerate(self.params) if p.cls == "F"]


class Program:
    def __init__(self, funcs):
        self.funcs = funcs

    def source(self):
        o = ['#include <stdio.h>', '#include <string.h>', '#include <stdint.h>',
             'enum color { RED, GREEN, BLUE, BLACK };',
             '#define NI __attribute__((noinline))',
             '#define QUIET __attribute__((no_instrument_function))',
             'QUIET static void hx(const char *s) { if (!s) { printf(" NULL"); return; } printf(" s"); '
             'for (; *s; s++) printf("%02x", (unsigned char)*s); }',
             'QUIET static uint64_t bd(double d) { uint64_t u; memcpy(&u, &d, 8); return u; }',
             'QUIET static uint32_t bf(float d) { uint32_t u; memcpy(&u, &d, 4); return u; }',
             'static char rbuf[256];']
        for f in self.funcs:
            ps = ", ".join("%s a%d" % (p.ctype, i) for i, p in enumerate(f.params)) or "void"
            rt = f.ret.ctype if f.ret else "void"
            body = ['printf("IN %s");' % f.name]
            for i, p in enumerate(f.params):
                body.append(self.log_expr(p, "a%d" % i))
            body.append('printf("\\n");')
            body.append(self.ret_stmt(f))
            o.append("NI %s %s(%s) { %s }" % (rt, f.name, ps, " ".join(body)))
        m = ["int main(void) {", " setvbuf(stdout, NULL, _IOFBF, 1 << 16);"]
        for f in self.funcs:
            for vals in f.calls:
                args = ", ".join(self.c_lit(p, v) for p, v in zip(f.params, vals))
                if f.ret is None:
                    m.append(' %s(%s); printf("RET %s -\\n");' % (f.name, args, f.name))
                else:
                    m.append(' { %s r = %s(%s); printf("RET %s"); %s printf("\\n"); }' % (
                        f.ret.ctype, f.name, args, f.name, self.log_expr(f.ret, "r")))
        m += [" return 0;", "}"]
        return "\n".join(o + m) + "\n"

    @staticmethod
    def log_expr(p, v):
        if p.kind == "str":
            return "hx(%s);" % v
        if p.kind == "ptr":
            return 'printf(" p%%lx", (unsigned long)%s);' % v
        if p.kind == "double":
            return 'printf(" d%%016lx", (unsigned long)bd(%s));' % v
        if p.kind == "float":
            return 'printf(" f%%08x", (unsigned)bf(%s));' % v
        if p.signed:
            return 'printf(" i%%ld", (long)%s);' % v
        return 'printf(" u%%lu", (unsigned long)%s);' % v

    @staticmethod
    def c_lit(p, v):
        if p.kind == "str":
            if v is None:
                return "NULL"
            return '"' + "".join("\\%03o" % b for b in v.encode()) + '"'
        if p.kind == "ptr":
            return "(void *)0x%xUL" % v
        if p.kind == "double":
            return "%r" % v
        if p.kind == "float":
            return "%rf" % v
        if p.kind == "enum":
            return ENUM_NAMES[v]
        if p.kind == "char":
            return "(char)%d" % v
        if p.size == 8:
            if v == -(1 << 63):
                return "(-9223372036854775807L - 1)"
            return "%d%s" % (v, "L" if p.signed else "UL")
        return "(%s)%d" % (p.ctype, v)

    @staticmethod
    def ret_stmt(f):
        r = f.ret
        if r is None:
            return "return;"
        ints = [i for i, p in enumerate(f.params) if p.cls == "I" and p.kind not in ("str", "ptr")]
        strs = [i for i, p in enumerate(f.params) if p.kind == "str"]
        fps = [i for i, p in enumerate(f.params) if p.cls == "F"]
        if r.kind == "str":
            if strs:
                return ('snprintf(rbuf, sizeof(rbuf), "%%s/%s", a%d ? a%d : "(null)"); return rbuf;' % (f.name, strs[0], strs[0]))
            return 'return "%s-result";' % f.name
        if r.kind == "ptr":
            return "return (void *)rbuf;"
        if r.cls == "F":
            e = " + ".join(["a%d" % i for i in fps] + ["(double)a%d" % i for i in ints[:1]]) or "1.5"
            return "return (%s)(%s);" % (r.ctype, e)
        if r.kind == "char":
            return "return (char)('A' + (%s) %% 26);" % ("(unsigned)a%d" % ints[0] if ints else "3")
        if r.kind == "enum":
            return "return (enum color)((%s) & 3);" % ("(unsigned)a%d" % ints[0] if ints else "2")
        e = " ^ ".join("((%s)a%d * %d)" % (r.ctype, i, 3 + 2 * n) for n, i in enumerate(ints)) or "7"
        return "return (%s)(%s);" % (r.ctype, e)


def rand_pvalue(rng, p):
    if p.kind == "str":
        return rng.choice(STR_POOL)
    if p.kind == "ptr":
        return rng.choice([0, 0x10, 0x7ffd12345678, 0xdeadbeef])
    if p.kind == "double":
        return rng.choice([0.0, 1.0, -1.0, 0.5, 3.141592653589793, -2.5e10, 1e-3, 123456.789, 65536.0, 1e15])
    if p.kind == "float":
        return rng.choice([0.0, 1.0, -1.0, 0.5, 0.25, 1.5, -3.75, 1024.0])
    if p.kind == "enum":
        return rng.randrange(4)
    if p.kind == "char":
        return rng.choice([65, 97, 48, 126, 32, 122])
    bits = 8 * p.size
    if p.signed:
        return rng.choice([0, 1, -1, 2, -7, 100000, 100001, -100001, (1 << (bits - 1)) - 1, -(1 << (bits - 1)),
                           rng.randrange(-(1 << (bits - 1)), 1 << (bits - 1))])
    return rng.choice([0, 1, 2, 100000, 100001, (1 << bits) - 1, 1 << (bits - 1), rng.randrange(1 << bits)])


FAMILIES = [
    ("ga", ["int", "str", "long"]), ("gb", ["str", "double", "int"]), ("gc", ["unsigned", "char", "ptr"]),
    ("gd", ["long", "float", "str"]),
]


def gen_program(rng):
    funcs = []
    for fam, prefix in FAMILIES:
        for j in range(1, rng.choice([3, 4]) if fam == "ga" else rng.choice([2, 3])):
            extra = [rng.choice(["int", "unsigned", "long", "ulong", "short", "char", "str", "enum", "double", "float"])
                     for _ in range(rng.choice([0, 1, 2, 3]))]
            params = [PTYPES[t] for t in prefix + extra]
            while len([p for p in params if p.cls == "I"]) > 6:
                params.pop()
            ret = rng.choice(["int", "long", "unsigned", "str", "double", "float", "char", "ulong", "short", None, "str", "int"])
            f = PFunc("%s%d" % (fam, j), params, PTYPES[ret] if ret else None)
            for _ in range(rng.choice([2, 3])):
                f.calls.append([rand_pvalue(rng, p) for p in params])
            funcs.append(f)
    # one function whose name contains "retval" and one with no parameters
    f = PFunc("get_retval", [PTYPES["int"], PTYPES["str"]], PTYPES["long"])
    f.calls = [[rand_pvalue(rng, p) for p in f.params] for _ in range(2)]
    funcs.append(f)
    f = PFunc("gz1", [], PTYPES["int"])
    f.calls = [[], []]
    funcs.append(f)
    return Program(funcs)


def parse_truth(prog, text):
    """the program's own log -> [(fname, [values], ret)] with values as ('i', int) / ('s', bytes|None) /
    ('p', int) / ('d', bits) / ('f', bits)"""
    def val(t):
        if t == "NULL":
            return ("s", None)
        k, r = t[0], t[1:]
        if k == "s":
            return ("s", bytes.fromhex(r))
        if k in "pdf":
            return (k, int(r, 16))
        return ("i", int(r))
    calls = []
    cur = None
    for l in text.split("\n"):
        p = l.split()
        if not p:
            continue
        if p[0] == "IN":
            cur = [p[1], [val(t) for t in p[2:]], None]
        elif p[0] == "RET" and cur and cur[0] == p[1]:
            cur[2] = None if p[2:] == ["-"] else val(p[2]) if len(p) > 2 else ("s", b"")
            calls.append(tuple(cur))
            cur = None
    return calls


def valid_specs(f):
    """the specs that make sense for function f: {key: [K.Spec]} per argument and for the return value"""
    S = K.Spec
    out = {}
    for n, (i, p) in enumerate(f.int_params(), 1):
        c = []
        if p.kind == "str":
            c = [S("arg", n, "s"), S("arg", n, "s"), S("arg", n, "p"), S("arg", n, "x"), S("arg", n)]
        elif p.kind == "ptr":
            c = [S("arg", n, "p"), S("arg", n, "x"), S("arg", n), S("arg", n, "u", 64)]
        elif p.kind == "char":
            c = [S("arg", n, "c"), S("arg", n, "i", 8), S("arg", n, "x", 8)]
        else:
            bits = [b for b in (8, 16, 32, 64) if b <= 8 * p.size]
            c = [S("arg", n, fm, b) for fm in "diuxo" for b in bits[-2:]]
            if p.size == 8:
                c += [S("arg", n), S("arg", n)]
        out[("arg", n)] = c
    for n, (i, p) in enumerate(f.fp_params(), 1):
        out[("fparg", n)] = [S("fparg", n)] if p.size == 8 else [S("fparg", n, None, 32)]
        if p.size == 8:
            out[("fparg", n)].append(S("fparg", n, None, 64))
    r = f.ret
    if r is not None:
        if r.kind == "str":
            c = [S("retval", fmt="s"), S("retval", fmt="s"), S("retval", fmt="p"), S("retval", fmt="x"), S("retval")]
        elif r.kind == "ptr":
            c = [S("retval", fmt="p"), S("retval", fmt="x"), S("retval")]
        elif r.kind == "char":
            c = [S("retval", fmt="c"), S("retval", fmt="i", bits=8)]
        elif r.cls == "F":
            c = [S("retval", fmt="f", bits=8 * r.size)] + ([S("retval", fmt="f")] if r.size == 8 else [])
        else:
            bits = [b for b in (8, 16, 32, 64) if b <= 8 * r.size]
            c = [S("retval", fmt=fm, bits=b) for fm in "diuxo" for b in bits[-2:]]
            if r.size == 8:
                c += [S("retval"), S("retval")]
        out[("retval", 0)] = c
    return out


def spec_valid_for(f, sp):
    vs = valid_specs(f)
    k = ("retval", 0) if sp.is_ret() else (sp.kind, sp.n)
    return k in vs and any(x.text() == sp.text() for x in vs[k])


def h5_patterns(rng, prog, f, ptype):
    n = f.name
    fam = n[:2]
    if ptype == "glob":
        return rng.choice([n, n, fam + "?", fam + "[0-9]", "g?" + n[2:] if len(n) == 3 else n])
    return rng.choice([n, n, n, "^%s$" % n, "^%s[0-9]$" % fam, "^%s" % fam, "^g.%s$" % n[2:] if len(n) == 3 else n,
                       "^(%s|%s)$" % (n, rng.choice(prog.funcs).name)])


def gen_h5_case(rng, prog, ptype="regex", avoid=(), nitems=None):
    """items whose specs are valid for every function their pattern matches"""
    names = [f.name for f in prog.funcs]
    case = OptCase(names, ptype)
    nitems = nitems or rng.choice([4, 6, 8, 10])
    tries = 0
    while len(case.items) < nitems and tries < 200:
        tries += 1
        f = rng.choice(prog.funcs)
        src = rng.choice("TTAAAR")
        it = OItem(src, h5_patterns(rng, prog, f, ptype), [], join=rng.random() < 0.4)
        matched = [prog.funcs[i] for i in case.match(it)]
        if not matched or f not in matched:
            continue
        vs = valid_specs(f)
        keys = [k for k in vs if (k[0] == "retval") == (src == "R") or src == "T"]
        if src == "A":
            keys = [k for k in keys if k[0] != "retval"]
        if not keys:
            continue
        rng.shuffle(keys)
        acts = []
        for k in keys[:rng.choice([1, 1, 2, 3])]:
            sp = rng.choice(vs[k])
            if src == "T" and sp.is_ret() and ("C09-TRIGRET" in avoid or rng.random() < 0.3):
                sp = K.Spec("retval")
            acts.append(sp)
        # every matched function must be able to take every spec
        if not all(spec_valid_for(g, sp) for g in matched for sp in acts):
            continue
        it.acts = acts
        case.add(it)
    return case


def h5_directed(prog):
    """corpus of option sets for the generated program (its first two families always exist)"""
    S = K.Spec
    out = []

    def mk(name, items, ptype="regex", auto=False):
        case = OptCase([f.name for f in prog.funcs], ptype)
        for src, n, acts, *j in items:
            it = OItem(src, n, acts, join=bool(j and j[0]))
            # keep the actions every matched function can take (the generated signatures vary with the seed)
            ms = [prog.funcs[i] for i in case.match(it)]
            it.acts = [a for a in acts if all(spec_valid_for(g, a) for g in ms)]
            if it.acts and ms:
                case.add(it)
        case.auto_args = auto
        out.append((name, case))
    # ga*: (int, const char *, long, …), gb*: (const char *, double, int, …)
    mk("T-then-A", [("T", "ga1", [S("arg", 1, "i", 32)]), ("A", "ga1", [S("arg", 3, "x", 64)]),
                    ("A", "gb1", [S("arg", 1, "s"), S("fparg", 1)]), ("T", "gb1", [S("arg", 2, "i", 32), S("retval")])])
    mk("A-before-T-with-string", [("A", "ga1", [S("arg", 3, "x", 64), S("arg", 2, "s")]), ("T", "ga1", [S("arg", 1, "i", 32)]),
                                  ("A", "^gb", [S("arg", 2, "x", 32)]), ("T", "gb1", [S("arg", 1, "s")]),
                                  ("A", "gb1", [S("arg", 2, "i", 32)], True)])
    mk("duplicate-and-pattern", [("T", "^ga[0-9]$", [S("arg", 1, "x", 32), S("arg", 2, "p")]), ("A", "ga1", [S("arg", 2, "s")]),
                                 ("A", "^ga", [S("arg", 1, "i", 32), S("arg", 3, "i", 64)]),
                                 ("A", "ga2", [S("arg", 3, "x", 16), S("arg", 1, "u", 16)])])
    # a function whose name contains "retval" in -A (the old-format pass of setup_fstack_args looks for that text)
    mk("retval-in-name", [("A", "get_retval", [S("arg", 1, "i", 32), S("arg", 2, "s")]), ("R", "get_retval", [S("retval", fmt="x", bits=64)]),
                          ("T", "ga1", [S("arg", 1, "u", 16)])])
    mk("glob", [("T", "ga?", [S("arg", 3, "i", 64)]), ("A", "ga1", [S("arg", 2, "s"), S("arg", 3, "x", 64)]),
                ("A", "g[ab]1", [S("arg", 1, "x", 32), S("arg", 1, "s")])], ptype="glob")
    return out


# ---------------------------------------------------------------------------------------------
# H5: expected values and the readers' outputs
# ---------------------------------------------------------------------------------------------
def truth_value(f, sp, call):
    """the value of spec sp in one logged call: ('int', size, v) | ('str', bytes|None) | None when the program
    did not log it"""
    name, vals, ret = call
    if sp.is_ret():
        t, p = ret, f.ret
    else:
        lst = f.fp_params() if sp.kind == "fparg" else f.int_params()
        if sp.n < 1 or sp.n > len(lst):
            return None
        i, p = lst[sp.n - 1]
        t = vals[i]
    if t is None or p is None:
        return None
    idx, fmt, size, ty, loc, sregs = sp.model()
    if fmt in ("s", "S"):
        if t[0] != "s":
            return None
        s = t[1]
        if s is not None and len(s) > 97:
            s = s[:95] + b"..."
        return ("str", s)
    if t[0] == "s":
        return None              # a pointer shown as a number: the program did not log the address
    v = t[1]
    return ("int", size, v & ((1 << (8 * size)) - 1))


def expected_texts(f, specs, call):
    """(argument text, return text | None) as replay must show them; None for a value without ground truth"""
    a, r = [], None
    for sp in specs:
        tv = truth_value(f, sp, call)
        idx, fmt, size, ty, loc, sregs = sp.model()
        if tv is None:
            t = None
        elif tv[0] == "str":
            t = K.cfmt_str(tv[1], fmt == "S")
        elif fmt == "c":
            t = b"'" + K.esc(tv[2] & 0xff) + b"'"
        elif fmt == "f":
            t = K.cfmt_float(size, tv[2])
        else:
            t = K.cfmt_int(fmt, size, tv[2]).encode()
        if sp.is_ret():
            if r is None:
                r = (t,)
        else:
            a.append(t)
    return a, (r[0] if r else None), r is not None


PY_SCRIPT = '''import json
def _a(v):
    try:
        return json.dumps(v)
    except Exception as e:
        return json.dumps("<unprintable: %s>" % type(e).__name__)
def uftrace_begin(ctx):
    pass
def uftrace_entry(ctx):
    print("E %s %s" % (ctx["name"], _a(ctx.get("args"))))
def uftrace_exit(ctx):
    print("X %s %s" % (ctx["name"], _a(ctx.get("retval"))))
def uftrace_end():
    print("END")
'''

LUA_SCRIPT = '''function ser(v)
  if type(v) == "table" then
    local t = {}
    for i, x in ipairs(v) do t[#t + 1] = ser(x) end
    return "[" .. table.concat(t, ", ") .. "]"
  elseif type(v) == "number" then return string.format("%.17g", v)
  elseif v == nil then return "null"
  else
    local s = tostring(v)
    local o = {}
    for i = 1, #s do o[#o + 1] = string.format("%02x", s:byte(i)) end
    return '"hex:' .. table.concat(o) .. '"'
  end
end
function uftrace_begin(ctx) end
function uftrace_entry(ctx) print(string.format("E %s %s", ctx["name"], ser(ctx["args"]))) end
function uftrace_exit(ctx) print(string.format("X %s %s", ctx["name"], ser(ctx["retval"]))) end
function uftrace_end() print("END") end
'''


def unhex_text(t):
    """dump --chrome writes bytes >= 0x80 as \\xNN: back to the characters replay prints"""
    if not isinstance(t, str):
        return t
    b = re.sub(rb"\\x([0-9a-f]{2})", lambda m: bytes([int(m.group(1), 16)]), t.encode("utf-8", "surrogateescape"))
    b = re.sub(rb"\\([tnr])", lambda m: {b"t": b"\t", b"n": b"\n", b"r": b"\r"}[m.group(1)], b)
    return b.decode("utf-8", "replace")


def text_eq(sp, exp, got):
    """replay's text of one value against the expected text; integers that DWARF records wider than the parameter
    are compared on the parameter's own width"""
    lz = getattr(sp, "loose", 8) if not isinstance(sp, tuple) else 8
    if lz >= 8:
        return exp == got
    try:
        return (int(got, 0) ^ int(exp, 0)) & ((1 << (8 * lz)) - 1) == 0
    except ValueError:
        return False


def split_args(t):
    """split replay's "a, b, c" at top level (strings may contain ", ")"""
    out, cur, q = [], b"", False
    i = 0
    while i < len(t):
        ch = t[i:i + 1]
        if ch == b'"':
            q = not q
        if not q and t[i:i + 2] == b", ":
            out.append(cur)
            cur = b""
            i += 2
            continue
        cur += ch
        i += 1
    if cur or out:
        out.append(cur)
    return out


def parse_replay_calls(text, names):
    """-> [(name, args text, ret text | None)] from `name(args) = ret;` / `name(args);` and from the two-line form
    `name(args) {` … `} = ret; /* name */`"""
    out, open_ = [], []
    for l in text.split(b"\n"):
        m = K.REPLAY_LINE.match(l)
        if not m or l.startswith(b"#"):
            continue
        body = m.group(2)
        mm = re.match(rb"^([A-Za-z_][A-Za-z_0-9]*)\((.*)\)(?: = (.*))?;$", body, re.S)
        if mm:
            if mm.group(1).decode() in names:
                out.append([mm.group(1).decode(), mm.group(2), mm.group(3)])
            continue
        mm = re.match(rb"^([A-Za-z_][A-Za-z_0-9]*)\((.*)\) \{$", body, re.S)
        if mm:
            e = [mm.group(1).decode(), mm.group(2), None]
            open_.append(e)
            if e[0] in names:
                out.append(e)
            continue
        mm = re.match(rb"^\}(?: = (.*);)? /\* ([A-Za-z_][A-Za-z_0-9]*) \*/$", body, re.S)
        if mm and open_:
            e = open_.pop()
            if e[0] == mm.group(2).decode():
                e[2] = mm.group(1)
    return [tuple(e) for e in out]


def parse_dump_calls(text, names):
    """raw dump -> [(name, [arg tokens], [ret tokens])]; token = ('int', bits, v) | ('str', bytes) | ('other', text)"""
    out, cur = [], None
    mode = None
    for l in text.split(b"\n"):
        m = re.match(rb"^[\d.]+\s+\d+: \[(entry|exit ) *\] ([^\s(]+)\(", l)
        if m:
            nm = m.group(2).decode()
            if m.group(1) == b"entry":
                cur = [nm, [], []] if nm in names else None
                if cur:
                    out.append(cur)
                mode = None
            else:
                cur = next((c for c in reversed(out) if c[0] == nm), None) if nm in names else None
            continue
        if re.match(rb"^[\d.]+\s+\d+: \[args", l):
            mode = 1
            continue
        if re.match(rb"^[\d.]+\s+\d+: \[retval", l):
            mode = 2
            continue
        m = re.match(rb"^  (?:args\[\d+\]|retval) (.*)$", l)
        if m and cur is not None and mode:
            v = m.group(1)
            mm = re.match(rb"^([a-zA-Z])(\d+): 0x([0-9a-f]+)$", v)
            if mm:
                tok = ("int", int(mm.group(2)), int(mm.group(3), 16))
            elif v.startswith(b"str: "):
                tok = ("str", v[5:])
            elif v.startswith(b"std::string: "):
                tok = ("str", v[13:])
            elif v.startswith(b"p: "):
                pv = v[3:].split()[0]
                tok = ("int", 64, 0 if pv == b"(nil)" else int(pv, 16))
            else:
                tok = ("other", v)
            cur[mode].append(tok)
    return [tuple(c) for c in out]


def parse_script_calls(text, names, lua):
    """-> [(name, args list | None, retval | None)] from the logging script's output"""
    out = []
    for l in text.split("\n"):
        p = l.split(" ", 2)
        if len(p) < 3 or p[0] not in ("E", "X") or p[1] not in names:
            continue
        try:
            v = json.loads(p[2])
        except ValueError:
            v = ("bad", p[2])
        if p[0] == "E":
            out.append([p[1], v, None, False])
        else:
            c = next((c for c in reversed(out) if c[0] == p[1] and not c[3]), None)
            if c is not None:
                c[2], c[3] = v, True
    return [tuple(c[:3]) for c in out]


def script_value_ok(sp, tv, got, lua):
    """does the script's value `got` equal the ground truth tv for spec sp"""
    idx, fmt, size, ty, loc, sregs = sp.model()
    if tv[0] == "str":
        exp = b"NULL" if tv[1] is None else tv[1]
        if not isinstance(got, str):
            return False
        if lua:
            return got.startswith("hex:") and bytes.fromhex(got[4:]) == exp
        return got.encode("utf-8", "surrogateescape") == exp
    if fmt == "c":
        if lua:
            return isinstance(got, str) and got.startswith("hex:") and bytes.fromhex(got[4:]) == bytes([tv[2] & 0xff])
        return isinstance(got, str) and got.encode("latin-1", "replace") == bytes([tv[2] & 0xff])
    if fmt == "f":
        if not isinstance(got, (int, float)) or isinstance(got, bool):
            return False
        x = struct.unpack("<f", struct.pack("<I", tv[2]))[0] if size == 4 else struct.unpack("<d", struct.pack("<Q", tv[2]))[0]
        return float(got) == x
    if isinstance(got, bool) or not isinstance(got, (int, float)):
        return False
    lz = getattr(sp, "loose", 8)
    if lz < 8:
        return got == int(got) and (int(got) ^ tv[2]) & ((1 << (8 * lz)) - 1) == 0
    if lua and size == 8 and not (tv[2] < (1 << 53)):
        return abs(float(got) % float(1 << 64) - float(tv[2])) <= float(1 << 12) or \
            abs(float(got) + float(1 << 64) - float(tv[2])) <= float(1 << 12)
    if got != int(got):
        return False
    return int(got) % (1 << (8 * size)) == tv[2]


# ---------------------------------------------------------------------------------------------
# H5: running
# ---------------------------------------------------------------------------------------------
def auto_specs(f):
    """what --auto-args derives from DWARF for the parameter types this generator uses"""
    S = K.Spec
    out = []
    ni = nf = 0
    for p in f.params:
        if p.cls == "F":
            nf += 1
            out.append(S("fparg", nf, None, 8 * p.size))
        else:
            ni += 1
            if p.kind == "str":
                out.append(S("arg", ni, "s"))
            elif p.kind == "ptr":
                out.append(S("arg", ni, "p"))
            elif p.kind == "char":
                out.append(S("arg", ni, "c"))
            elif p.kind == "enum":
                out.append(("enum", ni))
            else:
                sp = S("arg", ni)                 # DWARF: integers of every width are recorded as the whole register
                sp.loose = p.size
                out.append(sp)
    r = f.ret
    if r is not None:
        if r.kind == "str":
            out.append(S("retval", fmt="s"))
        elif r.kind == "ptr":
            out.append(S("retval", fmt="p"))
        elif r.kind == "char":
            out.append(S("retval", fmt="c"))
        elif r.cls == "F":
            out.append(S("retval", fmt="f", bits=8 * r.size))
        else:
            sp = S("retval")
            sp.loose = r.size
            out.append(sp)
    return out


def run_cmd(cmd, timeout=60, env=None):
    try:
        r = subprocess.run(cmd, stdout=subprocess.PIPE, stderr=subprocess.PIPE, timeout=timeout, env=env)
        return r.returncode, r.stdout, r.stderr
    except subprocess.TimeoutExpired:
        return -999, b"", b"TIMEOUT"


def h5_one(ctx, uft, exe, prog, name, case, idx, lua_ok):
    """record the program with the option set and collect what every reader shows"""
    d = os.path.join(ctx.scratch, "h5src-%d" % idx)
    env = dict(os.environ)
    for k in list(env):
        if k.startswith("UFTRACE_"):
            env.pop(k)
    res = {"name": name, "case": case, "dir": d}
    rc, out, err = run_cmd(["timeout", "60", uft, "record", "--libmcount-path=" + os.path.join(ctx.src, "libmcount"),
                            "--no-event", "--no-libcall", "--no-pager", "-d", d] + case.argv() + [exe], 90, env)
    res["record_rc"], res["stdout"], res["record_err"] = rc, out, err.decode("utf-8", "replace")[-400:]
    if rc != 0:
        return res
    common = ["-d", d, "--no-pager"]
    res["info"] = run_cmd(["timeout", "30", uft, "info"] + common, 40, env)
    res["replay"] = run_cmd(["timeout", "30", uft, "replay", "--color=no"] + common, 40, env)
    res["dump"] = run_cmd(["timeout", "30", uft, "dump"] + common, 40, env)
    res["chrome"] = run_cmd(["timeout", "30", uft, "dump", "--chrome"] + common, 40, env)
    py = os.path.join(ctx.scratch, "c09log.py")
    res["py"] = run_cmd(["timeout", "30", uft, "script", "-S", py] + common, 40, env)
    if lua_ok:
        res["lua"] = run_cmd(["timeout", "30", uft, "script", "-S", os.path.join(ctx.scratch, "c09log.lua")] + common, 40, env)
    return res


def info_lines(text):
    a = r = None
    for l in text.split("\n"):
        m = re.match(r"^# arguments\s*: (.*)$", l)
        if m:
            a = m.group(1)
        m = re.match(r"^# return values\s*: (.*)$", l)
        if m:
            r = m.group(1)
    return a, r


def h5_eval(prog, res, specs_of, skip=()):
    """compare every reader's values with the program's own log.  specs_of(f) = the list the user asked for.
    -> (number of values compared, [problem dicts])"""
    case = res["case"]
    names = [f.name for f in prog.funcs]
    truth = parse_truth(prog, res["stdout"].decode("utf-8", "replace"))
    bad, nval = [], 0
    by = {}
    for t in truth:
        by.setdefault(t[0], []).append(t)
    want_calls = sum(len(f.calls) for f in prog.funcs)
    if len(truth) != want_calls:
        return 0, [{"reader": "program", "what": "the traced program logged %d of its %d calls" % (len(truth), want_calls)}]

    def group(calls):
        g = {}
        for c in calls:
            g.setdefault(c[0], []).append(c)
        return g
    rep = group(parse_replay_calls(res["replay"][1], names)) if res["replay"][0] == 0 else None
    dmp = group(parse_dump_calls(res["dump"][1], names)) if res["dump"][0] == 0 else None
    chrome = None
    if res["chrome"][0] == 0:
        try:
            ev = json.loads(res["chrome"][1].decode("utf-8", "replace"))["traceEvents"]
            chrome = {}
            for e in ev:
                if e.get("name") in names and e.get("ph") in ("B", "E"):
                    lst = chrome.setdefault(e["name"], [])
                    if e["ph"] == "B":
                        lst.append([e.get("args", {}).get("arguments"), None])
                    elif lst:
                        lst[-1][1] = e.get("args", {}).get("retval")
        except (ValueError, KeyError) as ex:
            bad.append({"reader": "dump --chrome", "what": "output is not valid JSON: %s" % ex})
    pys = group(parse_script_calls(res["py"][1].decode("utf-8", "replace"), names, False)) if res["py"][0] == 0 else None
    luas = group(parse_script_calls(res["lua"][1].decode("utf-8", "replace"), names, True)) \
        if "lua" in res and res["lua"][0] == 0 else None
    for rd, v in (("replay", rep), ("dump", dmp), ("dump --chrome", chrome), ("script (python)", pys)):
        if v is None:
            bad.append({"reader": rd, "what": "the command failed: rc=%s %s" % (
                res[{"replay": "replay", "dump": "dump", "dump --chrome": "chrome", "script (python)": "py"}[rd]][0],
                res[{"replay": "replay", "dump": "dump", "dump --chrome": "chrome", "script (python)": "py"}[rd]][2][-200:])})
    if "lua" in res and luas is None:
        bad.append({"reader": "script (lua)", "what": "the command failed: rc=%s %s" % (res["lua"][0], res["lua"][2][-200:])})

    for f in prog.funcs:
        if f.name in skip:
            continue
        specs = specs_of(f)
        if specs is None:
            continue
        aspecs = [sp for sp in specs if isinstance(sp, tuple) or not sp.is_ret()]
        rspecs = [sp for sp in specs if not isinstance(sp, tuple) and sp.is_ret()]
        for j, call in enumerate(by.get(f.name, [])):
            def problem(reader, what, shown):
                bad.append({"reader": reader, "function": f.name, "call": j, "what": what, "shown": shown,
                            "requested": [sp.text() if not isinstance(sp, tuple) else "arg%d/e:color" % sp[1] for sp in specs],
                            "program_log": "%s(%s) -> %s" % (call[0], ", ".join(repr(v[1]) for v in call[1]),
                                                             repr(call[2][1]) if call[2] else "void")})
            # expected texts
            etexts = []
            for sp in aspecs:
                if isinstance(sp, tuple):
                    i, p = f.int_params()[sp[1] - 1]
                    etexts.append(ENUM_NAMES[call[1][i][1]].encode())
                else:
                    etexts.append(expected_texts(f, [sp], call)[0][0])
            ert = expected_texts(f, rspecs[:1], call)[1] if rspecs else None
            # ---- replay
            if rep is not None:
                lst = rep.get(f.name, [])
                if j >= len(lst):
                    problem("replay", "the call is not shown", None)
                else:
                    _, at, rt = lst[j]
                    toks = split_args(at)
                    if len(toks) != len(etexts):
                        problem("replay", "%d argument values shown for %d requested" % (len(toks), len(etexts)),
                                at.decode("utf-8", "replace")[:300])
                    else:
                        for k2, (e, g) in enumerate(zip(etexts, toks)):
                            if e is None:
                                continue
                            nval += 1
                            if not text_eq(aspecs[k2], e, g):
                                problem("replay", "argument %d: shown %s, passed %s" % (
                                    k2 + 1, g.decode("utf-8", "replace")[:120], e.decode("utf-8", "replace")[:120]),
                                    at.decode("utf-8", "replace")[:300])
                                break
                    if rspecs:
                        if ert is not None:
                            nval += 1
                            if rt is None or not text_eq(rspecs[0], ert, rt):
                                problem("replay", "return value: shown %s, returned %s" % (
                                    (rt or b"(nothing)").decode("utf-8", "replace")[:120], ert.decode("utf-8", "replace")[:120]),
                                    (rt or b"").decode("utf-8", "replace")[:300])
                    elif rt is not None:
                        problem("replay", "a return value is shown although none was requested", rt.decode("utf-8", "replace")[:100])
            # ---- dump --chrome (the same text inside JSON)
            loose = any(getattr(sp, "loose", 8) < 8 for sp in specs if not isinstance(sp, tuple))
            if chrome is not None and all(e is not None for e in etexts) and not loose:
                lst = chrome.get(f.name, [])
                if j >= len(lst):
                    problem("dump --chrome", "the call is not shown", None)
                else:
                    a, r = lst[j]
                    if aspecs:
                        nval += 1
                        exp = (b"(" + b", ".join(etexts) + b")").decode("utf-8", "replace")
                        if unhex_text(a) != exp:
                            problem("dump --chrome", "arguments: shown %s, passed %s" % (str(a)[:200], exp[:200]), a)
                    if rspecs and ert is not None:
                        nval += 1
                        if unhex_text(r) != ert.decode("utf-8", "replace"):
                            problem("dump --chrome", "return value: shown %s, returned %s" % (
                                str(r)[:120], ert.decode("utf-8", "replace")[:120]), r)
            # ---- dump (raw values)
            if dmp is not None:
                lst = dmp.get(f.name, [])
                if j >= len(lst):
                    problem("dump", "the call is not shown", None)
                else:
                    _, da, dr = lst[j]
                    for which, sl, got in (("argument", aspecs, da), ("return value", rspecs[:1], dr)):
                        if len(got) != len(sl):
                            problem("dump", "%d %s values shown for %d requested" % (len(got), which, len(sl)), repr(got)[:300])
                            continue
                        for k2, (sp, g) in enumerate(zip(sl, got)):
                            if isinstance(sp, tuple):
                                continue
                            tv = truth_value(f, sp, call)
                            if tv is None:
                                continue
                            nval += 1
                            idx, fmt, size, ty, loc, sregs = sp.model()
                            lz = getattr(sp, "loose", 8)
                            if tv[0] == "str":
                                ok = g[0] == "str" and g[1] == (b"NULL" if tv[1] is None else tv[1])
                            elif lz < 8:
                                ok = g[0] == "int" and (g[2] ^ tv[2]) & ((1 << (8 * lz)) - 1) == 0
                            else:
                                ok = g[0] == "int" and g[2] == tv[2] and g[1] == 8 * size
                            if not ok:
                                problem("dump", "%s %d: shown %r, passed %r" % (which, k2 + 1, g, tv), repr(got)[:300])
                                break
            # ---- scripts
            for rd, sc, lua in (("script (python)", pys, False), ("script (lua)", luas, True)):
                if sc is None:
                    continue
                lst = sc.get(f.name, [])
                if j >= len(lst):
                    problem(rd, "the script got no callback for the call", None)
                    continue
                _, sa, sr = lst[j]
                for which, sl, got in (("argument", aspecs, sa), ("return value", rspecs[:1], [sr] if rspecs else None)):
                    if not sl:
                        if got not in (None, [], [None]) and which == "argument":
                            problem(rd, "args present although none was requested", repr(got)[:200])
                        continue
                    if not isinstance(got, list) or len(got) != len(sl):
                        problem(rd, "%s: the script got %r for %d requested values" % (which, got, len(sl)), repr(got)[:300])
                        continue
                    for k2, (sp, g) in enumerate(zip(sl, got)):
                        if isinstance(sp, tuple):
                            continue
                        tv = truth_value(f, sp, call)
                        if tv is None:
                            continue
                        nval += 1
                        if not script_value_ok(sp, tv, g, lua):
                            problem(rd, "%s %d: the script got %r, passed %r" % (which, k2 + 1, g, tv), repr(got)[:300])
                            break
    return nval, bad


def run_h5(ctx, thorough, present):
    """present: the set of open findings detected so far (their shapes are kept out of the random option sets)"""
    C = K.C
    res = {"ran": False, "cases": 0, "values": 0, "violations": [], "probes": {}, "info_mismatch": [], "samples": []}
    uft = os.path.join(ctx.src, "uftrace")
    if not os.path.exists(uft):
        return res
    rng = ctx.rng
    prog = gen_program(rng)
    src = os.path.join(ctx.scratch, "c09_prog.c")
    exe = os.path.join(ctx.scratch, "c09_prog")
    with open(src, "w") as fh:
        fh.write(prog.source())
    r = C.sh(["gcc", "-pg", "-O0", "-g", "-o", exe, src])
    if r.returncode != 0:
        res["violations"].append(("h5src-build", {"kind": "harness-build-failed", "log": r.stdout[-1500:]}, True))
        return res
    with open(os.path.join(ctx.scratch, "c09log.py"), "w") as fh:
        fh.write(PY_SCRIPT)
    with open(os.path.join(ctx.scratch, "c09log.lua"), "w") as fh:
        fh.write(LUA_SCRIPT)
    ver = C.sh([uft, "--version"]).stdout
    lua_ok = "luajit" in ver
    # the program's log without tracing must be what the generator intended
    rc, out, err = run_cmd([exe], 20)
    native = parse_truth(prog, out.decode("utf-8", "replace"))
    if rc != 0 or len(native) != sum(len(f.calls) for f in prog.funcs):
        res["violations"].append(("h5src-program", {"kind": "harness-failed", "what": "generated program failed",
                                                    "rc": rc, "stderr": err[-300:].decode("utf-8", "replace")}, True))
        return res
    cases = [(n, c, None) for n, c in h5_directed(prog)]
    S = K.Spec
    nrand = 5 if not thorough else 40
    for i in range(nrand):
        pt = "glob" if rng.random() < 0.2 else "regex"
        cases.append(("random-%d" % i, gen_h5_case(rng, prog, pt, avoid=present), None))
    # --auto-args (DWARF), alone and next to explicit specs: explicit arguments win, the return value is still automatic
    ca = OptCase([f.name for f in prog.funcs])
    ca.auto_args = True
    cases.append(("auto-args", ca, "auto"))
    cb = OptCase([f.name for f in prog.funcs])
    cb.auto_args = True
    cb.add(OItem("A", "ga1", [S("arg", 3, "x", 64), S("arg", 2, "s")]))
    cb.add(OItem("T", "gb1", [S("arg", 3, "i", 32)]))
    cases.append(("auto-args-and-explicit", cb, "auto-mix"))
    # one probe per finding shape that can be produced with this program
    fstr = next((f for f in prog.funcs if f.ret is not None and f.ret.kind == "str"), None)
    if fstr is not None:
        pr = OptCase([f.name for f in prog.funcs])
        pr.add(OItem("T", fstr.name, [S("retval", fmt="s")]))
        pr.add(OItem("R", "gz1", [S("retval", fmt="i", bits=32)]))
        cases.append(("probe-TRIGRET", pr, "C09-TRIGRET"))
    fo = next((f for f in prog.funcs if f.ret is not None and f.ret.cls == "I" and f.ret.kind == "int" and f.ret.size >= 4
               and f.int_params() and f.int_params()[0][1].kind == "int" and "retval" not in f.name), None)
    if fo is not None:
        po = OptCase([f.name for f in prog.funcs])
        po.add(OItem("A", fo.name, [valid_specs(fo)[("arg", 1)][0], S("retval", fmt="s")]))
        po.add(OItem("R", fo.name, [S("retval", fmt="x", bits=32)]))
        po.add(OItem("R", "gz1", [S("retval", fmt="i", bits=32)]))
        cases.append(("probe-OLDFMT", po, "C09-OLDFMT"))

    with ThreadPoolExecutor(6) as ex:
        outs = list(ex.map(lambda ic: h5_one(ctx, uft, exe, prog, ic[1][0], ic[1][1], ic[0], lua_ok), enumerate(cases)))
    res["ran"] = True
    res["lua"] = lua_ok
    res["program"] = src
    for (name, case, kind), o in zip(cases, outs):
        res["cases"] += 1
        desc = dict(case.describe())
        desc.update({"case": name, "program": "generated (seed %d), %d functions" % (ctx.seed, len(prog.funcs)),
                     "program_source": prog.source()[:6000]})
        if o["record_rc"] != 0:
            res["violations"].append(("h5src-record-" + name, dict(desc, kind="implementation-failed",
                                      what="uftrace record failed: rc=%s %s" % (o["record_rc"], o["record_err"])), True))
            continue
        if o["stdout"] != out:
            res["violations"].append(("h5src-behaviour-" + name, dict(
                desc, kind="property-violated-on-implementation", theorem="C01 (tracing changed the program's output)",
                what="the traced program's log differs from the untraced one",
                traced=o["stdout"].decode("utf-8", "replace")[:1500], native=out.decode("utf-8", "replace")[:1500]), False))
            continue
        # ---- info file against the model
        ia, ir = info_lines(o["info"][1].decode("utf-8", "replace")) if o["info"][0] == 0 else (None, None)
        variants = info_variant(case, ia, ir)
        o["variants"] = variants
        if not variants:
            _, line = model_lists(case, (0, 0, 0))
            res["info_mismatch"].append(dict(desc, info_argspec=ia, info_retspec=ir, model_as_coded=line))
        # ---- the lists
        if kind == "auto":
            def specs_of(f):
                return auto_specs(f)
        elif kind == "auto-mix":
            def specs_of(f, case=case):
                m = py_merge(case, [g.name for g in prog.funcs].index(f.name)) or []
                a = auto_specs(f)
                if any(not sp.is_ret() for sp in m):
                    a = [sp for sp in a if not isinstance(sp, tuple) and sp.is_ret()]
                if any(sp.is_ret() for sp in m):
                    a = [sp for sp in a if isinstance(sp, tuple) or not sp.is_ret()]
                return list(m) + a
        else:
            def specs_of(f, case=case):
                m = py_merge(case, [g.name for g in prog.funcs].index(f.name))
                if m is None:
                    return None
                # K.Spec-like view of the merged entries
                return m
        nval, bad = h5_eval(prog, o, specs_of)
        res["values"] += nval
        if len(res["samples"]) < 3:
            res["samples"].append({"case": name, "options": case.argv(), "values_compared": nval,
                                   "replay_head": o["replay"][1].decode("utf-8", "replace").split("\n")[2:5]})
        if kind in FINDINGS:
            res["probes"][kind] = {"present": bool(bad), "options": case.argv(),
                                   "evidence": ["%s %s call %s: %s" % (b.get("reader"), b.get("function"), b.get("call"), b["what"])
                                                for b in bad[:3]]}
            continue
        if bad:
            sh = case.shapes() & set(present)
            d = dict(desc, kind="property-violated-on-implementation", what="; ".join(
                "%s: %s %s: %s" % (b.get("reader"), b.get("function", ""), "call %s" % b.get("call", ""), b["what"]) for b in bad[:4]),
                problems=bad[:8], info_argspec=ia, info_retspec=ir, model_variants=[list(v) for v in variants],
                theorem="c09_spec_lists_agree / c09_parse_pack", open_finding_shapes=sorted(sh),
                replay=o["replay"][1].decode("utf-8", "replace")[:2500])
            res["violations"].append(("h5src-" + name, d, False))
    return res
