/*
 * H1 driver for C11: the real libmcount (linked statically, see lib/h1.py and
 * checks/c11.py) driven with fake activation frames.  libmcount/plthook.c and
 * libmcount/wrap.c of the snapshot are #included here (they are left out of
 * the library object list) so that a fake PLT module can be registered in the
 * static `plthook_modules` list and the static real_* pointers of the wrappers
 * can be pointed at stubs.
 *
 * The return slots live in an array on main()'s own stack frame, so that they
 * are above the frame pointers of the wrappers (the "basic sanity check" of
 * __cxa_begin_catch compares with the real frame pointer).  Word index i of
 * the model is &fake[i].
 *
 * stdin: one op per line (the same text is the model query):
 *   CALL n|m|p child slot orig fpw     fpw: 0 or a word index ("frame pointer")
 *   RET slot                           (slot of the returning frame)
 *   TAIL m|p child slot
 *   SETJMP j child slot orig | LONGJMP j child slot orig
 *   THROW | RESUME | UNWIND | CATCH fa
 *   PEXIT child slot orig | EXIT child slot orig | VFORK child slot orig echild eorig | DTOR
 * stdout per op:  "MODEL <query>" then "IMPL <result in the model's format>"
 *
 * Filters x non-local exits (C05/C11): libmcount reads the UFTRACE_FILTER/TRIGGER/DEPTH/... environment
 * prepared by lib/mcgen.py as usual.  `FXMODE` switches the clock to the scripted one (`T n`, no
 * auto-advance) and the result lines to the format of the hook model `Mcount`:
 *   "IMPL [hij=b ]st=idx/ridx/in/out/depth/maxdepth/time/size/en recs=<E|X>:depth:child:time ..."
 * `END` prints the final state like harness/h1_driver.c and exits normally.
 *
 * The PLT symbols of the fake module are matched BY NAME against libmcount's special-function tables
 * (setup_dynsym_indexes); `NAMES` prints the name of every child id >= 100.
 */
#define _GNU_SOURCE
#include <errno.h>
#include <pthread.h>
#include <setjmp.h>
#include <stdint.h>
#include <stdio.h>
#include <stdlib.h>
#include <string.h>
#include <sys/syscall.h>
#include <time.h>
#include <unistd.h>

/* ---- scripted clock and pid (override libc's for the whole executable) ---- */
static uint64_t h1_now = 1000;
static uint64_t h1_tick = 3;
int clock_gettime(clockid_t id, struct timespec *ts)
{
	ts->tv_sec = h1_now / 1000000000ULL;
	ts->tv_nsec = h1_now % 1000000000ULL;
	h1_now += h1_tick;
	return 0;
}
static long h1_pid_delta;
pid_t getpid(void)
{
	return (pid_t)(syscall(SYS_getpid) + h1_pid_delta);
}

#include "libmcount/plthook.c"
#include "libmcount/wrap.c"

extern int mcount_entry(unsigned long *parent_loc, unsigned long child, struct mcount_regs *regs);
extern unsigned long mcount_exit(long *retval);
extern unsigned long mcount_return_fn;
extern void mtd_dtor(void *arg);

#define DUMMY(n)                                                                                   \
	__attribute__((noinline, used)) void n(void)                                               \
	{                                                                                          \
		asm volatile("nop;nop;nop;nop;nop;nop;nop;nop;nop;nop;nop;nop;nop;nop;nop;nop");   \
	}
DUMMY(f0) DUMMY(f1) DUMMY(f2) DUMMY(f3)
extern void f4(void), f5(void), f6(void), f7(void);
typedef void (*fn_t)(void);
static fn_t funcs[] = { f0, f1, f2, f3, f4, f5, f6, f7 };
#define NFUNC 8

/* ---- the fake PLT module ---- */
#define PLT_BASE 0x500000UL
static char *plt_names[] = { "plainfn",	 "setjmp",	 "longjmp", "vfork",
			     "execl",	 "exit",	 "pthread_exit", "_Unwind_RaiseException",
			     "__cxa_throw", "siglongjmp", "__sigsetjmp", "fork",
			     "otherfn",	 "thirdfn",
			     /* 114.. : further names a program can bind (checks/c11.py drives them by name) */
			     "_setjmp",	 "sigsetjmp",	 "__longjmp_chk", "_longjmp",
			     "execv",	 "execve",	 "execvp", "execlp",
			     "execle",	 "execvpe",	 "fexecve", "posix_spawn",
			     "posix_spawnp", "daemon",	 "_exit", "_Exit",
			     "quick_exit", "__vfork" };
#define NPLT (sizeof(plt_names) / sizeof(plt_names[0]))
static struct uftrace_symbol plt_syms[NPLT];
static struct uftrace_symbol *plt_sym_ptrs[NPLT];
static unsigned long plt_resolved[NPLT];
static unsigned long plt_got[NPLT + 8];
static struct plthook_data fake_pd;
#define FAKE_MODULE_ID 0x4321UL

static void setup_fake_plt(void)
{
	unsigned i;

	for (i = 0; i < NPLT; i++) {
		plt_syms[i].addr = PLT_BASE + 16 * i;
		plt_syms[i].size = 16;
		plt_syms[i].type = ST_PLT_FUNC;
		plt_syms[i].name = plt_names[i];
		plt_sym_ptrs[i] = &plt_syms[i];
		plt_resolved[i] = 0x600000UL + i;
	}
	fake_pd.mod_name = "fake-module";
	fake_pd.module_id = FAKE_MODULE_ID;
	fake_pd.dsymtab.sym = plt_syms;
	fake_pd.dsymtab.sym_names = plt_sym_ptrs;
	fake_pd.dsymtab.nr_sym = NPLT;
	fake_pd.pltgot_ptr = plt_got;
	fake_pd.resolved_addr = plt_resolved;
	list_add_tail(&fake_pd.list, &plthook_modules);
	setup_dynsym_indexes(&fake_pd);
}

/* model child id <-> address: 0..7 = funcs, 100+i = PLT symbol i */
static unsigned long child_addr(int child)
{
	if (child >= 100)
		return plt_syms[child - 100].addr;
	return (unsigned long)funcs[child];
}
static long addr_child(unsigned long addr)
{
	unsigned i;

	for (i = 0; i < NPLT; i++)
		if (addr == plt_syms[i].addr)
			return 100 + i;
	for (i = 0; i < NFUNC; i++)
		if (addr == ((unsigned long)funcs[i] & 0xffffffffffffUL))
			return i;
	return 999;
}

/* ---- stubs for the real functions behind the wrappers ---- */
static jmp_buf back_to_driver;
static void stub_throw(void *a, void *b, void *c) {}
static void stub_rethrow(void) {}
static void stub_resume(void *a) {}
static void *stub_begin_catch(void *a) { return NULL; }
static void stub_end_catch(void) {}
static __attribute__((noreturn)) void stub_pthread_exit(void *r)
{
	__builtin_longjmp(back_to_driver, 1);
}

/* call fn(arg) with %rbp = fake_rbp, as if the caller's frame pointer were there */
void *call_with_rbp(void *(*fn)(void *), void *arg, unsigned long fake_rbp);
asm(".text\n"
    ".type call_with_rbp,@function\n"
    "call_with_rbp:\n"
    "	push %rbp\n"
    "	mov %rdx, %rbp\n"
    "	mov %rdi, %rax\n"
    "	mov %rsi, %rdi\n"
    "	call *%rax\n"
    "	pop %rbp\n"
    "	ret\n");

/* ---- reading back what libmcount emitted ---- */
struct cursor {
	void *ident;
	int buf;
	unsigned off;
};
#define NCURSOR 512
static struct cursor cursors[NCURSOR];
static void *main_ident;

static char recbuf[1 << 16];
static size_t reclen;
static int fx_mode;

/* append the records written since the last call (of the current shmem) */
static void collect_records(void)
{
	struct mcount_thread_data *mtdp = get_thread_data();
	struct mcount_shmem *shmem;
	struct cursor *c = NULL;
	int i;

	if (mtdp == NULL || check_thread_data(mtdp) || mtdp->shmem.buffer == NULL)
		return;
	shmem = &mtdp->shmem;
	for (i = 0; i < NCURSOR; i++) {
		if (cursors[i].ident == shmem->buffer || cursors[i].ident == NULL) {
			c = &cursors[i];
			break;
		}
	}
	if (c == NULL)
		return;
	if (c->ident == NULL) {
		c->ident = shmem->buffer;
		if (main_ident == NULL)
			main_ident = shmem->buffer;
	}
	while (c->buf < shmem->nr_buf) {
		struct mcount_shmem_buffer *b = shmem->buffer[c->buf];
		unsigned size = b->size;

		for (; c->off + 16 <= size; c->off += 16) {
			uint64_t w;

			memcpy(&w, b->data + c->off + 8, 8);
			if (fx_mode) {
				uint64_t t;

				memcpy(&t, b->data + c->off, 8);
				if (reclen + 96 < sizeof(recbuf))
					reclen += sprintf(recbuf + reclen, "%s%c:%u:%ld:%llu", reclen ? " " : "",
							  "EXLV"[w & 3], (unsigned)((w >> 6) & 0x3ff),
							  addr_child(w >> 16), (unsigned long long)t);
				continue;
			}
			if (reclen + 64 < sizeof(recbuf))
				reclen += sprintf(recbuf + reclen, "%s%c%d.%u.%ld", reclen ? "," : "",
						  (w & 3) == 0 ? 'E' : 'X', c->ident == main_ident ? 0 : 1,
						  (unsigned)((w >> 6) & 0x3ff), addr_child(w >> 16));
		}
		if (shmem->curr > c->buf) {
			c->buf++;
			c->off = 0;
			continue;
		}
		break;
	}
}

static void dump_new_records(void)
{
	collect_records();
	printf(" recs=%s", reclen ? recbuf : "-");
	reclen = 0;
	recbuf[0] = 0;
}

static unsigned long *fake;
#define NSLOT 256
static int watch = 40;

static void show_val(unsigned long v)
{
	if (v == mcount_return_fn)
		printf("T");
	else if (v == (unsigned long)plthook_return)
		printf("P");
	else if (v >= (unsigned long)fake && v < (unsigned long)(fake + NSLOT))
		printf("%lu", (unsigned long)((unsigned long *)v - fake));
	else
		printf("%lu", v);
}

static void show_filter_state(struct mcount_thread_data *mtdp)
{
	if (mtdp == NULL || check_thread_data(mtdp)) {
		printf("st=nothread");
		return;
	}
#ifndef DISABLE_MCOUNT_FILTER
	printf("st=%d/%d/%d/%d/%d/%d/%llu/%u/%d", mtdp->idx, mtdp->record_idx, mtdp->filter.in_count,
	       mtdp->filter.out_count, mtdp->filter.depth, mtdp->filter.max_depth,
	       (unsigned long long)mtdp->filter.time, mtdp->filter.size, (int)mcount_enabled);
#else
	printf("st=%d/%d", mtdp->idx, mtdp->record_idx);
#endif
}

/* hij: -1 = not a call */
static void show_fx(int hij)
{
	printf("IMPL ");
	if (hij >= 0)
		printf("hij=%d ", hij);
	show_filter_state(get_thread_data());
	dump_new_records();
	printf("\n");
	fflush(stdout);
}

static void show_state(int with_last, unsigned long last)
{
	struct mcount_thread_data *mtdp = get_thread_data();
	int i;

	if (fx_mode) {
		show_fx(-1);
		return;
	}
	printf("IMPL last=");
	if (with_last)
		show_val(last);
	else
		printf("-");
	if (mtdp == NULL || check_thread_data(mtdp))
		printf(" idx=0 ridx=0 exc=0");
	else
		printf(" idx=%d ridx=%d exc=%d", mtdp->idx, mtdp->record_idx, (int)mtdp->in_exception);
	printf(" mem=");
	for (i = 1; i <= watch; i++) {
		if (i > 1)
			printf(",");
		show_val(fake[i]);
	}
	dump_new_records();
	printf("\n");
	fflush(stdout);
}

static long retval_buf[16];

static unsigned long ret_loop(unsigned long v)
{
	int guard = 0;

	while (guard++ < 5000) {
		if (v == mcount_return_fn)
			v = mcount_exit(retval_buf);
		else if (v == (unsigned long)plthook_return)
			v = plthook_exit(retval_buf);
		else
			break;
	}
	return v;
}

static void hook_entry(char k, int child, int slot, struct mcount_regs *regs)
{
	if (k == 'm')
		mcount_entry(&fake[slot], child_addr(child), regs);
	else if (k == 'p')
		plthook_entry(&fake[slot], child - 100, FAKE_MODULE_ID, regs);
}

static unsigned long word(long v)
{
	/* 0 stays 0 ("text address": below every stack address); otherwise a frame pointer */
	return v == 0 ? 0 : (unsigned long)&fake[v];
}

int main(void)
{
	char line[256];
	unsigned long fake_area[NSLOT];
	unsigned long jb_pc[64];
	struct mcount_regs regs;

	memset(&regs, 0, sizeof(regs));
	memset(fake_area, 0, sizeof(fake_area));
	memset(jb_pc, 0, sizeof(jb_pc));
	fake = fake_area;
	setvbuf(stdout, NULL, _IOFBF, 1 << 16);

	setup_fake_plt();
	mcount_hook_functions();
	real_cxa_throw = stub_throw;
	real_cxa_rethrow = stub_rethrow;
	real_unwind_resume = stub_resume;
	real_cxa_begin_catch = stub_begin_catch;
	real_cxa_end_catch = stub_end_catch;
	real_pthread_exit = (void *)stub_pthread_exit;

	while (fgets(line, sizeof(line), stdin)) {
		char op[16] = "", k[8] = "";
		long a[6] = { 0 };
		int n;

		if (line[0] == '#' || line[0] == '\n')
			continue;
		line[strcspn(line, "\n")] = 0;
		sscanf(line, "%15s", op);
		errno = 4242;

		if (!strcmp(op, "WATCH")) {
			sscanf(line, "%*s %d", &watch);
			continue;
		}
		if (!strcmp(op, "FXMODE")) {
			fx_mode = 1;
			h1_tick = 0;
			continue;
		}
		if (!strcmp(op, "NAMES")) {
			unsigned i;

			printf("NAMES");
			for (i = 0; i < NPLT; i++)
				printf(" %u=%s", 100 + i, plt_names[i]);
			printf("\n");
			continue;
		}
		if (!strcmp(op, "T")) {
			h1_now = strtoull(line + 1, NULL, 0);
			printf("MODEL %s\nIMPL ok\n", line);
			continue;
		}
		if (!strcmp(op, "END")) {
			struct mcount_thread_data *mtdp = get_thread_data();

			printf("MODEL END\n");
			if (!mtdp || check_thread_data(mtdp)) {
				printf("IMPL end nothread\n");
				break;
			}
			printf("IMPL end idx=%d ridx=%d", mtdp->idx, mtdp->record_idx);
#ifndef DISABLE_MCOUNT_FILTER
			printf(" filt=%d/%d/%d/%d/%llu/%u en=%d", mtdp->filter.in_count, mtdp->filter.out_count,
			       mtdp->filter.depth, mtdp->filter.max_depth, (unsigned long long)mtdp->filter.time,
			       mtdp->filter.size, (int)mcount_enabled);
#endif
			printf("\n");
			break;
		}
		if (!strcmp(op, "CALL")) {
			n = sscanf(line, "%*s %7s %ld %ld %ld %ld", k, &a[0], &a[1], &a[2], &a[3]);
			printf("MODEL %s\n", line);
			fflush(stdout);
			fake[a[1]] = a[2];
			fake[a[1] - 1] = word(a[3]);
			hook_entry(k[0], a[0], a[1], &regs);
			if (fx_mode)
				show_fx(fake[a[1]] != (unsigned long)a[2]);
			else
				show_state(0, 0);
		}
		else if (!strcmp(op, "RET")) {
			unsigned long v;

			sscanf(line, "%*s %ld", &a[0]);
			printf("MODEL RET\n");
			fflush(stdout);
			v = ret_loop(fake[a[0]]);
			show_state(1, v);
		}
		else if (!strcmp(op, "TAIL")) {
			sscanf(line, "%*s %7s %ld %ld", k, &a[0], &a[1]);
			printf("MODEL TAIL %s %ld\n", k, a[0]);
			fflush(stdout);
			hook_entry(k[0], a[0], a[1], &regs);
			show_state(0, 0);
		}
		else if (!strcmp(op, "SETJMP") || !strcmp(op, "LONGJMP")) {
			unsigned long v;

			sscanf(line, "%*s %ld %ld %ld %ld", &a[0], &a[1], &a[2], &a[3]);
			printf("MODEL %s\n", line);
			fflush(stdout);
			fake[a[2]] = a[3];
			regs.rdi = 0x7000 + a[0];
			plthook_entry(&fake[a[2]], a[1] - 100, FAKE_MODULE_ID, &regs);
			regs.rdi = 0;
			if (op[0] == 'S') {
				/* the real setjmp saves the (hijacked) return address */
				jb_pc[a[0] & 63] = fake[a[2]];
				v = ret_loop(fake[a[2]]);
			}
			else
				v = ret_loop(jb_pc[a[0] & 63]);
			show_state(1, v);
		}
		else if (!strcmp(op, "THROW") || !strcmp(op, "RESUME")) {
			printf("MODEL %s\n", op);
			fflush(stdout);
			if (op[0] == 'T')
				__cxa_throw(NULL, NULL, NULL);
			else
				_Unwind_Resume(NULL);
			show_state(0, 0);
		}
		else if (!strcmp(op, "UNWIND")) {
			printf("MODEL UNWIND\n");
			show_state(0, 0);
		}
		else if (!strcmp(op, "CATCH")) {
			sscanf(line, "%*s %ld", &a[0]);
			printf("MODEL %s\n", line);
			fflush(stdout);
			call_with_rbp(__cxa_begin_catch, NULL, (unsigned long)&fake[a[0]]);
			show_state(0, 0);
		}
		else if (!strcmp(op, "PEXIT")) {
			sscanf(line, "%*s %ld %ld %ld", &a[0], &a[1], &a[2]);
			printf("MODEL %s\n", line);
			fflush(stdout);
			fake[a[1]] = a[2];
			plthook_entry(&fake[a[1]], a[0] - 100, FAKE_MODULE_ID, &regs);
			if (__builtin_setjmp(back_to_driver) == 0)
				pthread_exit(NULL);
			show_state(0, 0);
		}
		else if (!strcmp(op, "EXIT")) {
			struct mcount_thread_data *mtdp;

			sscanf(line, "%*s %ld %ld %ld", &a[0], &a[1], &a[2]);
			printf("MODEL %s\n", line);
			fflush(stdout);
			fake[a[1]] = a[2];
			plthook_entry(&fake[a[1]], a[0] - 100, FAKE_MODULE_ID, &regs);
			/* exit() ends in the thread-data destructor */
			mtdp = get_thread_data();
			{
				/* print the records before the buffers are unmapped */
				int i, idx = mtdp->idx, ridx = mtdp->record_idx;

				printf("IMPL last=- idx=0 ridx=%d exc=%d mem=", ridx, (int)mtdp->in_exception);
				(void)idx;
				/* memory after the restore done by mtd_dtor */
				mcount_rstack_restore(mtdp);
				for (i = 1; i <= watch; i++) {
					if (i > 1)
						printf(",");
					show_val(fake[i]);
				}
				dump_new_records();
				printf("\n");
				fflush(stdout);
			}
			mtd_dtor(mtdp);
			break;
		}
		else if (!strcmp(op, "DTOR")) {
			struct mcount_thread_data *mtdp = get_thread_data();
			int i;

			printf("MODEL DTOR\n");
			fflush(stdout);
			/* mtd_dtor's restore; the rest of mtd_dtor (freeing) ends the run */
			mcount_rstack_restore(mtdp);
			printf("IMPL last=- idx=0 ridx=%d exc=%d mem=", mtdp->record_idx, (int)mtdp->in_exception);
			for (i = 1; i <= watch; i++) {
				if (i > 1)
					printf(",");
				show_val(fake[i]);
			}
			dump_new_records();
			printf("\n");
			fflush(stdout);
			mtd_dtor(mtdp);
			break;
		}
		else if (!strcmp(op, "VFORK")) {
			unsigned long saved, v;

			sscanf(line, "%*s %ld %ld %ld %ld %ld", &a[0], &a[1], &a[2], &a[3], &a[4]);
			printf("MODEL %s\n", line);
			fflush(stdout);
			fake[a[1]] = a[2];
			plthook_entry(&fake[a[1]], a[0] - 100, FAKE_MODULE_ID, &regs);
			saved = fake[a[1]];
			collect_records();
			h1_pid_delta = 1; /* the child */
			ret_loop(saved);
			fake[a[1]] = a[4];
			plthook_entry(&fake[a[1]], a[3] - 100, FAKE_MODULE_ID, &regs);
			collect_records();
			h1_pid_delta = 0; /* exec: the parent continues */
			v = ret_loop(saved);
			show_state(1, v);
		}
		else {
			printf("MODEL %s\nIMPL bad-op\n", line);
		}
		if (errno != 4242)
			printf("NOTE errno changed by op %s\n", op);
	}
	fflush(stdout);
	return 0;
}
