/*
 * H1 driver for C18 (record-time script hooks).  Started from harness/h1_driver.c and the
 * thread support of harness/h1_c17_driver.c; linked statically with the libmcount sources
 * of the scratch snapshot.  libmcount's constructor runs before main() with
 * UFTRACE_SCRIPT=<file>.testing: script_init() accepts that type without an interpreter
 * (it only turns UFTRACE_ARGS into the script's function list) and leaves the callback
 * pointers of utils/script.c unset.  main() points them to the logging functions below, so
 * everything from mcount_entry() to script_hook_entry() / script_save_context() /
 * script_match_filter() is the real code and the "script" is this file.
 *
 * stdin: one op per line
 *   T <n>            set the scripted clock to n (ns)
 *   TH <k>           the following ops run on thread k (0 = main, 1..3 = workers)
 *   E pg <i>         call mcount_entry(&slot, f_i, regs) with a fake return slot
 *   E cyg <i>        call __cyg_profile_func_enter(f_i, caller)
 *   X                return from the innermost open call of the current thread
 *   END              print trailer and exit(0)
 * stdout: one line per op:  <opno> [rc=.. hij=..] hooks=<list>
 *   hook entries:  E:<fn>:<depth>:<timestamp>:<tid-ok>   X:<fn>:<depth>:<timestamp>:<duration>:<tid-ok>
 *   (tid-ok: sc_ctx->tid is the calling thread's tid; the name is checked against the address)
 */
#define _GNU_SOURCE
#include <errno.h>
#include <pthread.h>
#include <stdint.h>
#include <stdio.h>
#include <stdlib.h>
#include <string.h>
#include <sys/syscall.h>
#include <time.h>
#include <unistd.h>

#include "libmcount/internal.h"
#include "libmcount/mcount.h"
#include "utils/script.h"
#include "utils/utils.h"

/* ---- scripted clock (overrides libc's for the whole executable) ---- */
static uint64_t h1_now = 1000;

int clock_gettime(clockid_t id, struct timespec *ts)
{
	ts->tv_sec = h1_now / 1000000000ULL;
	ts->tv_nsec = h1_now % 1000000000ULL;
	return 0;
}

/* ---- dummy traced functions: only their addresses / symbols are used ---- */
#define DUMMY(n)                                                                                   \
	__attribute__((noinline, used)) void n(void)                                               \
	{                                                                                          \
		asm volatile("nop;nop;nop;nop;nop;nop;nop;nop;nop;nop;nop;nop;nop;nop;nop;nop");   \
	}
DUMMY(f0) DUMMY(f1) DUMMY(f2) DUMMY(f3)
extern void f4(void), f5(void), f6(void), f7(void);
__attribute__((noinline, used)) void g_big(void)
{
	asm volatile(".rept 200\n nop\n .endr");
}

typedef void (*fn_t)(void);
static fn_t funcs[] = { f0, f1, f2, f3, f4, f5, f6, f7, g_big };
static const char *fnames[] = { "f0", "f1", "f2", "f3", "f4", "f5", "f6", "f7", "g_big" };
#define NFUNC (sizeof(funcs) / sizeof(funcs[0]))

extern int mcount_entry(unsigned long *parent_loc, unsigned long child, struct mcount_regs *regs);
extern unsigned long mcount_exit(long *retval);
extern void __cyg_profile_func_enter(void *child, void *parent);
extern void __cyg_profile_func_exit(void *child, void *parent);

/* ---- the "script": logs every callback of the current op ---- */
static char hooklog[4096];
static int hooklen;
static int end_calls;

static int fn_of(unsigned long addr)
{
	unsigned i;

	for (i = 0; i < NFUNC; i++)
		if (addr == (unsigned long)funcs[i])
			return i;
	return -1;
}

static int ctx_ok(struct script_context *c, int fn)
{
	int tid = syscall(SYS_gettid);

	return c->tid == tid && fn >= 0 && c->name && !strcmp(c->name, fnames[fn]);
}

static int log_entry(struct script_context *c)
{
	int fn = fn_of(c->address);

	hooklen += snprintf(hooklog + hooklen, sizeof(hooklog) - hooklen, " E:%d:%d:%llu:%d", fn, c->depth,
			    (unsigned long long)c->timestamp, ctx_ok(c, fn));
	return 0;
}

static int log_exit(struct script_context *c)
{
	int fn = fn_of(c->address);

	hooklen += snprintf(hooklog + hooklen, sizeof(hooklog) - hooklen, " X:%d:%d:%llu:%llu:%d", fn, c->depth,
			    (unsigned long long)c->timestamp, (unsigned long long)c->duration, ctx_ok(c, fn));
	return 0;
}

static int log_end(void)
{
	end_calls++;
	return 0;
}

static int log_atfork(void)
{
	return 0;
}

/* ---- the script's own call stacks ---- */
struct hframe {
	int kind; /* 0 = pg, 1 = cyg */
	int fn;
	int hijacked;
	unsigned long orig;
	unsigned long slot[4];
};

struct tctx {
	struct hframe hstack[2048];
	int hdepth;
	struct mcount_regs regs;
};

static struct tctx tctxs[4];
static int opno;

static void do_hook_op(struct tctx *t, const char *line)
{
	char op[16] = "", a1[32] = "", a2[32] = "";
	int n = sscanf(line, "%15s %31s %31s", op, a1, a2);

	(void)n;
	hooklen = 0;
	hooklog[0] = '\0';
	if (!strcmp(op, "E")) {
		int fn = atoi(a2);
		struct hframe *h = &t->hstack[t->hdepth];
		int rc = 0;

		if (fn < 0 || fn >= (int)NFUNC || t->hdepth >= 2047) {
			printf("%d bad-op\n", opno);
			return;
		}
		h->fn = fn;
		h->orig = 0xcafe0000UL + t->hdepth * 16 + 1;
		h->slot[0] = (unsigned long)&h->slot[3];
		h->slot[1] = h->orig;
		h->hijacked = 0;
		if (!strcmp(a1, "pg")) {
			h->kind = 0;
			rc = mcount_entry(&h->slot[1], (unsigned long)funcs[fn], &t->regs);
			h->hijacked = h->slot[1] != h->orig;
		}
		else {
			h->kind = 1;
			__cyg_profile_func_enter((void *)funcs[fn], (void *)h->orig);
		}
		t->hdepth++;
		printf("%d rc=%d hij=%d hooks=%s\n", opno, rc, h->hijacked, hooklen ? hooklog : " -");
	}
	else if (!strcmp(op, "X")) {
		struct hframe *h;
		const char *ret = "-";

		if (t->hdepth == 0) {
			printf("%d bad-op\n", opno);
			return;
		}
		h = &t->hstack[--t->hdepth];
		if (h->kind == 0) {
			if (h->hijacked) {
				long rv = 0;
				unsigned long back = mcount_exit(&rv);

				ret = back == h->orig ? "ok" : "BAD";
			}
		}
		else
			__cyg_profile_func_exit((void *)funcs[h->fn], (void *)h->orig);
		printf("%d ret=%s hooks=%s\n", opno, ret, hooklen ? hooklog : " -");
	}
	else
		printf("%d bad-op\n", opno);
}

/* ---- worker threads: ops are handed over one at a time, so the run is sequential ---- */
static pthread_mutex_t wmtx = PTHREAD_MUTEX_INITIALIZER;
static pthread_cond_t wcond = PTHREAD_COND_INITIALIZER;
static const char *wline[4];
static int wdone[4];
static pthread_t wthr[4];
static int wstarted[4];

static void *worker(void *arg)
{
	int k = (int)(long)arg;

	pthread_mutex_lock(&wmtx);
	for (;;) {
		while (wline[k] == NULL)
			pthread_cond_wait(&wcond, &wmtx);
		do_hook_op(&tctxs[k], wline[k]);
		wline[k] = NULL;
		wdone[k] = 1;
		pthread_cond_broadcast(&wcond);
	}
	return NULL;
}

static void run_on(int k, const char *line)
{
	if (k == 0) {
		do_hook_op(&tctxs[0], line);
		return;
	}
	pthread_mutex_lock(&wmtx);
	if (!wstarted[k]) {
		wstarted[k] = 1;
		pthread_create(&wthr[k], NULL, worker, (void *)(long)k);
	}
	wdone[k] = 0;
	wline[k] = line;
	pthread_cond_broadcast(&wcond);
	while (!wdone[k])
		pthread_cond_wait(&wcond, &wmtx);
	pthread_mutex_unlock(&wmtx);
}

int main(void)
{
	char line[256];
	int cur = 0;

	setvbuf(stdout, NULL, _IOFBF, 1 << 16);

	/* the callbacks a script language binding would have installed in script_init() */
	script_uftrace_entry = log_entry;
	script_uftrace_exit = log_exit;
	script_uftrace_end = log_end;
	script_atfork_prepare = log_atfork;

	printf("SCRIPT enabled=%d str=%s\n", (int)SCRIPT_ENABLED, script_str ? "set" : "null");

	while (fgets(line, sizeof(line), stdin)) {
		char op[16] = "", a1[32] = "";
		int n = sscanf(line, "%15s %31s", op, a1);

		if (n < 1 || op[0] == '#')
			continue;
		opno++;
		if (!strcmp(op, "T")) {
			h1_now = strtoull(a1, NULL, 0);
			printf("%d ok\n", opno);
		}
		else if (!strcmp(op, "TH")) {
			cur = atoi(a1);
			if (cur < 0 || cur > 3)
				cur = 0;
			printf("%d ok\n", opno);
		}
		else if (!strcmp(op, "END")) {
			printf("%d end\n", opno);
			break;
		}
		else
			run_on(cur, line);
	}
	fflush(stdout);
	return 0;
}
