"""C15 — Graph, flame-graph and Chrome exports are faithful projections of the trace.
Lean: Uft/Model/Graph.lean, Uft/Model/Json.lean, Uft/Props/C15.lean.
Tie: C via H3 (the real `uftrace graph`, `dump --flame-graph [--sample-time]`, `dump --graphviz`,
`dump --mermaid`, `dump --chrome` of an ASan+UBSan build of the snapshot, run on synthesized data
directories whose symbol names / exename / cmdline favour quotes, backslashes, control bytes,
bytes >= 0x80 and long names) and H4 (print_json_escaped_char / json_quote called directly,
exhaustive over the 256 byte values).  Model and implementation are compared byte for byte;
the monitors evaluate the property on the implementation's output with Python's json module
(strict) and an independent path aggregation.  Chrome runs also carry argument / return value
payloads (get_argspec_string -> spec_buf[2048]): hostile bytes in strings and chars, the NULL
marker, std::string, pointers that resolve to symbols with hostile names, the printf formats, and
value lists whose text is around / beyond the 2048 bytes of the buffer."""
import concurrent.futures
import decimal
import json
import os
import re
import shutil
import struct
import subprocess
import time
from collections import Counter, OrderedDict

from lib import common as C
from lib import datadir as DD

CAP = 2048
T_INFO = 1790000000          # mtime given to the info file (recorded_time)
LINK_LIBS = ["-ldl", "-pthread", "-lrt", "-lstdc++", "-lelf", "-ldw", "-ltraceevent", "-lm",
             "-lncursesw", "-ltinfo"]


def hx(b):
    return b.hex() if b else "-"


def s2(b):
    """bytes -> str that encodes back to the same bytes with surrogateescape"""
    return b.decode("utf-8", "surrogateescape")


# ---------------------------------------------------------------------------
# data directory (extends lib/datadir.py: hostile exename in task.txt, info mask)
class Dir(DD.DataDir):
    def __init__(self, *a, record_date=True, argspec="", retspec="", **kw):
        super().__init__(*a, **kw)
        self.record_date = record_date
        self.argspec, self.retspec = argspec, retspec

    def info_bytes(self):
        b = super().info_bytes()
        if self.argspec or self.retspec:
            # ARGUMENT|RETVAL features, ARG_SPEC info bit; the section stands between loadinfo and record_date
            hb = bytearray(b[:40])
            feat, mask = struct.unpack_from("<QQ", hb, 16)
            struct.pack_into("<QQ", hb, 16, feat | 8 | 16, mask | (1 << 10))
            lines = (["argspec:" + self.argspec] if self.argspec else []) + (["retspec:" + self.retspec] if self.retspec else [])
            spec = ("argspec:lines=%d\n%s\n" % (len(lines), "\n".join(lines))).encode()
            body = b[40:]
            assert b"record_date:" in body
            b = bytes(hb) + body.replace(b"record_date:", spec + b"record_date:", 1)
        if self.record_date:
            return b
        hdr, body = b[:40], b[40:]
        mask = struct.unpack_from("<Q", hdr, 24)[0] & ~(1 << 11)
        hdr = hdr[:24] + struct.pack("<Q", mask) + hdr[32:]
        lines = [l for l in body.split(b"\n") if not l.startswith(b"record_date:")
                 and not l.startswith(b"elapsed_time:")]
        return hdr + b"\n".join(lines)

    def files(self):
        # as DataDir.files(), but the (hostile) exename is spliced in as bytes
        exe = self.exename
        self.exename = "/synth/placeholder"
        try:
            out = DD.DataDir.files(self)
        finally:
            self.exename = exe
        exe_b = exe.encode("utf-8", "surrogateescape")
        out = {k: v for k, v in out.items() if not k.endswith(".sym")}
        for k in list(out):
            if k == "task.txt" or k.endswith(".map"):
                out[k] = out[k].replace(b"/synth/placeholder", exe_b)
        out["info"] = self.info_bytes()
        sym = ["# symbols: %d" % len(self.symbols), "# path name: " + exe, "# build-id: "]
        for rel, size, name in sorted(self.symbols, key=lambda x: x[0]):
            sym.append("%016x %08x T %s" % (rel, size, name))
        out[exe.rsplit("/", 1)[-1] + ".sym"] = ("\n".join(sym) + "\n").encode("utf-8", "surrogateescape")
        return out


# ---------------------------------------------------------------------------
# generators
PLAIN = [b"main", b"foo", b"bar", b"baz", b"ns::Klass::method", b"operator<<", b"a.b.c", b"f1"]
SPICE = [b'"', b"\\", b'\\"', b"\\\\", b"\x01", b"\x1f", b"\x7f", b"\x0b", b"\r", b" ", b";", b" -> ",
         b"\xc3\xa9", b"\xe2\x82\xac", b"\xff", b"\x80", b"\\n", b"\\u12", b"'", b"<", b"&", b"%s", b"[", b"]",
         b"|", b"{", b"}", b":", b",", b"\\x"]


def esc_ref(b):
    """independent port of the display escaping, used by the monitors"""
    o = bytearray()
    for c in b:
        if c == 10:
            o += b"\\\\n"
        elif c == 9:
            o += b"\\\\t"
        elif c == 92:
            o += b"\\\\"
        elif c == 34:
            o += b'\\"'
        elif 32 <= c <= 126:
            o.append(c)
        else:
            o += b"\\\\x%02x" % c
    return bytes(o)


def shown_ref(b):
    """what a JSON reader gets back for an escaped byte string (the display form)"""
    o = []
    for c in b:
        if c == 10:
            o.append("\\n")
        elif c == 9:
            o.append("\\t")
        elif 32 <= c <= 126:
            o.append(chr(c))
        else:
            o.append("\\x%02x" % c)
    return "".join(o)


def fix_name(n):
    n = n.replace(b"\n", b"").replace(b"\t", b"").replace(b"\0", b"")
    if not n or n[:1] == b"_" or n in (b"__sym_end", b"__dynsym_end", b"__func_end"):
        n = b"f" + n
    return n


def gen_name(rng):
    r = rng.random()
    if r < 0.25:
        return rng.choice(PLAIN) + (b"%d" % rng.randrange(100) if rng.random() < 0.5 else b"")
    if r < 0.85:
        parts = []
        for _ in range(rng.randint(1, 6)):
            q = rng.random()
            if q < 0.5:
                parts.append(rng.choice(SPICE))
            elif q < 0.7:
                parts.append(bytes([rng.choice([c for c in range(1, 256) if c not in (9, 10)])]))
            else:
                parts.append(rng.choice(PLAIN))
        return fix_name(b"".join(parts))
    # long names (escaped length well below the buffer)
    unit = rng.choice([b"a", b"Ab", b"\xc3\xa9", b'"', b"x\\"])
    return fix_name((unit * 700)[:rng.randint(150, 330)])


def boundary_names():
    """names whose escaped length is around the capacity of name_buf[2048]"""
    out = []
    for total in (2041, 2042, 2045, 2046, 2047):
        out.append(b"a" * total)                       # via print_char up to the end
    for last, w in ((b'"', 2), (b"\\", 2), (b"\x01", 5), (b"\xc3", 5)):
        for total in (2044, 2046, 2047):
            out.append(b"a" * (total - w) + last)      # last escape ends exactly at `total`
    return out


def overflow_names():
    return [b"a" * 2048, b"a" * 2049, b"b" * 3000, b"a" * 2046 + b'"', b"\xc3\xa9" * 205,
            b"a" * 2044 + b"\x01", b"q" * 2043 + b"\x02z"]


def gen_exename(rng):
    r = rng.random()
    if r < 0.3:
        base = rng.choice([b"prog", b"a.out", b"t-abc", b"very-long-program-name-here"])
    else:
        parts = []
        for _ in range(rng.randint(1, 5)):
            q = rng.random()
            if q < 0.55:
                parts.append(rng.choice([b'"', b"\\", b"\x01", b"\x7f", b"\xc3\xa9", b"\xff", b"'", b"\\n", b'\\"', b"{", b"\x1b"]))
            else:
                parts.append(rng.choice([b"p", b"prog", b"x1", b"long-name"]))
        base = b"".join(parts)
    base = bytes(c for c in base if c not in b" \t\n\r\v\f/\0")
    if not base or base[:1] == b"[":
        base = b"p" + base
    return b"/synth/" + base


def json_quote_ref(b):
    return b.replace(b'"', b'\\"')


# ---------------------------------------------------------------------------
# argument / return value payloads.  A function with arguments has a plain name ("argf<k>": the
# argspec of the info file selects functions by name pattern) and a fixed spec list.
#   spec  = {"k": kind[, "fmt", "size", "name"]}     kinds: s S c p n f e t
#   value = ["s"|"S", hex] | ["c", byte] | ["p", address] | ["n", unsigned] | ["f", u64 bits of the double]
#           | ["e", unsigned] | ["t", hex]
NULL_STR = b"\xff\xff\xff\xff"


def pad4(b):
    return b + b"\0" * ((-len(b)) % 4)


def cstr(b):
    i = b.find(b"\0")
    return b if i < 0 else b[:i]


def spec_text(sp):
    k = sp["k"]
    if k in "sScp":
        return "/" + k
    if k == "n":
        return "/%s%d" % (sp["fmt"], 8 * sp["size"])
    if k == "f":
        return "/f64"
    if k == "e":
        return "/e:color"
    return "/t%d%s" % (sp["size"], (":" + sp["name"]) if sp.get("name") else "")


def value_payload(sp, v):
    k = sp["k"]
    if k in "sS":
        b = bytes.fromhex(v[1])
        return pad4(struct.pack("<H", len(b)) + b)
    if k == "c":
        return pad4(bytes([v[1]]))
    if k in "pfe":
        return struct.pack("<Q", v[1])
    if k == "n":
        return pad4(v[1].to_bytes(sp["size"], "little"))
    return pad4(bytes.fromhex(v[1]))


def _sx(v, bits):
    v &= (1 << bits) - 1
    return v - (1 << bits) if v >> (bits - 1) else v


def int_text(fmt, size, u):
    """the text of the integer formats (get_argspec_string builds "%#<hh|h||ll><d|i|u|x|o>"); u = the value's
    `size` bytes as an unsigned number"""
    bits = 8 * size
    u &= (1 << bits) - 1
    val_i = _sx(u, 64) if size == 8 else u          # memcpy into the zeroed union, read as long
    f = fmt
    if fmt == "d":                                   # ARG_FMT_AUTO
        if val_i > 100000 or val_i < -100000:
            f = "x"
            v64 = val_i & (2 ** 64 - 1)
            if 0xffff0000 < v64 <= 0xffffffff:
                return "%d" % _sx(v64, 32)           # small negative 32-bit number: "%#d" of the low word
    elif fmt == "u":
        if (val_i & (2 ** 64 - 1)) > 100000:
            f = "x"
    if f in "di":
        return "%d" % _sx(u, bits)
    if f == "u":
        return "%d" % u
    if f == "x":
        return "0" if u == 0 else "0x%x" % u
    return "0" if u == 0 else "0%o" % u


def raw_text(sp, v):
    """what printf produces for the formats the Lean model takes as given text (`ArgVal.raw`)"""
    k = sp["k"]
    if k == "n":
        return int_text(sp["fmt"], sp["size"], v[1]).encode()
    if k == "f":
        return ("%#f" % struct.unpack("<d", struct.pack("<Q", v[1]))[0]).encode()
    if k == "e":
        return b"%d" % _sx(v[1], 64)                    # get_enum_string() for a type without definition: "%ld"
    if k == "t":
        nm = sp.get("name") or ""
        return (nm if nm != "<lambda" else "").encode() + (b"{...}" if sp["size"] else b"{}")
    raise ValueError(k)


def sym_at(names, addr):
    """index of the symbol an address lies in (symbol i: [BASE + 0x100*(i+1), +0x80)), or None"""
    rel = addr - DD.BASE
    if rel < 0x100:
        return None
    i, off = rel // 0x100 - 1, rel % 0x100
    return i if (i < len(names) and off < 0x80) else None


def value_pieces(names, sp, v):
    """the pieces print_args / print_char are called with for one value: [(bytes in the JSON text, decoded text)]
    -- an independent statement of what should be shown (the monitor's right-hand side)"""
    k = sp["k"]

    def esc(bs):
        return [(esc_ref(bytes([c])), shown_ref(bytes([c]))) for c in bs]
    if k in "sS":
        b = bytes.fromhex(v[1])
        if b == NULL_STR:
            out = [(b"NULL", "NULL")]
        else:
            out = [(b'\\"', '"')] + esc(cstr(b)) + [(b'\\"', '"')]
        return out + ([(b"s", "s")] if k == "S" else [])
    if k == "c":
        return [(b"'", "'")] + esc(bytes([v[1]])) + [(b"'", "'")]
    if k == "p":
        i = sym_at(names, v[1])
        if i is not None:
            return [(b"&", "&")] + esc(names[i])
        t = b"0" if v[1] == 0 else b"0x%x" % v[1]
        return [(t, t.decode())]
    t = raw_text(sp, v)
    return [(t, t.decode())]


def value_token(names, sp, v):
    """the value as the Lean driver reads it"""
    k = sp["k"]
    if k in "sS":
        return k + v[1]
    if k == "c":
        return "c%02x" % v[1]
    if k == "p":
        i = sym_at(names, v[1])
        if i is not None:
            return "y" + names[i].hex()
        return "r" + (b"0" if v[1] == 0 else b"0x%x" % v[1]).hex()
    return "r" + raw_text(sp, v).hex()


def list_pieces(names, specs, vals, is_ret):
    """all pieces of the text of one event, in order"""
    if is_ret:
        return value_pieces(names, specs[0], vals[0]) if vals else []
    out = [(b"(", "(")]
    for i, (sp, v) in enumerate(zip(specs, vals)):
        if i:
            out.append((b", ", ", "))
        out += value_pieces(names, sp, v)
    return out + [(b")", ")")]


STR_UNITS = [b"a", b"xy", b'"', b"\\", b"\n", b"\t", b"\x01", b"\x7f", b"\xc3\xa9", b"\xff", b"'", b" ", b"%s", b"%n", b"\\n",
             b"\\\"", b"{", b"}", b",", b"\x1b[31m", b"\r", b"\x80"]


def gen_str(rng, maxunits=8):
    r = rng.random()
    if r < 0.06:
        return NULL_STR
    if r < 0.12:
        return b""
    if r < 0.2:
        return rng.choice(PLAIN)
    b = b"".join(rng.choice(STR_UNITS) if rng.random() < 0.75 else bytes([rng.randrange(256)])
                 for _ in range(rng.randint(1, maxunits)))
    if rng.random() < 0.08:
        b += b"\0tail"                                # get_argspec_string stops at the first NUL
    if rng.random() < 0.05:
        b = NULL_STR + b                              # starts like the NULL marker but is longer
    return b


def gen_spec(rng):
    r = rng.random()
    if r < 0.3:
        return {"k": "s"}
    if r < 0.38:
        return {"k": "S"}
    if r < 0.52:
        return {"k": "c"}
    if r < 0.7:
        return {"k": "p"}
    if r < 0.9:
        return {"k": "n", "fmt": rng.choice("diuxo"), "size": rng.choice([1, 2, 4, 8])}
    if r < 0.94:
        return {"k": "f"}
    if r < 0.97:
        return {"k": "e"}
    return {"k": "t", "size": rng.choice([4, 8, 16]), "name": rng.choice(["pair", "", "<lambda", "ns::vec3"])}


def gen_value(rng, sp, nsym):
    k = sp["k"]
    if k in "sS":
        return [k, gen_str(rng).hex()]
    if k == "c":
        return ["c", rng.choice([0, 9, 10, 34, 39, 92, 127, 128, 255, 65, 32]) if rng.random() < 0.6 else rng.randrange(256)]
    if k == "p":
        r = rng.random()
        if r < 0.7:
            return ["p", DD.BASE + 0x100 * (rng.randrange(nsym) + 1) + rng.choice([0, 0, 1, 0x7f])]
        if r < 0.8:
            return ["p", 0]
        # (below the kernel base: find_symtabs() hands a kernel address to bsearch() with the NULL table of a
        # data directory without kernel symbols, which UBSan reports; not this property's business)
        return ["p", rng.choice([DD.BASE + 0x100 * (rng.randrange(nsym) + 1) + 0x80, DD.BASE + 0x10, 0x7f0012345678, 1,
                                 rng.randrange(1 << 46)])]
    if k == "n":
        n = 8 * sp["size"]
        return ["n", rng.choice([0, 1, 7, (1 << n) - 1, 1 << (n - 1), (1 << (n - 1)) - 1, 100000 % (1 << n), 100001 % (1 << n),
                                 ((1 << n) - 100000) % (1 << n), ((1 << n) - 100001) % (1 << n), 0xffff0000 % (1 << n),
                                 0xffff0001 % (1 << n), 0xffffffff % (1 << n), (1 << 32) % (1 << n), rng.randrange(1 << n),
                                 rng.randrange(min(1 << n, 1000))])]
    if k == "f":
        x = rng.choice([0.0, -0.0, 1.5, -2.25, 1e-7, 123456.789, 1e22, -1e300, float("inf"), rng.uniform(-1000, 1000)])
        return ["f", struct.unpack("<Q", struct.pack("<d", x))[0]]
    if k == "e":
        return ["e", rng.choice([0, 1, 2, 7, 1000, (1 << 64) - 1, rng.randrange(1 << 33)])]
    return ["t", bytes(rng.randrange(256) for _ in range(sp["size"])).hex()]


def gen_cmdline(rng, exe):
    r = rng.random()
    raw = b"uftrace record " + exe.rsplit(b"/", 1)[-1]
    if r < 0.25:
        return raw + b" 1 2"
    for _ in range(rng.randint(1, 5)):
        q = rng.random()
        if q < 0.6:
            raw += b" " + rng.choice([b'"a b"', b"a\\ b", b"\\", b'\\"', b"x\x01y", b"\xc3\xa9", b"\xff", b"'q'", b"C:\\dir\\f",
                                      b"\\\\", b"--opt=\"v\"", b"\x7f", b"tab\there"])
        else:
            raw += b" " + rng.choice([b"-v", b"arg", b"42"])
    raw = raw.replace(b"\n", b" ").replace(b"\0", b" ")
    if r < 0.9:
        return json_quote_ref(raw)          # what fill_cmdline() stores
    return raw                              # a hand-edited info file


def gen_calls(rng, nsym, nrec, maxdepth, leave_open):
    """one task's records as (kind, symidx); a balanced prefix, possibly with open calls"""
    recs, stack = [], []
    while len(recs) < nrec:
        if stack and (len(stack) >= maxdepth or rng.random() < 0.45):
            recs.append(("X", stack.pop()))
        else:
            r = rng.random()
            if stack and r < 0.15:
                s = stack[-1]                      # direct recursion
            elif stack and r < 0.25:
                s = rng.choice(stack)              # indirect recursion
            else:
                s = rng.randrange(nsym)
            stack.append(s)
            recs.append(("E", s))
    if not leave_open:
        while stack:
            recs.append(("X", stack.pop()))
    return recs


SCHED, SCHED_PRE = b"linux:schedule", b"linux:schedule (pre-empted)"


def perf_switch(pid, tid, t, out, preempt=False):
    """a PERF_RECORD_SWITCH of perf-cpuN.dat (utils/perf.h): header, then sample_id {pid, tid, time}"""
    misc = (0x2000 if out else 0) | (0x4000 if (out and preempt) else 0)
    return struct.pack("<IHH", 14, misc, 24) + struct.pack("<IIQ", pid, tid, t)


class Trace:
    """abstract description of one data directory"""

    def __init__(self, names, tasks, recs, exename=b"/synth/prog", cmdline=b"uftrace record ./prog",
                 elapsed="0.001000000 sec", desc="", filtered=False, argfns=None, sched=None):
        # scheduling events of the tasks (perf-cpu0.dat): [tid, time of sched-out, time of sched-in, pre-empted]
        self.sched = [list(x) for x in (sched or [])]
        self.filtered = filtered      # run dump --chrome with -t 1s: every record is filtered out
        self.names = names            # symidx -> bytes (several symbols may share a name)
        self.tasks = tasks            # [(tid, pid)]
        self.recs = recs              # merged, time ordered: (kind, tid, symidx, time[, values or None])
        self.exename, self.cmdline, self.elapsed, self.desc = exename, cmdline, elapsed, desc
        # symidx -> {"args": [spec…], "ret": spec | None}: functions whose records carry a payload
        self.argfns = {int(k): v for k, v in (argfns or {}).items()}

    def to_json(self):
        return {"names": [n.hex() for n in self.names], "tasks": self.tasks, "recs": self.recs,
                "exename": self.exename.hex(), "cmdline": self.cmdline.hex(), "elapsed": self.elapsed,
                "desc": self.desc, "filtered": self.filtered, "argfns": {str(k): v for k, v in self.argfns.items()},
                "sched": self.sched}

    @staticmethod
    def from_json(j):
        return Trace([bytes.fromhex(n) for n in j["names"]], [tuple(t) for t in j["tasks"]],
                     [tuple(r) for r in j["recs"]], bytes.fromhex(j["exename"]), bytes.fromhex(j["cmdline"]),
                     j["elapsed"], j.get("desc", ""), j.get("filtered", False), j.get("argfns"), j.get("sched"))

    def view(self, chrome):
        """the trace with its scheduling events written as calls: sched-out opens linux:schedule, sched-in closes
        it (cmds/dump.c dump_replay_event; utils/graph.c add_graph_event names the node of a pre-empted one
        "linux:schedule (pre-empted)", dump --chrome prints linux:schedule for both).  The entry of a pre-empted
        schedule has kind "P"."""
        if not self.sched:
            return self
        s0, s1 = len(self.names), len(self.names) + 1
        extra = []
        for tid, to, ti, pre in self.sched:
            extra += [("P" if pre else "E", tid, s1 if pre else s0, to), ("X", tid, s1 if pre else s0, ti)]
        recs = sorted([tuple(r) for r in self.recs] + extra, key=lambda r: r[3])
        return Trace(self.names + [SCHED, SCHED if chrome else SCHED_PRE], self.tasks, recs, self.exename, self.cmdline,
                     self.elapsed, self.desc, self.filtered)

    def has_args(self):
        return bool(self.argfns)

    def vals_of(self, r):
        return r[4] if len(r) > 4 else None

    def specs_of(self, r):
        """the specs the payload of record r is decoded with (ENTRY: arguments, EXIT: return value)"""
        fn = self.argfns.get(r[2])
        if not fn:
            return []
        return fn["args"] if r[0] == "E" else ([fn["ret"]] if fn.get("ret") else [])

    def payload(self, r):
        vals = self.vals_of(r)
        if vals is None:
            return b""
        return b"".join(value_payload(sp, v) for sp, v in zip(self.specs_of(r), vals))

    def write(self, d, record_date=True):
        syms = [(0x100 * (i + 1), 0x80, s2(n)) for i, n in enumerate(self.names)]
        per = OrderedDict((tid, []) for tid, _ in self.tasks)
        depth = {tid: 0 for tid, _ in self.tasks}
        for r in self.recs:
            kind, tid, s, t = r[:4]
            if kind == "E":
                per[tid].append(DD.Rec(t, "E", depth[tid], DD.BASE + 0x100 * (s + 1), self.payload(r)))
                depth[tid] += 1
            else:
                depth[tid] -= 1
                per[tid].append(DD.Rec(t, "X", depth[tid], DD.BASE + 0x100 * (s + 1), self.payload(r)))
        first = self.tasks[0][0]
        # other processes are forked children of the first one (FORK line), threads share its pid
        tasks = [DD.Task(tid, per[tid], pid=pid, ppid=(first if (pid == tid and tid != first) else None))
                 for tid, pid in self.tasks]
        aspec, rspec = [], []
        for k in sorted(self.argfns):
            fn = self.argfns[k]
            nm = self.names[k].decode()
            if fn["args"]:
                aspec.append(nm + "@" + ",".join("arg%d%s" % (i + 1, spec_text(sp)) for i, sp in enumerate(fn["args"])))
            if fn.get("ret"):
                rspec.append(nm + "@retval" + spec_text(fn["ret"]))
        dd = Dir(syms, tasks, cmdline=s2(self.cmdline), exename=s2(self.exename),
                 extra_info={"elapsed_time": self.elapsed}, record_date=record_date,
                 argspec=";".join(aspec), retspec=";".join(rspec), feat_extra=(0x100 if self.sched else 0))
        shutil.rmtree(d, ignore_errors=True)
        os.makedirs(d)
        files = dd.files()
        if self.sched:
            pid_of = dict(self.tasks)
            evs = []
            for tid, to, ti, pre in self.sched:
                evs += [(to, perf_switch(pid_of[tid], tid, to, True, pre)), (ti, perf_switch(pid_of[tid], tid, ti, False))]
            files["perf-cpu0.dat"] = b"".join(b for _, b in sorted(evs))
        for n, b in files.items():
            with open(os.path.join(d.encode(), n.encode("utf-8", "surrogateescape")), "wb") as f:
                f.write(b)
        os.utime(os.path.join(d, "info"), (T_INFO, T_INFO))

    def visible(self):
        return [] if self.filtered else self.recs

    def model_tail(self, with_args=False, asis=False):
        """asis: the entries of pre-empted schedules as dump_replay_event treats them now (kind P); else as calls"""
        syms = " ".join(hx(n) for n in self.names)
        tasks = " ".join("%d:%d" % t for t in self.tasks)
        if not with_args:
            recs = " ".join("%s:%d:%d:%d" % ((r[0] if (asis or r[0] != "P") else "E",) + tuple(r[1:4])) for r in self.visible())
            return "| %s | %s | %s" % (syms, tasks, recs)
        toks, lists = [], []
        for r in self.visible():
            vals = self.vals_of(r)
            if vals is None:
                toks.append("%s:%d:%d:%d" % ((r[0] if (asis or r[0] != "P") else "E",) + tuple(r[1:4])))
            else:
                toks.append("%s:%d:%d:%d:%d" % (tuple(r[:4]) + (len(lists),)))
                lists.append(",".join(value_token(self.names, sp, v) for sp, v in zip(self.specs_of(r), vals)) or "-")
        return "| %s | %s | %s | %s" % (syms, tasks, " ".join(toks), " ".join(lists))


# ---- numeric range of the synthesized data ------------------------------------------------
# Record times are uint64 nanoseconds of CLOCK_MONOTONIC: a host that has been up for 104 days is past
# 2^53 ns.  Times, durations and task ids are drawn from classes that sit on the boundaries of the C
# types that carry them (int, unsigned, double's 53-bit mantissa, int64, uint64) and of the units the
# printers switch between (us / ms / s / m / h).  Everything is exact integer arithmetic (Python int).
U64 = (1 << 64) - 1
TMAX = U64 - 1           # 2^64-1 is the readers' "no more records" value (fstack: min_timestamp = ~0ULL): never a record time
SEC, MIN, HOUR = 10 ** 9, 60 * 10 ** 9, 3600 * 10 ** 9
SMALL_INCS = [0, 1, 7, 40, 333, 999, 1000, 1001, 2500, 12345]
WIDE_INCS = [0, 1, 999, 1000, 1001, 999999, 10 ** 6, 2 ** 31 - 1, 2 ** 31, 2 ** 32 - 1, 2 ** 32, 2 ** 32 + 1, SEC - 1, SEC,
             59 * SEC + 999999999, MIN, MIN + SEC, 23 * MIN + 59 * SEC, 24 * MIN, 24 * MIN + 1, 30 * MIN, 59 * MIN + 59 * SEC,
             HOUR, HOUR + MIN + 5, 25 * HOUR, 100 * HOUR + 7, 2 ** 48 + 12345]
TIMINGS = ["small", "small", "base", "base", "base", "wide", "wide", "top"]
TID_BASES = [100, 4242, 31000, 4194000, 2 ** 31 - 8]


def gen_base(rng):
    """a first time stamp next to a boundary (the trace crosses it), or months / years of uptime"""
    k = rng.randrange(40000)
    return rng.choice([2 ** 31 - k, 2 ** 32 - k, 2 ** 53 - k, 2 ** 53 + 1 + k, 2 ** 53 + rng.randrange(2 ** 53),
                       104 * 24 * HOUR + rng.randrange(HOUR), 400 * 24 * HOUR + rng.randrange(10 ** 15),
                       2 ** 63 - k, 2 ** 63 + 1 + k, 2 ** 63 + rng.randrange(2 ** 62)])


def gen_trace(rng, names=None, ntasks=None, nrec=None, desc="random", ties=False, timing=None):
    if names is None:
        k = rng.randint(2, 7)
        names = [gen_name(rng) for _ in range(k)]
        if rng.random() < 0.3:
            names.append(names[0])                 # two symbols with one name
    ntasks = ntasks or rng.choice([1, 1, 2, 3, 4])
    timing = timing or rng.choice(TIMINGS)
    base = rng.choice([100, 4242, 31000]) if timing == "small" else rng.choice(TID_BASES)
    tasks = []
    for i in range(ntasks):
        tid = base + i
        pid = tid if (i == 0 or rng.random() < 0.4) else base    # threads of the first process
        tasks.append((tid, pid))
    per = []
    for i in range(ntasks):
        n = nrec or rng.choice([2, 5, 12, 30])
        per.append(gen_calls(rng, len(names), n, rng.choice([2, 4, 9]), rng.random() < 0.5))
    # interleave with one global clock; zero increments allowed inside one task only
    idx = [0] * ntasks
    order, lasttask = [], None
    while any(idx[i] < len(per[i]) for i in range(ntasks)):
        i = rng.choice([j for j in range(ntasks) if idx[j] < len(per[j])])
        if timing == "wide" or (timing == "top" and rng.random() < 0.3):
            inc = rng.choice(WIDE_INCS) if rng.random() < 0.5 else rng.choice(SMALL_INCS)
        else:
            inc = rng.choice(SMALL_INCS)
        if inc == 0 and lasttask != i and not ties:
            inc = 1
        order.append((i, inc))
        idx[i] += 1
        lasttask = i
    span = sum(inc for _, inc in order)
    if timing == "small":
        t = 2000 + rng.randrange(1000)
    elif timing == "top":
        t = TMAX - span - rng.choice([0, 0, 1, 999, 12345])       # the last record is stamped 2^64-2 (or just below)
    elif timing == "wide" and rng.random() < 0.5:
        t = 2000 + rng.randrange(1000)
    else:
        t = gen_base(rng)
    assert 0 < t and t + span <= TMAX
    idx = [0] * ntasks
    recs = []
    for i, inc in order:
        t += inc
        kind, s = per[i][idx[i]]
        idx[i] += 1
        recs.append((kind, tasks[i][0], s, t))
    desc = "%s [%s]" % (desc, timing)
    if ties:
        # equal time stamps in different tasks: the reader takes the task that comes first in info.tids
        order = {tid: k for k, (tid, _) in enumerate(tasks)}
        recs.sort(key=lambda r: (r[3], order[r[1]]))
    exe = gen_exename(rng)
    el = rng.choice(["0.001000000 sec", "0.900000000 sec", "1.500000000 sec", "12.000000001 sec", "150.5 sec"])
    return Trace(names, tasks, recs, exe, gen_cmdline(rng, exe), el, desc)



def boundary_time_traces():
    """records 1 ns apart that straddle 2^31, 2^32, 2^53, 2^63 and end at 2^64-2; durations on the unit switches"""
    out = []
    A = [b"main", b"foo", b"bar"]
    for nm, B in (("2^31", 2 ** 31), ("2^32", 2 ** 32), ("2^53", 2 ** 53), ("2^63", 2 ** 63), ("2^64-2", TMAX - 3),
                  ("10^16+2^53", 10 ** 16 + 2 ** 53), ("400 days", 400 * 24 * HOUR + 987654321)):
        one = [(100, 100)]
        ts = [B - 3, B - 2, B - 1, B, B + 1, B + 2, B + 2, B + 3]
        seq = [("E", 0), ("E", 1), ("X", 1), ("E", 2), ("X", 2), ("E", 1), ("X", 1), ("X", 0)]
        out.append(Trace(A, one, [(k, 100, s_, t) for (k, s_), t in zip(seq, ts)], desc="time boundary %s, one task" % nm))
        two = [(4194300, 4194300), (2 ** 31 - 1, 4194300)]
        m, th = two[0][0], two[1][0]
        # the thread's two calls stay open; its second record ties with a record of the main task
        recs = [("E", m, 0, B - 3), ("E", m, 1, B - 2), ("X", m, 1, B - 1), ("E", th, 0, B), ("E", m, 2, B + 1),
                ("E", th, 1, B + 1), ("X", m, 2, B + 2), ("X", m, 0, B + 3)]
        out.append(Trace(A, two, recs, desc="time boundary %s, thread with tid 2^31-1, open calls" % nm))
    # durations on the boundaries between the units of print_time_unit (us ms s m h)
    for nm, durs in (("unit switches", [999, 1000, 999999, 10 ** 6, 999999999, SEC, 59 * SEC + 999999999, MIN]),
                     ("minutes and hours", [23 * MIN + 59 * SEC + 999999999, 24 * MIN, 30 * MIN, 59 * MIN + 59 * SEC, HOUR,
                                            HOUR + MIN, 24 * HOUR, 100 * HOUR]),
                     ("2^31 2^32 2^53", [2 ** 31 - 1, 2 ** 31, 2 ** 32 - 1, 2 ** 32, 2 ** 32 + 1, 999 * HOUR, 2 ** 53 - 1, 2 ** 53 + 1])):
        t = 5000
        recs = [("E", 100, 0, t)]
        for j, d in enumerate(durs):
            s_ = 1 + j % 2
            recs += [("E", 100, s_, t + 1), ("E", 100, 3, t + 2), ("X", 100, 3, t + 2 + d), ("X", 100, s_, t + 3 + d)]
            t += d + 4
        recs.append(("X", 100, 0, t + 1))
        out.append(Trace(A + [b"leaf"], [(100, 100)], recs, desc="durations: " + nm))
    return out


def attach_values(rng, tr, p_none=0.1):
    """give every record of a function with a spec its payload values"""
    out = []
    for r in tr.recs:
        specs = tr.specs_of(r)
        if specs and rng.random() >= p_none:
            out.append(tuple(r[:4]) + ([gen_value(rng, sp, len(tr.names)) for sp in specs],))
        else:
            out.append(tuple(r[:4]))
    tr.recs = out
    return tr


def gen_arg_trace(rng, desc="random+args", nrec=None):
    """a random trace in which some functions (plain names argf<k>) carry arguments / return values; the other
    symbols keep their hostile names and serve as targets of pointer arguments"""
    nf = rng.randint(1, 4)
    hostile = [gen_name(rng) for _ in range(rng.randint(2, 5))]
    hostile = [n[:100] for n in hostile]               # a %s piece longer than ASan's red zone could jump over it
    names = [b"main"] + [b"argf%d" % k for k in range(nf)] + hostile
    argfns = {}
    for k in range(nf):
        args = [gen_spec(rng) for _ in range(rng.choice([0, 1, 1, 2, 3, 5, 8]))]
        ret = gen_spec(rng) if rng.random() < 0.6 else None
        if ret and ret["k"] == "t":
            ret = {"k": "s"}
        if not args and not ret:
            args = [{"k": "s"}]
        argfns[1 + k] = {"args": args, "ret": ret}
    tr = gen_trace(rng, names=names, nrec=nrec, desc=desc)
    tr.argfns = argfns
    return attach_values(rng, tr)


def one_call_trace(names, argfns, calls, desc):
    """main { f(v…) = r; … } for calls = [(symidx, values | None, return values | None)]"""
    t = 2000
    recs = [("E", 100, 0, t)]
    for s, vals, ret in calls:
        t += 100
        recs.append(("E", 100, s, t) + ((vals,) if vals is not None else ()))
        t += 100
        recs.append(("X", 100, s, t) + ((ret,) if ret is not None else ()))
    recs.append(("X", 100, 0, t + 100))
    return Trace(names, [(100, 100)], recs, desc=desc, argfns=argfns)


TAILS = [b"", b'"', b"\\", b"\x01", b"\n", b"\xc3\xa9"]


def boundary_arg_traces(lo, hi):
    """value lists whose complete text has lo..hi bytes: one long string with each kind of final escape, the same
    as std::string and as return value, and lists in which a number / char / symbol / ", " falls on the limit"""
    names = [b"main", b"argf0", b"argf1", b"argf2", b"argf3", b'q"x\\y', b"plain_target"]
    fns = {1: {"args": [{"k": "s"}], "ret": {"k": "s"}},
           2: {"args": [{"k": "S"}], "ret": None},
           3: {"args": [{"k": "s"}, {"k": "n", "fmt": "x", "size": 8}, {"k": "c"}, {"k": "p"}, {"k": "s"}], "ret": None},
           4: {"args": [{"k": "s"}] * 12, "ret": None}}
    sym_q = DD.BASE + 0x100 * 6
    out = []
    for tail in TAILS:
        calls = []
        for total in range(lo, hi + 1):
            n = total - 6 - len(esc_ref(tail))                    # ( \" … \" )
            calls.append((1, [["s", (b"a" * n + tail).hex()]], None))
        out.append(one_call_trace(names, fns, calls, "args boundary %d..%d, one string ending in %r" % (lo, hi, tail)))
    calls = []
    for total in range(lo, hi + 1):
        calls.append((2, [["S", (b"b" * (total - 7)).hex()]], None))                       # ( \" … \" s )
        calls.append((1, None, [["s", (b"r" * (total - 4) + b"\x02").hex()]]))            # retval: \" … \"
        calls.append((1, None, [["s", (b"r" * (total - 3)).hex()]]))
    out.append(one_call_trace(names, fns, calls, "args boundary %d..%d, std::string and return values" % (lo, hi)))
    calls = []
    for total in range(lo - 40, hi + 1, 1):
        # ("aaa…", 0xdeadbeefcafe, '\x00', &q"x\y, "zz")
        rest = [["n", 0xdeadbeefcafe], ["c", 0], ["p", sym_q], ["s", b"zz".hex()]]
        fixed = sum(len(e) for e, _ in list_pieces(names, fns[3]["args"], [["s", ""]] + rest, False))
        if total - fixed >= 0:
            calls.append((3, [["s", (b"a" * (total - fixed)).hex()]] + rest, None))
    out.append(one_call_trace(names, fns, calls, "args boundary %d..%d, mixed list" % (lo - 40, hi)))
    calls = []
    for total in range(lo, hi + 1, 2):
        # twelve strings of hostile bytes: 12 * (4 + 5k) + 11 * 2 + 2
        k, extra = divmod(total - 12 * 4 - 24, 60)
        vals = [["s", (b"\x80" * k + b"c" * (extra if i == 11 else 0)).hex()] for i in range(12)]
        calls.append((4, vals, None))
    out.append(one_call_trace(names, fns, calls, "args boundary %d..%d, twelve strings" % (lo, hi)))
    return out


def event_values(tr):
    """per event of reference(tr): None, or (specs, values, is_ret)"""
    out = []
    for r in tr.visible():
        vals = tr.vals_of(r)
        out.append(None if vals is None else (tr.specs_of(r), vals, r[0] == "X"))
    return out


# ---------------------------------------------------------------------------
# reference aggregation (independent of the Lean model): the property's right-hand side
def reference(tr):
    """closed calls per task: list of (path tuple of names, t0, t1, tid); open calls are closed at the
    task's last time stamp.  Returns calls in entry order and the ordered event list."""
    stack = {tid: [] for tid, _ in tr.tasks}
    last = {}
    calls = []          # dicts: path, t0, t1, kids(list of idx), tid
    events = []         # (ph, tid, name, time)
    for kind, tid, s, t in (r[:4] for r in tr.visible()):
        last[tid] = t
        name = tr.names[s]
        if kind in ("E", "P"):
            path = tuple(calls[i]["path"][-1] for i in stack[tid]) + (name,)
            calls.append({"path": path, "t0": t, "t1": None, "kids": [], "tid": tid})
            if stack[tid]:
                calls[stack[tid][-1]]["kids"].append(len(calls) - 1)
            stack[tid].append(len(calls) - 1)
            events.append(("B", tid, name, t))
        else:
            i = stack[tid].pop()
            calls[i]["t1"] = t
            events.append(("E", tid, name, t))
    for tid, _ in tr.tasks:
        while stack[tid]:
            i = stack[tid].pop()
            calls[i]["t1"] = last[tid]
            events.append(("E", tid, calls[i]["path"][-1], last[tid]))
    return calls, events


def ref_paths(calls, st=0):
    """path -> [nr_calls, total time, self time (sample-accounted when st > 0)] in first-entry order"""
    agg = OrderedDict()
    for c in calls:
        a = agg.setdefault(c["path"], [0, 0, 0])
        dur = c["t1"] - c["t0"]
        a[0] += 1
        a[1] += dur
        kid = 0
        for k in c["kids"]:
            kd = calls[k]["t1"] - calls[k]["t0"]
            kid += (kd // st * st) if st else kd
        a[2] += dur - kid
    return agg


def auto_sample(elapsed):
    total = int(float(elapsed.split()[0]) * 1e9)
    s = 1000
    while s * 1000000 < total:
        if s == 1000000000:
            break
        s *= 10
    return s, total


# ---------------------------------------------------------------------------
# monitors: the property evaluated on the implementation's output
def _strict_const(x):
    raise ValueError("non-standard JSON constant " + x)


ARG_ROOM = 2040          # texts up to this many bytes must be shown completely (spec_buf has 2048)


def mon_event_args(tr, g, ph, ev):
    """the "args" member of one B/E event against the recorded values"""
    if ev is None:
        return None if "args" not in g else "event %r has arguments, the record has no payload" % (g,)
    specs, vals, is_ret = ev
    key = "retval" if is_ret else "arguments"
    a = g.get("args")
    if not isinstance(a, dict) or list(a.keys()) != [key] or not isinstance(a[key], str):
        return "event %r: args is not {%r: string}" % (g.get("name"), key)
    pieces = list_pieces(tr.names, specs, vals, is_ret)
    full = "".join(t for _, t in pieces)
    if sum(len(e) for e, _ in pieces) <= ARG_ROOM:
        if a[key] != full:
            return "%s %r of %r are not the recorded values %r" % (key, a[key][:120], g.get("name"), full[:120])
        return None
    # longer than the buffer: what is shown must start with the pieces that certainly fit
    n, pre = 0, []
    for e, t in pieces:
        if n + len(e) > ARG_ROOM - 40:
            break
        n += len(e)
        pre.append(t)
    if not a[key].startswith("".join(pre)):
        return "%s of %r (cut) do not start with the recorded values" % (key, g.get("name"))
    return None


def mon_chrome(tr, out_bytes):
    try:
        # numbers are read exactly: integers as Python int, everything else as Decimal (never a binary float)
        doc = json.loads(out_bytes.decode("utf-8"), parse_constant=_strict_const, parse_float=decimal.Decimal)
    except Exception as ex:                          # noqa
        return "not valid JSON: %s" % str(ex)[:120]
    if not isinstance(doc, dict) or "traceEvents" not in doc:
        return "no traceEvents"
    _, events = reference(tr)
    pid_of = dict(tr.tasks)
    got = [e for e in doc["traceEvents"] if e.get("ph") in ("B", "E")]
    if len(got) != len(events):
        return "number of B/E events %d, expected %d" % (len(got), len(events))
    raw_ts = re.findall(rb'^\{"ts":(\d+)\.(\d{3}),"ph":"[BE]"', out_bytes, re.M)
    if len(raw_ts) != len(events):
        return "ts fields are not <usec>.<3 digits>"
    stacks = {}
    evals = event_values(tr) + [None] * len(events)          # the closing events of open calls carry nothing
    for g, (ph, tid, name, t), (us, ns), ev in zip(got, events, raw_ts, evals):
        bad = mon_event_args(tr, g, ph, ev)
        if bad:
            return bad
        gt = g.get("tid", g.get("pid"))
        if g["ph"] != ph or gt != tid or g.get("pid") != pid_of[tid]:
            return "event %r does not match record %r" % (g, (ph, tid, t))
        if int(us) * 1000 + int(ns) != t:
            return "ts %s.%s is not time %d / 1000" % (us.decode(), ns.decode(), t)
        if isinstance(g.get("ts"), float) or g.get("ts") * 1000 != t:
            return "the number ts = %s, times 1000, is not the record time %d" % (g.get("ts"), t)
        shown = shown_ref(name)
        if len(esc_ref(name)) >= CAP - 6:
            # does not fit name_buf: a prefix (cut between two escapes) is what can be shown
            if not (shown.startswith(g["name"]) and len(g["name"]) > 300):
                return "event name %r is not a prefix of function %r" % (g["name"][:80], name[:80])
        elif g["name"] != shown:
            return "event name %r is not function %r" % (g["name"], name)
        st = stacks.setdefault(tid, [])
        if ph == "B":
            st.append(g["name"])
        else:
            if not st or st.pop() != g["name"]:
                return "E event for %r does not close the innermost B of thread %d" % (g["name"], tid)
    for tid, st in stacks.items():
        if st:
            return "thread %d has %d unbalanced B events" % (tid, len(st))
    md = doc.get("metadata", {})
    want = tr.cmdline
    # decode(json) must give back what the user typed: undo json_quote
    want = want.replace(b'\\"', b'"')
    shown = shown_ref(want)
    if md.get("command_line") != shown:
        return "metadata.command_line %r is not the command line %r" % (md.get("command_line"), want)
    return None


def mon_flame(tr, out_bytes, st):
    calls, _ = reference(tr)
    agg = ref_paths(calls, st)
    want = Counter()
    for p, (n, tot, slf) in agg.items():
        cnt = (slf // st) if st else n
        if cnt:
            want[b";".join(p) + b" %d" % cnt] += 1
    got = Counter(l for l in out_bytes.split(b"\n") if l)
    if got != want:
        d = list((got - want).elements())[:2], list((want - got).elements())[:2]
        return "flame lines differ: unexpected %r, missing %r" % d
    return None


def trie_edges(tr):
    """(parent name, name, nr_calls, depth) for every call path, root = basename(exename)"""
    calls, _ = reference(tr)
    agg = ref_paths(calls)
    root = tr.exename.rsplit(b"/", 1)[-1]
    return [((p[-2] if len(p) > 1 else root), p[-1], n, len(p)) for p, (n, _, _) in agg.items()]


def mon_graphviz(tr, out_bytes):
    want = Counter(b'    "%s" -> "%s" [xlabel = "%d"]' % (a, b, n) for a, b, n, _ in trie_edges(tr))
    body = out_bytes.split(b" { \n", 1)
    if len(body) != 2:
        return "no digraph header"
    got = Counter(l for l in body[1].split(b"\n") if l and l != b"}")
    if got != want:
        d = list((got - want).elements())[:2], list((want - got).elements())[:2]
        return "graphviz edges differ: unexpected %r, missing %r" % d
    return None


def mermaid_edge_lines(out_bytes):
    m = re.search(rb"flowchart TB\n(.*?)</div>\n", out_bytes, re.S)
    return None if not m else m.group(1)


def mon_mermaid(tr, out_bytes):
    edges = trie_edges(tr)
    blk = mermaid_edge_lines(out_bytes)
    if blk is None:
        return None if not edges else "no flowchart block"
    pats = [re.compile(rb'  %d_\d+\["%s"\] -->\|%d\| %d_\d+\["%s"\];' % (d - 1, re.escape(a), n, d, re.escape(b)), re.S)
            for a, b, n, d in edges]
    lines = [l for l in blk.split(b"\n") if l]
    if len(lines) != len(pats):
        return "mermaid: %d edge lines, expected %d" % (len(lines), len(pats))
    used = [False] * len(pats)
    for l in lines:
        for i, p in enumerate(pats):
            if not used[i] and p.fullmatch(l):
                used[i] = True
                break
        else:
            return "mermaid: unexpected edge line %r" % l[:200]
    return None


GROUPS = (b"   ", b" | ", b" +-", b"---")


def parse_graph(out_bytes):
    """`uftrace graph -f total,self` -> list of (path tuple, calls, total field, self field) or an error string;
    the two time fields are the printed text ("1.500 us", blank for 0)"""
    nodes, last_at = [], {}
    started = False
    for line in out_bytes.split(b"\n"):
        if line.startswith(b"# TOTAL TIME"):
            started = True
            continue
        if not started or not line.strip():
            continue
        if len(line) < 27 or line[24:27] != b" : ":
            return "unparsable line %r" % line[:80]
        f1, f2, rest = line[:12], line[14:24], line[27:]
        ind = 0
        while rest[ind * 3:ind * 3 + 3] in GROUPS and not rest[ind * 3:].startswith(b"("):
            ind += 1
        body = rest[ind * 3:]
        m = re.match(rb"\((\d+)\) (.*)$", body, re.S)
        if not m:
            if not body.strip():
                continue                             # blank separator between siblings
            return "unparsable node %r" % line[:80]
        marker = ind > 0 and (b"+-" in rest[:ind * 3])
        if not nodes:
            parent = None
        elif marker:
            parent = last_at.get(ind - 1)
        else:
            parent = len(nodes) - 1
        path = (nodes[parent][0] if parent is not None else ()) + (m.group(2),)
        nodes.append((path, int(m.group(1)), f1.strip(), f2.strip()))
        last_at[ind] = len(nodes) - 1
    return nodes


# the documented meaning of the units of a printed time: (ns per unit, ns per step of the three-digit part)
UNIT_NS = {b"us": (1000, 1), b"ms": (10 ** 6, 1000), b"s": (SEC, 10 ** 6), b"m": (MIN, SEC), b"h": (HOUR, MIN)}
UNIT_NAMES = ["us", "ms", "s", "m", "h"]


def field_interval(f):
    """a printed time -> (lo, hi): the times it stands for are lo <= t < hi; blank is exactly 0.  Exact integers;
    999.999 h is the printer's "too big" value"""
    f = f.strip()
    if not f:
        return (0, 1)
    m = re.fullmatch(rb"(\d+)\.(\d{3}) +(us|ms|s|m|h)", f)
    if not m:
        return None
    unit, sub = UNIT_NS[m.group(3)]
    lo = int(m.group(1)) * unit + int(m.group(2)) * sub
    if m.group(3) == b"h" and int(m.group(1)) == 999 and int(m.group(2)) == 999:
        return (1000 * unit, U64 + 1)      # `if (delta > 999) delta = delta_small = 999;`: 1000 hours and more
    return (lo, lo + sub)


def field_tok(f):
    return b"_".join(f.split()).decode() or "-"


def tunit_tok(res):
    """the field as the model's `tunit` result says it is printed ("%3lu.%03lu %s")"""
    w, f, i = res.split()
    return "%d.%03d_%s" % (int(w), int(f), UNIT_NAMES[int(i)])


def mon_graph(tr, out_bytes):
    calls, _ = reference(tr)
    agg = ref_paths(calls)
    if not agg:
        return None
    nodes = parse_graph(out_bytes)
    if isinstance(nodes, str):
        return "graph: " + nodes
    root = tr.exename.rsplit(b"/", 1)[-1]
    got = {}
    for path, n, f1, f2 in nodes[1:]:
        if path[0] != root or path[1:] in got:
            return "graph: duplicate or misplaced node %r" % (path,)
        got[path[1:]] = (n, f1, f2)
    if set(got) != set(agg):
        bad = sorted(set(got) ^ set(agg))[:2]
        return "graph: call paths differ at %r" % (bad,)
    for p_, (n, tot, slf) in agg.items():
        gn, f1, f2 = got[p_]
        if gn != n:
            return "graph: %r has %d calls, shown %d" % (p_, n, gn)
        for what, val, f in (("total", tot, f1), ("self", slf, f2)):
            iv = field_interval(f)
            if iv is None or not (iv[0] <= val < iv[1]):
                return "graph: %s time of %r is %d ns, shown as %r" % (what, p_, val, f.decode("latin-1"))
    return None


# ---------------------------------------------------------------------------
def run_uf(uftrace, cmd, d, args):
    e = dict(os.environ)
    e.pop("UFTRACE_DIR", None)
    e.update({"ASAN_OPTIONS": "detect_leaks=0:abort_on_error=0:exitcode=99",
              "UBSAN_OPTIONS": "halt_on_error=1:exitcode=98:print_stacktrace=0", "TZ": "UTC", "LC_ALL": "C"})
    try:
        p = subprocess.run([uftrace, cmd, "-d", d, "--no-pager", "--color=no"] + list(args),
                           stdout=subprocess.PIPE, stderr=subprocess.PIPE, timeout=60, env=e)
        return p.returncode, p.stdout, p.stderr.decode("utf-8", "replace")
    except subprocess.TimeoutExpired:
        return -999, b"", "TIMEOUT"


MODES = ["chrome", "flame0", "flameS", "flameA", "graphviz", "mermaid", "graph"]
# Json.Fix as main/abuf/asym digits: every combination of the repairs is a model the output is compared with
COMBOS = ("111", "110", "101", "100", "011", "010", "001", "000")
FINDING_THEOREMS = {
    "F9": "c15_chrome_valid; c15_prefix_comm_quote_witness, c15_prefix_cmdline_backslash_witness",
    "F9b": "c15_chrome_valid; c15_prefix_empty_trace_witness",
    "S3": "c15_name_buf_safe; c15_prefix_name_buf_overflow_witness, c15_prefix_name_buf_cut_witness",
    "C15-ARGBUF": "c15_args_buf_safe, c15_chrome_no_overflow; c15_prefix_argbuf_overflow_witness, c15_prefix_argbuf_char_witness",
    "C15-ARGSYM": "c15_args_body_valid, c15_chrome_valid_with_args; c15_prefix_argsym_quote_witness",
    "C15-DUMP-PREEMPT": "c15_chrome_balanced, c15_path_count_time, c15_edge_counts; c15_prefix_preempt_witness",
    "C15-TIMEUNIT": "c15_time_unit_exact; c15_prefix_time_unit_hours_witness, c15_time_unit_prefix_below_24min",
}


def sample_arg(st):
    """--sample-time takes at most 9 digits and a unit"""
    for unit, k in (("s", SEC), ("ms", 10 ** 6), ("us", 1000)):
        if st % k == 0 and st >= k:
            return "%d%s" % (st // k, unit)
    assert st < 10 ** 9
    return "%dns" % st


def plan(tr, rng_st):
    """the runs made for trace i: (mode, dir suffix, record_date, cmd, args, model lines, extra)"""
    st, total = auto_sample(tr.elapsed)
    tail = tr.model_tail()
    exe, cmd = hx(tr.exename), hx(tr.cmdline)
    return [
        ("chrome", "d", True, "dump", ["--chrome"] + (["-t", "1s"] if tr.filtered else []), None, None),
        ("flame0", "n", False, "dump", ["--flame-graph"], "flame {F} 0 " + tail, 0),
        ("flameS", "d", True, "dump", ["--flame-graph", "--sample-time", sample_arg(rng_st)],
         "flame {F} %d %s" % (rng_st, tail), rng_st),
        ("flameA", "d", True, "dump", ["--flame-graph"], "flame {F} auto:%d %s" % (total, tail), st),
        ("graphviz", "d", True, "dump", ["--graphviz"], None, None),
        ("mermaid", "d", True, "dump", ["--mermaid"], "mermaid %s %s" % (exe, tail), None),
        ("graph", "d", True, "graph", ["-f", "total,self"], "graph %s %s" % (exe, tail), None),
    ]


def chrome_query(tr, fx, version, date, asis=False):
    return "chrome %s %s %s %s %s %s" % (fx, hx(tr.exename), hx(version), hx(date), hx(tr.cmdline),
                                         tr.model_tail(with_args=True, asis=asis))


def classify_chrome(tr):
    """which known defect shapes does this input have (from the input alone)"""
    comm = tr.exename.rsplit(b"/", 1)[-1][:15]
    shapes = set()
    if esc_ref(comm) != comm:
        shapes.add("F9")
    c = tr.cmdline
    i, bad = 0, False
    while i < len(c):
        if c[i:i + 2] == b'\\"':
            i += 2
            continue
        if esc_ref(c[i:i + 1]) != c[i:i + 1]:
            bad = True
        i += 1
    if bad:
        shapes.add("F9")
    used = {r[2] for r in tr.visible()}
    for s in used:
        n = tr.names[s]
        e = esc_ref(n)
        last_multi = len(esc_ref(n[-1:])) > 1
        if len(e) >= CAP or (len(e) == CAP - 1 and last_multi):
            shapes.add("S3")            # overflow, or the last escape is cut in the middle
    if not tr.visible() and tr.tasks:
        shapes.add("F9b")
    return shapes


def add_sched(rng, tr, p=0.5, p_pre=0.5):
    """scheduling events in the gaps of the trace: after a record of a task that has a call open and is followed by
    nothing for at least 3 ns, the task is scheduled out (pre-empted or blocking) and in again"""
    depth = {tid: 0 for tid, _ in tr.tasks}
    sched = []
    for j, r in enumerate(tr.recs):
        kind, tid, _, t = r[:4]
        depth[tid] += 1 if kind == "E" else -1
        nxt = tr.recs[j + 1][3] if j + 1 < len(tr.recs) else t + 1000
        if depth[tid] > 0 and nxt - t >= 3 and rng.random() < p:
            to = t + 1
            ti = rng.randrange(to + 1, nxt)
            sched.append([tid, to, ti, rng.random() < p_pre])
    tr.sched = sched
    return tr


def close_calls(tr):
    """append the EXIT records of the calls still open (the time shown for an open call is an estimate)"""
    stack = {tid: [] for tid, _ in tr.tasks}
    for r in tr.recs:
        if r[0] == "E":
            stack[r[1]].append(r[2])
        else:
            stack[r[1]].pop()
    t = tr.recs[-1][3] if tr.recs else 2000
    recs = list(tr.recs)
    for tid, _ in tr.tasks:
        while stack[tid]:
            t += 10
            recs.append(("X", tid, stack[tid].pop(), t))
    tr.recs = recs
    return tr


def sched_traces(ctx):
    rng = ctx.rng
    one = [(100, 100)]
    A = [b"main", b"foo", b"bar"]
    base = [("E", 100, 0, 2000), ("E", 100, 1, 2100), ("E", 100, 2, 5000), ("X", 100, 2, 5100), ("X", 100, 1, 9000), ("X", 100, 0, 9100)]
    out = [Trace(A, one, base, desc="sched: blocked in foo", sched=[[100, 3000, 4000, False]]),
           Trace(A, one, base, desc="sched: pre-empted in foo (the Lean witness)", sched=[[100, 3000, 4000, True]]),
           Trace(A, one, base, desc="sched: pre-empted in bar and in main, blocked in foo",
                 sched=[[100, 2500, 2600, False], [100, 5001, 5002, True], [100, 9001, 9050, True]])]
    cdir = os.path.join(C.VERIF, "corpus", "C15", "sched")
    if os.path.isdir(cdir):
        for f in sorted(os.listdir(cdir)):
            if f.endswith(".json"):
                out.append(Trace.from_json(json.load(open(os.path.join(cdir, f)))))
    for k in range(14 if ctx.tier == "quick" else 400):
        names = [b"main"] + [rng.choice(PLAIN) + b"%d" % j for j in range(rng.randint(1, 4))]
        tr = gen_trace(rng, names=names, desc="random+sched", timing=rng.choice(["small", "base"]))
        tr.exename, tr.cmdline = b"/synth/prog", b"uftrace record ./prog"
        out.append(add_sched(rng, close_calls(tr), p=rng.choice([0.2, 0.5, 0.9]), p_pre=rng.choice([0.0, 0.5, 1.0])))
    return out


SCHED_MODES = [("chrome", "d", "dump", ["--chrome"]), ("flame0", "n", "dump", ["--flame-graph"]), ("graphviz", "d", "dump", ["--graphviz"]),
               ("mermaid", "d", "dump", ["--mermaid"]), ("graph", "d", "graph", ["-f", "total,self"])]


def run_sched_family(ctx, uftrace, version, date, report, stats, only=None):
    """scheduling events (perf-cpu0.dat) in the exporters: blocked and pre-empted tasks"""
    traces = [only] if only is not None else sched_traces(ctx)
    root = os.path.join(ctx.scratch, "sd")
    jobs = []
    for i, tr in enumerate(traces):
        for suffix, rd in (("d", True), ("n", False)):
            tr.write(os.path.join(root, "s%d%s" % (i, suffix)), record_date=rd)
        for mode, suffix, cmd, args in SCHED_MODES:
            jobs.append((i, mode, os.path.join(root, "s%d%s" % (i, suffix)), cmd, args))
    with concurrent.futures.ThreadPoolExecutor(max_workers=min(12, os.cpu_count() or 4)) as ex:
        results = list(ex.map(lambda j: run_uf(uftrace, j[3], j[2], j[4]), jobs))
    res = {(j[0], j[1]): r for j, r in zip(jobs, results)}
    ml, keys = [], []
    for i, tr in enumerate(traces):
        vc, vg = tr.view(True), tr.view(False)
        for asis in (False, True):
            ml.append(chrome_query(vc, "111", version, date, asis=asis))
            ml.append("flame 1 0 " + vg.model_tail(asis=asis))
            ml.append("graphviz %s %s %s %s" % (hx(tr.exename), hx(version), hx(tr.cmdline), vg.model_tail(asis=asis)))
            ml.append("mermaid %s %s" % (hx(tr.exename), vg.model_tail(asis=asis)))
            keys += [(i, m, asis) for m in ("chrome", "flame0", "graphviz", "mermaid")]
        ml.append("graph %s %s" % (hx(tr.exename), vg.model_tail()))       # `uftrace graph` has its own event code (utils/graph.c)
        keys.append((i, "graph", False))
    mres = dict(zip(keys, C.run_model("C15", ml)))
    gns = sorted({int(x) for (i, m, a), mo in mres.items() if m == "graph" for t_ in mo.split() for x in t_.split(":")[3:5]} - {0})
    tu = dict(zip(gns, (tunit_tok(x) for x in C.run_model("C15", ["tunit 1 %d" % n for n in gns])))) if gns else {}
    for i, tr in enumerate(traces):
        vc, vg = tr.view(True), tr.view(False)
        npre = sum(1 for x in tr.sched if x[3])
        for mode, suffix, cmd, args in SCHED_MODES:
            rc, out, errtxt = res[(i, mode)]
            stats["sched_runs"] += 1
            san = "AddressSanitizer" in errtxt or "runtime error" in errtxt

            def expd(asis):
                mo = mres[(i, mode, asis)]
                if mode == "chrome":
                    w = mo.split()
                    return bytes.fromhex(w[1]) if len(w) == 2 and w[1] != "-" else b""
                return bytes.fromhex(mo) if mo not in ("-", "bad-op") else b""
            if mode == "graph":
                nodes = parse_graph(out)
                implc = nodes if isinstance(nodes, str) else " ".join(
                    "%d:%s:%d:%s:%s" % (len(p) - 1, hx(p[-1]), n, field_tok(f1), field_tok(f2) if len(p) > 1 else "-") for p, n, f1, f2 in nodes)
                exp = " ".join("%s:%s:%s:%s:%s" % (a, b, c, tu[int(d)] if int(d) else "-", tu[int(e)] if int(e) else "-")
                               for a, b, c, d, e in (t_.split(":") for t_ in mres[(i, mode, False)].split()))
                same, same0 = C.norm(implc) == C.norm(exp), False
                bad = mon_graph(vg, out)
            else:
                exp, exp0 = expd(False), expd(True)
                got = mermaid_edge_lines(out) or b"" if mode == "mermaid" else out
                same, same0 = got == exp, (got == exp0 and exp0 != exp)
                bad = {"chrome": lambda: mon_chrome(vc, out), "flame0": lambda: mon_flame(vg, out, 0),
                       "graphviz": lambda: mon_graphviz(vg, out), "mermaid": lambda: mon_mermaid(vg, out)}[mode]()
            if rc != 0 or san:
                bad = "%s failed: rc=%d %s" % (mode, rc, errtxt[:200])
            stats["sched_match_fixed_model"] += same
            stats["sched_match_model_as_it_is"] += same0
            if same and not bad:
                continue
            rep = {"trace": tr.to_json(), "mode": mode, "cmd": [cmd] + args, "rc": rc, "stderr": errtxt[:400], "what": bad,
                   "impl_output": out[:2500].decode("latin-1"),
                   "model_fixed": (exp if isinstance(exp, str) else exp.decode("latin-1"))[:2500],
                   "scheduling_events": len(tr.sched), "of_them_pre_empted": npre}
            if same0 and npre and rc == 0 and not san:
                stats["defect_C15-DUMP-PREEMPT"] += 1
                rep.update({"kind": "property-violated-on-implementation" if bad else "model-code-disagreement",
                            "finding": "C15-DUMP-PREEMPT", "matches_prefix_model": True, "model_prefix": exp0[:2500].decode("latin-1"),
                            "theorem": FINDING_THEOREMS["C15-DUMP-PREEMPT"]})
                if not bad:
                    rep["what"] = "output equals the model in which the sched-out of a pre-empted task does not reach the dump callbacks"
                report("C15-DUMP-PREEMPT-s%d-%s" % (i, mode), rep, nfi=not bad, finding="C15-DUMP-PREEMPT")
                continue
            rep["kind"] = "property-violated-on-implementation" if bad else "model-code-disagreement"
            rep["theorem"] = "c15_chrome_balanced, c15_path_count_time, c15_edge_counts (scheduling events as calls)"
            report("sched-s%d-%s" % (i, mode), rep, nfi=not bad)
    stats["sched_traces"] += len(traces)
    stats["sched_events"] += sum(len(t.sched) for t in traces)
    stats["sched_events_pre_empted"] += sum(1 for t in traces for x in t.sched if x[3])


def sessfork_module():
    """harness/c15_sessfork.py: exec chains (several sessions per task) and forks made by secondary threads"""
    import importlib.util
    import sys
    spec = importlib.util.spec_from_file_location("c15_sessfork", os.path.join(C.VERIF, "harness", "c15_sessfork.py"))
    m = importlib.util.module_from_spec(spec)
    spec.loader.exec_module(m)
    return m, sys.modules[__name__]


def run(ctx):
    ok, problems = C.prove(ctx, "C15")
    if not ok:
        C.violation(ctx, "proof", {"kind": "proof-obligation-broken", "problems": problems}, True)
        return C.finish(ctx)
    return run_cases(ctx, None)


def build_impl(ctx):
    okm, log = ctx.make(extra=["ASAN=1"])
    uftrace = os.path.join(ctx.src, "uftrace")
    if not okm or not os.path.exists(uftrace):
        return None, None, None, "make ASAN=1 failed: " + log[-1500:]
    r = C.sh([uftrace, "--version"])
    version = r.stdout.strip()
    if not version.startswith("uftrace "):
        return None, None, None, "unexpected --version output: " + version[:200]
    version = version[len("uftrace "):].encode()
    # H4 driver: the build's objects with uftrace.o's main renamed
    objs = []
    for sub in ("cmds", "utils"):
        dd = os.path.join(ctx.src, sub)
        objs += sorted(os.path.join(dd, f) for f in os.listdir(dd) if f.endswith(".o"))
    objs.append(os.path.join(ctx.src, "arch/x86_64/uftrace.o"))
    nomain = os.path.join(ctx.scratch, "uftrace_nomain.o")
    r = C.sh(["objcopy", "--redefine-sym", "main=uftrace_main", os.path.join(ctx.src, "uftrace.o"), nomain])
    if r.returncode != 0:
        return None, None, None, "objcopy failed: " + r.stdout[-500:]
    h4 = os.path.join(ctx.scratch, "h_c15")
    r = C.sh(["gcc", "-std=gnu11", "-D_GNU_SOURCE", "-O0", "-g", "-w", "-fsanitize=address,leak,undefined",
              os.path.join(C.VERIF, "harness/c15_escape.c"), nomain] + objs + LINK_LIBS + ["-o", h4])
    if r.returncode != 0:
        return None, None, None, "H4 link failed: " + r.stdout[-1500:]
    return uftrace, version, h4, None


def h4_cases(ctx):
    rng = ctx.rng
    lines = ["esc %02x" % c for c in range(256)]
    lines += ["quote %02x" % c for c in range(1, 256)]
    lines.append("esc " + bytes(range(256)).hex())
    lines.append("quote " + bytes(range(1, 256)).hex())
    lines += ["esc -", "quote -"]
    n = 200 if ctx.tier == "quick" else 4000
    for _ in range(n):
        b = b"".join(rng.choice(SPICE + PLAIN) if rng.random() < 0.7 else bytes([rng.randrange(256)])
                     for _ in range(rng.randint(1, 12)))
        lines.append("esc " + hx(b))
        q = b.replace(b"\0", b"")
        lines.append("quote " + hx(q))
    return lines


def json_probe_cases(ctx):
    """texts for which the Lean recogniser and Python's strict parser must agree (ASCII only)"""
    rng = ctx.rng
    seeds = ['{"a":[1,2.5,-0e+3,true,null,{"b":"x\\n\\u00e9\\\\"}]}', '[]', '{}', '0', '-1.5E-7', '"s"', ' [ 1 , 2 ] ',
             '{"traceEvents":[\n{"ts":0,"ph":"M","pid":1,"name":"n","args":{"name":"[1] p"}},\n{"ts":2.000,"ph":"B","pid":1,"name":"m"}\n], "d": "ns", "m": {\n"v":"u",\n"c":"x"\n} }\n',
             '[1,]', '{"a":1,}', '01', '1.', '.5', '"\\x"', '"a\\"', '{"a" 1}', '[1 2]', 'nul', 'tru', '"\t"', '[', ']', '{"a":}', '-', '1e', '1e+',
             '{"a":"b"}}', '[[[[]]]]', '{"a":{"b":{"c":[]}}}', '"\\u12g4"', '"\\u1234"', '2.000', '1,2', '', ' ', 'true false']
    out = [s.encode() for s in seeds]
    n = 300 if ctx.tier == "quick" else 5000
    alphabet = list('{}[]:,"\\ \n0123456789.-+eEtrufalsn/bx') + ["\x01", "\x7f", "a", "Z"]
    for _ in range(n):
        s = rng.choice(seeds)
        s = list(s)
        for _ in range(rng.randint(0, 3)):
            if s and rng.random() < 0.5:
                s[rng.randrange(len(s))] = rng.choice(alphabet)
            elif s and rng.random() < 0.5:
                del s[rng.randrange(len(s))]
            else:
                s.insert(rng.randint(0, len(s)), rng.choice(alphabet))
        out.append("".join(s).encode())
    return out


def py_json_ok(b):
    try:
        json.loads(b.decode("ascii"), parse_constant=_strict_const)
        return True
    except Exception:        # noqa
        return False


def py_body_ok(b):
    try:
        return isinstance(json.loads('"' + b.decode("ascii") + '"'), str) and b'"' not in b.replace(b'\\"', b"")
    except Exception:        # noqa
        return False


def corpus_traces():
    out = []
    A = [b"main", b"foo", b"bar"]
    one = [(100, 100)]

    def seq(spec, tasks=one):
        # spec: list of (kind, taskidx, sym, time)
        return [(k, tasks[i][0], s, t) for k, i, s, t in spec]
    out.append(Trace(A, one, seq([("E", 0, 0, 2000), ("E", 0, 1, 2100), ("X", 0, 1, 2200), ("E", 0, 2, 2300),
                                  ("E", 0, 1, 2350), ("X", 0, 1, 2400), ("X", 0, 2, 2500), ("E", 0, 1, 2600)]),
                     desc="corpus: open calls"))
    out.append(Trace(A, one, seq([("E", 0, 0, 2000), ("E", 0, 1, 2100), ("X", 0, 1, 2200), ("X", 0, 0, 2600)]),
                     desc="corpus: every record filtered out (-t 1s)", filtered=True))
    out.append(Trace([b"main", b'a"b\\c', b"x\x01y\xc3\xa9"], one,
                     seq([("E", 0, 0, 2000), ("E", 0, 1, 2100), ("X", 0, 1, 2200), ("E", 0, 2, 2300), ("X", 0, 2, 2500),
                          ("X", 0, 0, 2600)]), desc="corpus: hostile names"))
    out.append(Trace(A, one, seq([("E", 0, 0, 2000), ("E", 0, 1, 2100), ("X", 0, 1, 2200), ("X", 0, 0, 2600)]),
                     exename=b'/synth/q"x', cmdline=b'uftrace record ./q\\"x a\\ \\"b\\"', desc="corpus: F9 comm quote, cmdline backslash"))
    two = [(100, 100), (101, 100)]
    out.append(Trace(A, two, seq([("E", 0, 0, 2000), ("E", 1, 0, 2050), ("E", 0, 1, 2100), ("E", 1, 1, 2150), ("X", 0, 1, 2200),
                                  ("X", 1, 1, 2210), ("E", 1, 2, 2220), ("X", 0, 0, 2600)], two), desc="corpus: two threads, shared paths"))
    # the code comment of adjust_fg_time: main 10.567us, foo 4.789, bar 4.987 with 1us samples
    out.append(Trace(A, one, seq([("E", 0, 0, 10000), ("E", 0, 1, 10100), ("X", 0, 1, 14889), ("E", 0, 2, 15000), ("X", 0, 2, 19987),
                                  ("X", 0, 0, 20567)]), elapsed="0.5 sec", desc="corpus: sample accounting example"))
    cdir = os.path.join(C.VERIF, "corpus", "C15")
    if os.path.isdir(cdir):
        for f in sorted(os.listdir(cdir)):
            if f.endswith(".json"):
                out.append(Trace.from_json(json.load(open(os.path.join(cdir, f)))))
    return out


def corpus_arg_traces():
    names = [b"main", b"argf0", b"argf1", b'q"x', b"b\\s", b"operator\"\" _km", b"caf\xc3\xa9"]
    fns = {1: {"args": [{"k": "s"}, {"k": "c"}], "ret": {"k": "s"}},
           2: {"args": [{"k": "p"}], "ret": {"k": "p"}}}
    P = lambda i: ["p", DD.BASE + 0x100 * (i + 1)]             # noqa
    out = [
        one_call_trace(names, fns, [(1, [["s", b'hi "there"\n\x01'.hex()], ["c", 39]], [["s", b"ret\\".hex()]]),
                                    (1, [["s", NULL_STR.hex()], ["c", 0]], [["s", ""]]),
                                    (1, None, None),
                                    (2, [P(0)], [["p", 0]]), (2, [["p", 0x7f0012345678]], [P(1)])],
                       "corpus: strings, chars, NULL, pointers to plain symbols"),
        # C15-ARGSYM: pointers to symbols whose names need escaping (the Lean witness: f(&q"x))
        one_call_trace(names, fns, [(2, [P(3)], None)], "corpus: C15-ARGSYM pointer to q\"x"),
        one_call_trace(names, fns, [(2, [P(4)], [P(5)]), (2, [P(6)], None)], "corpus: C15-ARGSYM backslash, operator\"\", utf-8"),
        # C15-ARGBUF: the two Lean witnesses, utf-8 text that fits a real 1024-byte argument record, a return value
        one_call_trace(names, fns, [(1, [["s", (b"\x01" * 410).hex()], ["c", 65]], None)], "corpus: C15-ARGBUF 410 escapes"),
        one_call_trace(names, fns, [(1, [["s", (b"a" * 2046).hex()], ["c", 65]], None)], "corpus: C15-ARGBUF 2046 letters"),
        one_call_trace(names, fns, [(1, [["s", ("\ud55c\uad6d\uc5b4 \ubb38\uc790\uc5f4 ".encode() * 40).hex()], ["c", 10]], None)],
                       "corpus: C15-ARGBUF 680 bytes of utf-8 text"),
        one_call_trace(names, fns, [(1, None, [["s", (b"\xff" * 420).hex()]])], "corpus: C15-ARGBUF return value"),
    ]
    return out


def run_cases(ctx, only):
    """only = None: the whole check; else a Trace to replay"""
    ctx.snapshot()
    uftrace, version, h4, err = build_impl(ctx)
    if err:
        C.violation(ctx, "build", {"kind": "harness-build-failed", "log": err}, True)
        return C.finish(ctx)
    date = time.asctime(time.gmtime(T_INFO)).encode()
    rng = ctx.rng
    known = {f["id"]: f for f in C.known_findings("C15")}
    nviol = [0]
    per_finding = Counter()

    def report(name, obj, nfi=False, finding=None):
        if finding and finding in known:
            C.known(ctx, known[finding], "%s %s" % (finding, known[finding].get("what", "")[:160]))
            return
        if only is not None:
            ctx.violations.append(("(replay) %s: %s" % (name, obj.get("what")), nfi))     # no files in replay mode
        elif finding:
            per_finding[finding] += 1
            if per_finding[finding] <= 2:          # two concrete inputs per defect
                C.violation(ctx, name, obj, no_failing_input=nfi)
        elif nviol[0] - sum(per_finding.values()) < 6:
            C.violation(ctx, name, obj, no_failing_input=nfi)
        nviol[0] += 1

    stats = Counter()
    samples = []
    # ---- H4: the escaping functions, exhaustively --------------------------------------
    if only is None:
        lines = h4_cases(ctx)
        e = dict(os.environ)
        e.update({"ASAN_OPTIONS": "detect_leaks=0", "LC_ALL": "C"})
        r = subprocess.run([h4], input="\n".join(lines) + "\n", stdout=subprocess.PIPE, stderr=subprocess.PIPE,
                           text=True, timeout=300, env=e)
        ol = r.stdout.split("\n")
        models = [l[6:] for l in ol if l.startswith("MODEL ")]
        impls = [l[5:] for l in ol if l.startswith("IMPL ")]
        if r.returncode != 0 or len(models) != len(lines) or len(impls) != len(lines):
            report("h4", {"kind": "harness-failed", "rc": r.returncode, "stderr": r.stderr[-1500:]}, True)
            return C.finish(ctx)
        mout = C.run_model("C15", models)
        for q, a, b in zip(models, impls, mout):
            stats["h4"] += 1
            if C.norm(a) != C.norm(b):
                stats["h4_disagree"] += 1
                report("h4-%d" % stats["h4_disagree"], {"kind": "model-code-disagreement", "query": q[:300], "impl": a[:300],
                                                        "model": b[:300], "theorem": "c15_escape_valid"}, True)
            op, arg = q.split()
            if op == "esc":
                raw = bytes.fromhex(a) if a != "-" else b""
                inp = bytes.fromhex(arg) if arg != "-" else b""
                # monitor: the escaped text is a JSON string body that reads back as the display form
                try:
                    back = json.loads(b'"' + raw + b'"')
                    okb = isinstance(back, str) and all(32 <= x < 127 for x in raw)
                except Exception:       # noqa
                    okb = False
                if not okb:
                    report("h4-esc", {"kind": "property-violated-on-implementation", "what": "escaped text is not a JSON string body",
                                      "input": arg, "output": a, "theorem": "c15_escape_valid"})
                if raw != esc_ref(inp):
                    stats["h4_ref_disagree"] += 1
        samples.append({"h4_query": models[34], "impl": impls[34], "model": mout[34]})
        # the recogniser against Python's strict parser
        probes = json_probe_cases(ctx)
        bodies = [p for p in probes if len(p) < 40][:200] + [esc_ref(gen_name(rng)) for _ in range(100)] + \
            [gen_name(rng)[:30] for _ in range(100)]
        ml = ["json " + hx(p) for p in probes] + ["body " + hx(p) for p in bodies]
        mo = C.run_model("C15", ml)
        for p, m in zip(probes, mo[:len(probes)]):
            stats["json_probe"] += 1
            stats["json_probe_valid"] += m == "1"
            if (m == "1") != py_json_ok(p):
                report("recogniser", {"kind": "model-code-disagreement", "what": "Lean validJson and Python json disagree",
                                      "text": p.decode("latin-1"), "lean": m, "python": py_json_ok(p), "theorem": "c15_chrome_valid"}, True)
        for p, m in zip(bodies, mo[len(probes):]):
            stats["body_probe"] += 1
            asc = all(x < 128 for x in p)
            if asc and (m == "1") != py_body_ok(p):
                report("recogniser-body", {"kind": "model-code-disagreement", "what": "Lean validBody and Python json disagree",
                                           "text": p.decode("latin-1"), "lean": m, "python": py_body_ok(p), "theorem": "c15_escape_valid"}, True)
            if not asc and m == "1":
                report("recogniser-body", {"kind": "model-code-disagreement", "what": "validBody accepted a non-ASCII byte",
                                           "text": p.hex()}, True)

        # the time stamp text of the model, read back exactly (c15_chrome_ts_exact), on the boundaries of the C types
        tvals = sorted({b_ + d_ for b_ in (0, 1000, 2 ** 31, 2 ** 32, 2 ** 53, 2 ** 63, U64) for d_ in range(-3, 4) if 0 <= b_ + d_ <= U64}
                       | {rng.randrange(U64 + 1) for _ in range(40)} | {rng.randrange(2 ** 53, 2 ** 55) for _ in range(40)})
        for t_, l in zip(tvals, C.run_model("C15", ["tsval %d" % t_ for t_ in tvals])):
            stats["tsval"] += 1
            w = l.split()
            if len(w) != 3 or bytes.fromhex(w[0]) != b"%d.%03d" % (t_ // 1000, t_ % 1000) or int(w[1]) * 1000 + int(w[2]) != t_:
                report("tsval", {"kind": "model-code-disagreement", "what": "Json.tsText / digitsVal of %d" % t_, "model": l,
                                 "theorem": "c15_chrome_ts_exact"}, True)

    # ---- H3: traces ----------------------------------------------------------------------
    if only is not None and only.sched:
        run_sched_family(ctx, uftrace, version, date, report, stats, only=only)
        for k in ctx.known_printed:
            print(k)
        for path, nfi in ctx.violations:
            print("VIOLATION property=C15 %s" % path)
        return 1 if ctx.violations else 0
    if only is not None:
        traces = [only]
    else:
        traces = corpus_traces()
        traces += boundary_time_traces()
        nb = boundary_names()
        for i in range(0, len(nb), 4):
            chunk = nb[i:i + 4]
            traces.append(gen_trace(rng, names=[b"main"] + chunk, ntasks=1, nrec=2 * len(chunk) + 4,
                                    desc="name_buf boundary (in bounds)"))
        ov = overflow_names()
        for n in (ov if ctx.tier == "thorough" else ov[:4]):
            one = [(100, 100)]
            traces.append(Trace([b"main", n], one, [("E", 100, 0, 2000), ("E", 100, 1, 2100), ("X", 100, 1, 2200), ("X", 100, 0, 2300)],
                                desc="name_buf overflow"))
        # argument / return value payloads
        traces += corpus_arg_traces()
        traces += boundary_arg_traces(2030, 2047)             # fits, or is cut inside the buffer
        traces += boundary_arg_traces(2048, 2062)             # does not fit
        narg = 40 if ctx.tier == "quick" else 1500
        for k in range(narg):
            traces.append(gen_arg_trace(rng, nrec=(rng.choice([60, 150]) if (ctx.tier == "thorough" and k % 10 == 0) else None)))
        nrand = 80 if ctx.tier == "quick" else 5000
        for k in range(nrand):
            big = ctx.tier == "thorough" and k % 10 == 0
            traces.append(gen_trace(rng, ties=(k % 4 == 3), nrec=(rng.choice([80, 200]) if big else None),
                                    desc="random+ties" if k % 4 == 3 else "random"))
    root = os.path.join(ctx.scratch, "dd")
    jobs = []           # (trace idx, mode, dir, cmd, args)
    plans = []
    for i, tr in enumerate(traces):
        rst = rng.choice([1, 7, 100, 333, 1000, 2500])
        if tr.recs and tr.recs[-1][3] - tr.recs[0][3] > 2 ** 33 and rng.random() < 0.5:
            rst = rng.choice([1, 999, 999999999, 4294968 * 1000, 2 ** 33 // 1000 * 1000, SEC, 7 * SEC, 61 * SEC, HOUR])
        pl = plan(tr, rst)
        plans.append(pl)
        big = max([len(n) for n in tr.names] + [0]) > 1500 or tr.filtered or (tr.has_args() and i % 5 != 0)
        for suffix, rd in (("d", True), ("n", False)):
            tr.write(os.path.join(root, "t%d%s" % (i, suffix)), record_date=rd)
        for mode, suffix, rd, cmd, args, ml, extra in pl:
            if big and mode != "chrome":
                continue
            jobs.append((i, mode, os.path.join(root, "t%d%s" % (i, suffix)), cmd, args))
    with concurrent.futures.ThreadPoolExecutor(max_workers=min(12, os.cpu_count() or 4)) as ex:
        results = list(ex.map(lambda j: run_uf(uftrace, j[3], j[2], j[4]), jobs))
    res = {(j[0], j[1]): r for j, r in zip(jobs, results)}
    t_runs = time.time()

    # model queries
    mlines, mkeys = [], []
    for i, tr in enumerate(traces):
        tail = tr.model_tail()
        for mode, suffix, rd, cmd, args, ml, extra in plans[i]:
            if (i, mode) not in res:
                continue
            if mode == "chrome":
                for fx in (("111",) if tr.has_args() else ("111", "000")):
                    mlines.append(chrome_query(tr, fx, version, date))
                    mkeys.append((i, mode, fx))
            elif mode == "graphviz":
                mlines.append("graphviz %s %s %s %s" % (hx(tr.exename), hx(version), hx(tr.cmdline), tail))
                mkeys.append((i, mode, 1))
            elif mode.startswith("flame"):
                for fixed in (1, 0):
                    mlines.append(ml.replace("{F}", str(fixed)))
                    mkeys.append((i, mode, fixed))
            else:
                mlines.append(ml)
                mkeys.append((i, mode, 1))
    mres = dict(zip(mkeys, C.run_model("C15", mlines)))
    # second round: a run with argument payloads that is not what the repaired model says is compared with the
    # model under the other combinations of the repairs: first those with the `main` repairs (in /repo), and only
    # when none of them is what the implementation did, those without
    def agrees(i, fx):
        rc, out, errtxt = res[(i, "chrome")]
        w = mres[(i, "chrome", fx)].split()
        if len(w) != 2:
            return False
        san = "AddressSanitizer" in errtxt or "runtime error" in errtxt
        if w[0] == "1":
            return san and "stack-buffer-overflow" in errtxt and "dump_chrome_task_rstack" in errtxt
        return rc == 0 and not san and out == (bytes.fromhex(w[1]) if w[1] != "-" else b"")
    todo = [i for i, tr in enumerate(traces) if tr.has_args() and (i, "chrome") in res and not agrees(i, "111")]
    for stage in (COMBOS[1:4], COMBOS[4:]):
        mlines2 = [chrome_query(traces[i], fx, version, date) for i in todo for fx in stage]
        if mlines2:
            mres.update(zip([(i, "chrome", fx) for i in todo for fx in stage], C.run_model("C15", mlines2)))
            mlines += mlines2
        todo = [i for i in todo if not any(agrees(i, fx) and mres[(i, "chrome", fx)] != mres[(i, "chrome", "111")] for fx in stage)]
    # the times of the graph model as print_time_unit shows them: the repaired table and the table as it is
    gns = set()
    for (i, mode, _), mo in mres.items():
        if mode == "graph" and traces[i].recs:
            for t_ in mo.split():
                f_ = t_.split(":")
                if len(f_) == 5:
                    gns.update(int(x) for x in f_[3:5])
    gns.discard(0)
    gns = sorted(gns)
    tu = {}
    if gns:
        r1 = C.run_model("C15", ["tunit 1 %d" % n for n in gns])
        r0 = C.run_model("C15", ["tunit 0 %d" % n for n in gns])
        for n, a, b in zip(gns, r1, r0):
            tu[(1, n)], tu[(0, n)] = tunit_tok(a), tunit_tok(b)

    def graph_text(mo, fixed):
        toks = [t_.split(":") for t_ in mo.split()]
        return " ".join("%s:%s:%s:%s:%s" % (a, b, c, tu[(fixed, int(d))] if int(d) else "-", tu[(fixed, int(e))] if int(e) else "-")
                        for a, b, c, d, e in toks)
    ctx.coverage["phase_seconds"] = {"tool_runs_done_at": round(t_runs - ctx.t0, 1), "model_done_at": round(time.time() - ctx.t0, 1),
                                     "model_queries": len(mlines)}
    distinct = set()

    for i, tr in enumerate(traces):
        for mode, suffix, rd, cmd, args, ml, extra in plans[i]:
            if (i, mode) not in res:
                continue
            rc, out, errtxt = res[(i, mode)]
            stats["runs"] += 1
            stats["run_" + mode] += 1
            rep = {"trace": tr.to_json(), "mode": mode, "cmd": [cmd] + args, "rc": rc, "stderr": errtxt[:600]}
            san = "AddressSanitizer" in errtxt or "runtime error" in errtxt
            if mode == "chrome":
                combos = tuple(fx for fx in COMBOS if (i, mode, fx) in mres)
                mod = {}
                for fx in combos:
                    w = mres[(i, mode, fx)].split()
                    mod[fx] = (w[0], bytes.fromhex(w[1]) if w[1] != "-" else b"") if len(w) == 2 else ("?", b"")
                exp1 = mod["111"][1]
                shapes = classify_chrome(tr)
                kinds = tuple(sorted({sp["k"] for fn in tr.argfns.values() for sp in fn["args"] + ([fn["ret"]] if fn.get("ret") else [])}))
                t_first = tr.recs[0][3] if tr.recs else 0
                distinct.add(("chrome", tuple(sorted(shapes)), len(tr.recs) > 0, len(tr.tasks), any(p != t for t, p in tr.tasks), kinds,
                              tuple(fx for fx in combos if mod[fx] != mod["111"]), t_first.bit_length() // 8))
                stats["chrome_runs_first_time_ge_2^53"] += t_first >= 2 ** 53
                stats["chrome_events_time_ge_2^53"] += sum(1 for r in tr.visible() if r[3] >= 2 ** 53)
                bad = None
                if rc != 0 or san:
                    bad = "dump --chrome failed: rc=%d %s" % (rc, errtxt.strip().split("\n")[1][:160] if san and "\n" in errtxt.strip() else errtxt[:160])
                else:
                    bad = mon_chrome(tr, out)

                def matches(fx):
                    oob, exp = mod[fx]
                    if oob == "1":          # the model stores outside name_buf / spec_buf: undefined behaviour, ASan stops the run
                        return san and "stack-buffer-overflow" in errtxt and "dump_chrome_task_rstack" in errtxt
                    return oob == "0" and rc == 0 and not san and out == exp
                match1 = matches("111")
                # the pre-fix model the implementation agrees with: the one with the most repairs
                pre = [fx for fx in sorted(combos[1:], key=lambda c: -c.count("1")) if mod[fx] != mod["111"] and matches(fx)]
                match0 = bool(pre)
                stats["chrome_match_fixed_model"] += match1
                stats["chrome_match_prefix_model"] += match0 or (match1 and any(mod[fx] == mod["111"] for fx in combos[1:]))
                if tr.has_args():
                    stats["chrome_arg_runs"] += 1
                    stats["chrome_arg_events"] += sum(1 for r in tr.visible() if tr.vals_of(r) is not None)
                if len(samples) < 4 and i % 7 == 2:
                    samples.append({"trace": tr.desc, "chrome_impl_head": out[:200].decode("latin-1"), "model_head": exp1[:200].decode("latin-1")})
                if len(samples) < 6 and tr.has_args() and "random" in tr.desc and rc == 0:
                    ln = [l for l in out.split(b"\n") if b'"args":{"arg' in l][:1]
                    if ln:
                        samples.append({"trace": tr.desc, "chrome_impl_event": ln[0][:300].decode("latin-1")})
                if not bad and match1:
                    continue
                rep.update({"what": bad, "impl_output": out[:3000].decode("latin-1"), "model_fixed": exp1[:3000].decode("latin-1"),
                            "matches_fixed_model": match1, "matches_prefix_models": pre, "defect_shapes": sorted(shapes),
                            "model_oob": {fx: mod[fx][0] for fx in combos}})
                if pre:
                    # the implementation behaves exactly like the model without some repairs: name the repairs whose
                    # absence matters for this input
                    fx = pre[0]
                    rep["model_prefix"] = mod[fx][1][:3000].decode("latin-1")
                    rep["prefix_model"] = fx
                    fids = []
                    if fx[0] == "0" and mod.get("1" + fx[1:], mod["111"]) != mod[fx]:
                        fids += sorted(shapes)
                    if tr.has_args():
                        for bit, fid in ((1, "C15-ARGBUF"), (2, "C15-ARGSYM")):
                            on = fx[:bit] + "1" + fx[bit + 1:]
                            if fx[bit] == "0" and mod[on] != mod[fx]:
                                fids.append(fid)
                    for fid in fids:
                        stats["defect_" + fid] += 1
                        r2 = dict(rep)
                        r2.update({"kind": "property-violated-on-implementation" if bad else "model-code-disagreement",
                                   "finding": fid, "theorem": FINDING_THEOREMS[fid]})
                        if not bad:
                            r2["what"] = "output equals the model without repair %s and differs from the repaired model" % fid
                        report("%s-t%d" % (fid, i), r2, nfi=not bad, finding=fid)
                    if fids:
                        continue
                if bad:
                    rep["kind"] = "property-violated-on-implementation"
                    rep["theorem"] = "c15_chrome_valid_with_args, c15_chrome_no_overflow, c15_chrome_balanced"
                    report("chrome-t%d" % i, rep)
                else:
                    rep["kind"] = "model-code-disagreement"
                    rep["theorem"] = "c15_chrome_valid_with_args, c15_chrome_balanced (correspondence of Json.chromeOutput)"
                    report("chrome-corr-t%d" % i, rep, True)
                continue
            # the graph family
            mo = mres[(i, mode, 1)]
            gsame0 = False
            if mode == "graph":
                nodes = parse_graph(out)
                if isinstance(nodes, str):
                    implc = nodes
                else:
                    implc = " ".join("%d:%s:%d:%s:%s" % (len(p) - 1, hx(p[-1]), n, field_tok(f1), field_tok(f2) if len(p) > 1 else "-")
                                     for p, n, f1, f2 in nodes)
                exp, gexp0 = "", ""
                if tr.recs:
                    exp, gexp0 = graph_text(mo, 1), graph_text(mo, 0)
                same = C.norm(implc) == C.norm(exp)
                gsame0 = C.norm(implc) == C.norm(gexp0) and gexp0 != exp
                stats["graph_match_fixed_model"] += same
                stats["graph_match_prefix_model"] += C.norm(implc) == C.norm(gexp0)
                bad = mon_graph(tr, out)
            else:
                exp = bytes.fromhex(mo) if mo not in ("-", "bad-op") else b""
                if mode == "mermaid":
                    blk = mermaid_edge_lines(out)
                    same = (blk or b"") == exp
                    bad = mon_mermaid(tr, out)
                elif mode == "graphviz":
                    same = out == exp
                    bad = mon_graphviz(tr, out)
                else:
                    same = out == exp
                    bad = mon_flame(tr, out, extra)
            if rc != 0 or san:
                bad = "%s failed: rc=%d %s" % (mode, rc, errtxt[:200])
            calls, _ = reference(tr)
            t_first = tr.recs[0][3] if tr.recs else 0
            t_span = (tr.recs[-1][3] - t_first) if tr.recs else 0
            distinct.add((mode, len(ref_paths(calls)), len(tr.tasks), extra, any(c["t1"] is None for c in calls),
                          t_first.bit_length() // 8, t_span.bit_length() // 8))
            stats["runs_first_time_ge_2^53"] += t_first >= 2 ** 53
            stats["runs_span_ge_24min"] += t_span >= 24 * MIN
            same0 = False
            if mode.startswith("flame"):
                m0 = mres[(i, mode, 0)]
                exp0 = bytes.fromhex(m0) if m0 not in ("-", "bad-op") else b""
                same0 = out == exp0 and rc == 0 and not san
                stats["flame_match_prefix_model"] += same0
                stats["flame_match_fixed_model"] += same
            stats["graph_family_match"] += (same or same0 or gsame0) and not bad
            if (same or same0 or gsame0) and not bad:
                continue
            if mode == "graph" and gsame0 and rc == 0 and not san:
                # the output is what the unit table as it is (24 "minutes per hour") prints and differs from the repaired one
                stats["defect_C15-TIMEUNIT"] += 1
                rep.update({"what": bad or "times of 24 minutes and more are shown in a unit of 24 minutes labelled h",
                            "impl_output": out[:3000].decode("latin-1"), "model_fixed": exp[:3000], "model_prefix": gexp0[:3000],
                            "matches_prefix_model": True, "kind": "property-violated-on-implementation" if bad else "model-code-disagreement",
                            "finding": "C15-TIMEUNIT", "theorem": FINDING_THEOREMS["C15-TIMEUNIT"]})
                report("C15-TIMEUNIT-t%d" % i, rep, nfi=not bad, finding="C15-TIMEUNIT")
                continue
            if bad and same0 and exp0 != exp:
                stats["defect_F9c"] += 1
                rep.update({"what": bad, "impl_output": out[:3000].decode("latin-1"), "model_fixed": exp[:3000].decode("latin-1"),
                            "model_prefix": exp0[:3000].decode("latin-1"), "matches_prefix_model": True,
                            "kind": "property-violated-on-implementation", "finding": "F9c",
                            "theorem": "c15_flame_lines; c15_prefix_flame_digits_witness"})
                report("F9c-t%d-%s" % (i, mode), rep, finding="F9c")
                continue
            rep.update({"what": bad, "impl_output": out[:3000].decode("latin-1"),
                        "model_output": (exp[:3000].decode("latin-1") if isinstance(exp, bytes) else exp[:3000])})
            thm = {"graph": "c15_path_count_time, c15_time_unit_exact", "graphviz": "c15_edge_counts", "mermaid": "c15_edge_counts"}.get(mode, "c15_flame_lines")
            rep["theorem"] = thm
            if bad:
                rep["kind"] = "property-violated-on-implementation"
                report("%s-t%d" % (mode, i), rep)
            else:
                rep["kind"] = "model-code-disagreement"
                report("%s-corr-t%d" % (mode, i), rep, True)

    if only is None:
        run_sched_family(ctx, uftrace, version, date, report, stats)
        SF, K = sessfork_module()
        SF.run_family(K, ctx, uftrace, report, stats)
    if only is not None:
        for k in ctx.known_printed:
            print(k)
        for path, nfi in ctx.violations:
            print("VIOLATION property=C15 %s" % path)
        return 1 if ctx.violations else 0
    ctx.coverage.update({
        "evaluations": stats["runs"] + stats["sched_runs"] + stats["sessfork_runs"] + stats["h4"] + stats["json_probe"] + stats["body_probe"] + stats["tsval"],
        "distinct_nontrivial": len(distinct) + 256 + 255,
        "rule": "H4: print_json_escaped_char and json_quote on each of the 256 (255) byte values, on the string of all of them, and on "
                "random strings, model vs code, exhaustive in the byte; the Lean JSON recogniser against Python's strict json on seeded "
                "and mutated texts.  H3: corpus traces, names whose escaped length is 2041..2047 with each kind of final escape, "
                "overflowing names, then random traces (1-4 tasks, threads and processes, recursion, open calls, shared names, "
                "zero-length calls) x {chrome, flame without sampling, --sample-time N, auto sample time, graphviz, mermaid, graph}; "
                "chrome with argument / return value payloads: corpus (the Lean witnesses of C15-ARGBUF / C15-ARGSYM), value lists whose "
                "text has 1990..2062 bytes (one string with each kind of final escape, std::string, return values, mixed lists, "
                "twelve strings), random traces with 1-4 argument functions (specs of 0-8 values from s S c p d/i/u/x/o 8-64 f e t, "
                "pointers into hostile symbols), each compared with the model under all 8 combinations of the repairs; "
                "numeric range: record times 1 ns apart across 2^31, 2^32, 2^53, 2^63 and up to 2^64-2 (one task; a thread with tid 2^31-1), "
                "durations on every unit switch of print_time_unit (999 ns .. 100 h, 2^31, 2^32, 2^53), and every random trace drawn "
                "from a timing class (small | first time next to 2^31/2^32/2^53/2^63 or 104/400 days of uptime | increments up to hours "
                "and 2^48 | last record at 2^64-2), tids up to 2^31-1, sample times up to 61 s; all arithmetic on the check's side is "
                "exact (Python int, JSON numbers read as Decimal); "
                "scheduling events: traces with a perf-cpu0.dat in which tasks are scheduled out (blocked or pre-empted) and in again "
                "inside open calls x {chrome, flame, graphviz, mermaid, graph}, each compared with the model (events as calls named "
                "linux:schedule) and with the model of dump_replay_event as it is; "
                "distinct = distinct (mode, number of call paths, tasks, sampling, open calls) / (defect shapes, tasks) classes",
        "traces": len(traces),
        "scheduling_events": {"traces": stats["sched_traces"], "events": stats["sched_events"],
                              "pre_empted": stats["sched_events_pre_empted"], "tool_runs": stats["sched_runs"],
                              "runs_matching_fixed_model": stats["sched_match_fixed_model"],
                              "runs_matching_model_as_it_is_only": stats["sched_match_model_as_it_is"]},
        "sessions_and_thread_forks": {
            "what": "directories in which a task has 2-3 sessions over time (exec chain: own executable, map and symbol table per "
                    "session, the same addresses named differently) and processes whose secondary thread (tid != pid) forks; "
                    "`uftrace graph` per session and dump --flame-graph/--graphviz/--mermaid against an independent per-session "
                    "aggregation (harness/c15_sessfork.py; monitor only, not in the Lean model)",
            "directories": stats["sessfork_dirs"], "exec_chains": stats["sessfork_dirs_exec_chain"],
            "thread_fork_processes": stats["sessfork_dirs_thread_fork"], "sessions": stats["sessfork_sessions"],
            "forks_by_secondary_threads": stats["sessfork_forks_by_secondary_thread"], "tool_runs": stats["sessfork_runs"]},
        "numeric_range": {"ts_text_values_read_back": stats["tsval"],
                          "chrome_runs_with_first_time_ge_2^53": stats["chrome_runs_first_time_ge_2^53"],
                          "chrome_events_with_time_ge_2^53": stats["chrome_events_time_ge_2^53"],
                          "graph_family_runs_with_first_time_ge_2^53": stats["runs_first_time_ge_2^53"],
                          "graph_family_runs_spanning_24_minutes_or_more": stats["runs_span_ge_24min"],
                          "graph_runs_matching_fixed_time_unit_model": stats["graph_match_fixed_model"],
                          "graph_runs_matching_time_unit_table_as_it_is": stats["graph_match_prefix_model"],
                          "timing_classes": {k: sum(1 for t_ in traces if t_.desc.endswith("[%s]" % k)) for k in sorted(set(TIMINGS))}},
        "runs_per_mode": {m: stats["run_" + m] for m in MODES},
        "h4_cases": stats["h4"], "h4_disagreements": stats["h4_disagree"],
        "json_recogniser_probes": stats["json_probe"], "json_recogniser_probes_valid": stats["json_probe_valid"],
        "body_probes": stats["body_probe"],
        "chrome_runs_matching_fixed_model": stats["chrome_match_fixed_model"],
        "chrome_runs_with_argument_payloads": stats["chrome_arg_runs"],
        "chrome_events_with_argument_payloads": stats["chrome_arg_events"],
        "chrome_runs_matching_prefix_model": stats["chrome_match_prefix_model"],
        "graph_family_runs_matching_model": stats["graph_family_match"],
        "flame_runs_matching_fixed_model": stats["flame_match_fixed_model"],
        "flame_runs_matching_prefix_model": stats["flame_match_prefix_model"],
        "defects_seen": {k[7:]: v for k, v in stats.items() if k.startswith("defect_")},
        "violations_total": nviol[0],
        "exhaustive": False,
        "samples": samples,
        "input_distribution": "symbol names: 25% plain, 60% mixes of quotes/backslashes/control bytes/0x7f/bytes>=0x80/separators, "
                              "15% long (150-330 bytes); exename basenames and command lines from the same alphabet; "
                              "times strictly increasing across tasks (zero increments inside a task); string values: 6% NULL marker, "
                              "6% empty, 8% plain, else 1-8 units from quotes/backslashes/control bytes/utf-8/0xff/format directives/"
                              "escape look-alikes or random bytes, 8% with an embedded NUL; chars: 60% from {0,9,10,34,39,92,127,128,255,…}; "
                              "pointers: 70% into a symbol (start, +1, last byte), 10% NULL, else gaps / outside the map",
    })
    ctx.assumptions += [
        "symbol names contain no NUL, newline or TAB (line format of .sym files) and do not start with '_' (no demangling)",
        "exename without whitespace or '/' in its basename (sid-*.map is parsed with sscanf %s)",
        "traces are well formed: per task a prefix of a balanced call sequence, EXIT records carry the address of their ENTRY",
        "isprint() is the C-locale one (LC_ALL=C); info has the CMDLINE bit (always written by uftrace record)",
        "functions whose records carry arguments have plain names (the info file's argspec selects them by name); the text "
        "of the printf formats (integers, floats, %p, <ENUM?>, struct) is computed by the check and handed to the model as given "
        "text, enum names and struct type names come from a fixed harmless set; --color=no",
        "the sampled flame count is specified as in the comment of adjust_fg_time: (time - sum over child calls of floor(dur/st)*st) / st",
        "record times are any uint64 value below 2^64-1 (that value is the readers' end-of-data mark), non-decreasing per task; one trace spans less than 2^62 ns and a single duration is below "
        "2^63 ns (print_time_unit takes an int64_t); a printed time W.FFF unit is read as W units + FFF steps (ns, us, ms, seconds, minutes)",
    ]
    return C.finish(ctx)


def replay(ctx, path):
    r = json.load(open(path))
    if "sessfork" in r:
        print(json.dumps({k: r.get(k) for k in ("kind", "what", "mode", "theorem")}, indent=1))
        ctx.snapshot()
        uftrace, version, h4, err = build_impl(ctx)
        if err:
            print("build failed: " + err)
            return 2
        SF, K = sessfork_module()
        seen = []
        SF.run_family(K, ctx, uftrace, lambda name, obj, nfi=False, finding=None: seen.append((name, obj.get("what"))), Counter(),
                      only=SF.MDir.from_json(r["sessfork"]))
        for name, what in seen:
            print("VIOLATION property=C15 (replay) %s: %s" % (name, what))
        print("replayed on %s: %s" % (C.REPO, "reproduced (%d violation(s))" % len(seen) if seen else "not reproduced"))
        return 1 if seen else 0
    if "trace" not in r:
        print(json.dumps(r, indent=1)[:4000])
        return 0
    tr = Trace.from_json(r["trace"])
    print(json.dumps({k: r.get(k) for k in ("kind", "what", "mode", "finding", "theorem")}, indent=1))
    rc = run_cases(ctx, tr)
    print("replayed on %s: %s" % (C.REPO, "reproduced (%d violation(s), %d known finding(s))" %
                                  (len(ctx.violations), len(ctx.known_printed)) if rc or ctx.known_printed else "not reproduced"))
    return rc
