"""C04 — A crashing or killed tracee still leaves a replayable prefix trace.
Lean: Uft/Model/{Shmem,Writers,Crash}.lean, Uft/Lemmas/{Shmem,Writers,Crash}.lean, Uft/Props/C04.lean.
Tie (a) H1 (harness/h1_c03_driver.c, real libmcount as producer): random schedules in which threads are
        stopped (kill / mtd_dtor / finish trigger) and the recorder's shutdown sequence is played; state
        compared with the model after every step; the crash handler itself (SIGABRT raised in-process at a
        call depth below and beyond --max-stack) against Crash.segvFlush.
    (b) e2e: generated multi-threaded programs terminate themselves at their k-th traced event by SIGKILL /
        SIGSEGV / abort / _exit / execv / finish trigger / exit under the snapshot's real `uftrace record`;
        the recorder must terminate, leave a complete directory, every <tid>.dat must be whole records forming
        a prefix of the thread's ground-truth log (with the lower bounds the property states), and
        replay / report / dump / info must accept the directory.
Every termination is crossed with record-time filter option sets:
    in-process (hist_*): a random call history through the real hooks under -N / -F / -D / -t / -Z / -L / triggers
        (depth, notrace, trace_off) chosen relative to the call stack at the fatal moment, ended by a real SIGSEGV /
        SIGABRT (libmcount's segv_handler) or a finish trigger, against the hook model + Crash.segvFlush (uv_C04: `H …`,
        `HSEGV`); monitor: the calls still open in the record stream = the recordable open calls the documented filter
        semantics select (corpus/C04/filtered_flush.json first);
    e2e: SIGKILL / SIGSEGV / abort / _exit / execv / finish trigger / exit / signal trigger at a point where the
        thread has open calls whose ENTRY is still pending, under -N on the dying function or an ancestor, -D at or
        below its depth, -F subtrees, -t 5s, -Z, --no-libcall, -N on the trigger function; monitor: each <tid>.dat is a
        whole-record prefix of what `spec_stream` (uftrace-record.md FILTERS) selects from the thread's own log, the
        terminating thread's file includes the ENTRY of its recordable open calls.
    fork / exec e2e (EXEC_SCEN): exec from the initial task / a forked child / a thread / a grandchild, _exit / SIGKILL /
        abort in a forked child; a parent that execs WHILE its forked child is still recording (pipe handshake, the new
        image waits for its TASK line in task.txt and then releases the child, which makes N calls - N small and N
        filling several 4k buffers - and ends normally / by _exit / by SIGSEGV): what the child records must not depend
        on its parent's exec; tracing switched off by something that does not flush (--signal SIGUSR1@trace_off raised
        by the thread itself, or another thread's -T f@trace_off) while calls are open, then SIGSEGV / abort before
        another function is entered: the crashing thread's open calls are in its file.
    probe: a fork that is announced (FORK_START) but never completes (clone fails / the process is killed at clone):
        `uftrace record` must terminate (finding F-C04-FORK-NOEND)."""
import glob
import json
import os
import re
import shutil
import subprocess
from concurrent.futures import ThreadPoolExecutor

from lib import common as C, mcgen, mcheck
from checks import c03
from translators import c04_taskstart

MODES = {1: "SIGKILL", 2: "SIGSEGV", 3: "abort", 4: "_exit", 5: "execv", 6: "finish-trigger", 7: "exit", 8: "signal-trigger"}
FLUSHING = (2, 3, 5, 6, 7)     # the thread's open calls are flushed before it goes


class KillGen(c03.Gen):
    """random schedule, then every thread stops (kill / finish / finish trigger) and the recorder shuts down"""

    def __init__(self, rng, nthreads, nwriters, maxsize, nops, pfail, payloads, how):
        self.how = how
        self.dead_losts = how == "ftrig"      # see c03.norm_state
        super().__init__(rng, nthreads, nwriters, maxsize, nops, pfail, payloads)

    def drain(self):
        rng = self.rng
        live = [k for k in sorted(self.prepared) if k not in self.stopped]
        if self.how == "ftrig" and live:
            k = rng.choice(live)
            # the triggering thread: mcount_trace_finish (FINISH, pipe closed), then mtd_dtor
            self.ops.append(("P %d ftrig" % k, ["P %d ftrig" % k, "P %d finish" % k]))
            self.stopped.add(k)
            self.closed = True
            for j in live:
                if j != k:
                    if rng.random() < 0.5:
                        self.ops.append(("P %d finish" % j, ["P %d finish" % j]))
                    else:
                        self.ops.append(("K %d" % j, ["K %d" % j]))
                    self.stopped.add(j)
        else:
            for k in live:
                if self.how == "kill" or rng.random() < 0.6:
                    self.ops.append(("K %d" % k, ["K %d" % k]))
                else:
                    self.ops.append(("P %d finish" % k, ["P %d finish" % k]))
                self.stopped.add(k)
        # recorder shutdown: stop_tracing drains the pipe, stop_all_writers, writers finish, flush_shmem_list,
        # record_remaining_buffer
        n = 3 * sum(len(v) for v in self.emitted.values()) + 8 * self.nt + 8
        order = rng.random() < 0.5
        for _ in range(min(n, 300)):
            self.ops.append(("R read", ["R read"]))
            if order:
                op = "W %d %s" % (rng.randrange(self.nw), rng.choice(["pick", "write", "splice"]))
                self.ops.append((op, [op]))
        self.ops.append(("R stop", ["R stop"]))
        for w in range(self.nw):
            for _ in range(40):
                for what in ("write", "write", "splice"):
                    self.ops.append(("W %d %s" % (w, what), ["W %d %s" % (w, what)]))
        if rng.random() < 0.5:
            self.ops.append(("R flushall", ["R flushall"]))
        else:
            for k in sorted(self.prepared):
                for i in range(0, 12):
                    self.ops.append(("R flush %d %d" % (k, i), ["R flush %d %d" % (k, i)]))
            self.ops.append(("R flushall", ["R flushall"]))
        for _ in range(60):
            self.ops.append(("R remaining", ["R remaining"]))


class StepGen(c03.Gen):
    """one producer thread (the driver's main thread), a random schedule, then one record_trace_data() call
    executed instruction by instruction under ptrace: after every instruction the driver computes what the
    thread's file would hold if the process were killed right there and the recorder shut down"""

    def drain(self):
        if 1 in self.stopped:
            return            # the random prefix already ended the thread: nothing to step
        if 1 not in self.prepared:
            self.prepared.add(1)
            self.ops.append(("P 1 prepare", ["P 1 prepare"]))
        self.rtd(1)
        h, ms = self.ops.pop()
        self.ops.append(("STEP" + h[1:], [ms[0].replace(" batch ", " steps ", 1)]))


def views_of(line):
    m = re.search(r"views=(\S*)", line)
    return m.group(1).split("|") if m else []


def view_problem(views):
    """C04 on the implementation's own kill views: each is whole records only and extends the previous one"""
    prev = []
    for v in views:
        items = [x for x in v.strip("[]").split(",") if x]
        if any(x.startswith("~") or x.startswith("TRAIL") for x in items):
            return "killed at this instruction the file would end with a torn record: %s" % v
        if items[:len(prev)] != prev:
            return "kill views do not grow by appending: %s after %s" % (v, prev)
        prev = items
    return None


def run_segv(ctx, exe, idx, ncyg, sig, maxstack):
    """SIGABRT/SIGSEGV raised in-process after `ncyg` -finstrument-functions entries.  Plays the recorder's
    shutdown on what the dead process left (FIFO + /dev/shm) and decodes the flushed records."""
    r = c03.run_harness(ctx, exe, 9000 + idx, 4096, ["SEGVSELF %d %d" % (ncyg, sig)],
                        extra_env={"UFTRACE_MAX_STACK": str(maxstack)})
    out = {"rc": r["rc"], "recs": None, "stderr": r["stderr"][-400:]}
    syms = []
    for l in r["lines"]:
        if l.startswith("SYMS"):
            syms = [int(x, 16) for x in l.split()[1:]]
    started, ended = [], []
    for typ, payload in r["msgs"]:
        name = payload.decode(errors="replace").rstrip("\0")
        if typ == "REC_START":
            started.append(name)
        elif typ == "REC_END":
            ended.append(name)
    recs = []
    for name in started:
        if name in ended:
            ended.remove(name)
        try:
            data = open("/dev/shm" + name, "rb").read()
        except OSError:
            continue
        size, flag = int.from_bytes(data[0:4], "little"), int.from_bytes(data[4:8], "little")
        if not (flag & 4):
            continue
        body = data[16:16 + size]
        for off in range(0, len(body) - 15, 16):
            w = int.from_bytes(body[off + 8:off + 16], "little")
            typ, depth, addr = w & 3, (w >> 6) & 0x3ff, w >> 16
            fn = next((i for i, a in enumerate(syms) if a <= addr < a + 16), None)
            recs.append("%s:%d:%s" % ("EXLV"[typ], depth, fn if fn is not None else hex(addr)))
    out["recs"] = recs
    c03.cleanup_run(r)
    return out


def model_segv(fixed, maxstack, idx, written):
    line = "SEGV %d %d %d %s" % (1 if fixed else 0, maxstack, idx, " ".join("1" if w else "0" for w in written))
    return C.norm(c03.run_model("C04", [line])[0])



# --------------------------------------------------------------------------------------------------
# record-time filters: the documented semantics applied to a thread's ground-truth history
# --------------------------------------------------------------------------------------------------
MAIN_FN = 1 << 20      # main() encloses everything the initial thread does (it is traced, and not one of the f<i>)


class Flt:
    """an option set of `uftrace record`: -N / -F functions, -D, a time filter no call of the program reaches
    (-t 5s), -Z, --no-libcall, -N on the finish-trigger function"""

    def __init__(self, name="none", N=(), F=(), D=None, thuge=False, Z=None, nolib=False, nfin=False):
        self.name, self.N, self.F, self.D, self.thuge, self.Z, self.nolib, self.nfin = (
            name, set(N), set(F), D, thuge, Z, nolib, nfin)

    def args(self):
        a = []
        for f in sorted(self.F):
            a += ["-F", "^f%d$" % f]
        for f in sorted(self.N):
            a += ["-N", "^f%d$" % f]
        if self.nfin:
            a += ["-N", "^finish_trigger_fn$"]
        if self.D is not None:
            a += ["-D", str(self.D)]
        if self.thuge:
            a += ["-t", "5s"]
        if self.Z is not None:
            a += ["-Z", str(self.Z)]
        if self.nolib:
            a += ["--no-libcall"]
        return a

    def plain(self):
        return not (self.N or self.F or self.D is not None or self.thuge or self.Z is not None)


def spec_stream(ev, flt, sizes, outer=()):
    """uftrace-record.md FILTERS: -F f = f and what it calls; -N f = not f nor what it calls; -D n = n nested levels
    (counted anew from a -F match); -Z n = only functions of at least n bytes; -t T = calls that ran at least T and
    their callers - with a T no call reaches: only the calls still open when the trace ends.
    `outer`: traced functions that enclose the whole history (main() around the initial thread's calls).
    -> [(code, index into ev)] of the records the thread's history selects, in order; (open visible calls, oldest first)"""
    optin = bool(flt.F)
    D = flt.D if flt.D is not None else 1024
    out = []
    stack = []          # (fn, visible, saved env, position of its ENTRY in out or None)
    inc = outc = depth = 0
    pre = [(2 * f, -1) for f in outer]
    for c, i in pre + [(c, i) for i, c in enumerate(ev)]:
        fn = c // 2
        if c % 2 == 0:
            saved = (inc, outc, depth)
            vis = False
            if outc == 0:
                matched = True
                if fn in flt.F:
                    inc, depth = inc + 1, 0
                elif fn in flt.N:
                    outc, depth = outc + 1, 0
                elif optin and inc == 0:
                    matched = False
                if matched and depth < D:
                    depth += 1
                    vis = outc == 0 and (flt.Z is None or sizes.get(fn, 1 << 30) >= flt.Z)
            vis = vis and i >= 0
            stack.append((fn, vis, saved))
            if vis:
                out.append((c, i))
        else:
            # the program's own log nests properly per thread
            while stack and stack[-1][0] != fn:
                stack.pop()
            if not stack:
                continue
            _, vis, saved = stack.pop()
            inc, outc, depth = saved
            if vis:
                out.append((c, i))
    opens = [f for f, vis, _ in stack if vis]
    if flt.thuge:
        # nothing that returned is kept; the ENTRY records of the open visible calls are what a flush adds
        st2 = []
        for c, i in out:
            if c % 2 == 0:
                st2.append((c, i))
            else:
                st2.pop()
        return st2, opens
    return out, opens


def filter_sets(rng, stack, sizes, mode, allfns, nouter=0):
    """option sets relative to the call stack (outermost first) the terminating thread has at the fatal event;
    `nouter`: traced levels around it (main() for the initial thread)"""
    top = stack[-1]
    lv = len(stack) + nouter
    sets = {"none": Flt(), "N-top": Flt("N-top", N=[top]), "D-eq": Flt("D-eq", D=lv),
            "t-huge": Flt("t-huge", thuge=True), "nolib": Flt("nolib", nolib=True),
            "N-top+t-huge": Flt("N-top+t-huge", N=[top], thuge=True),
            "D-eq+t-huge": Flt("D-eq+t-huge", D=lv, thuge=True)}
    if len(stack) > 1:
        anc = rng.choice(stack[:-1])
        sets["N-anc"] = Flt("N-anc", N=[anc])
        sets["D-low"] = Flt("D-low", D=rng.randint(1, lv - 1))
        sets["F-anc"] = Flt("F-anc", F=[rng.choice(stack[:-1])])
        sets["F-anc+N-top"] = Flt("F-anc+N-top", F=[stack[0]], N=[top])
        sets["D-low+nolib"] = Flt("D-low+nolib", D=rng.randint(1, lv - 1), nolib=True)
    sets["F-top"] = Flt("F-top", F=[top])
    other = [f for f in allfns if f not in stack]
    if other:
        sets["F-other"] = Flt("F-other", F=[rng.choice(other)])
        sets["N-other"] = Flt("N-other", N=[rng.choice(other)])
    if top in sizes:
        # the function the thread dies in (and every smaller one) is below the size threshold
        sets["Z-top"] = Flt("Z-top", Z=sizes[top] + 1)
        sets["Z-top+t-huge"] = Flt("Z-top+t-huge", Z=sizes[top] + 1, thuge=True)
    if mode == 6:
        # the trigger function must reach mcount_entry_filter_record for tracing to finish at all: on the -pg path a
        # function inside a -N region, outside every -F region or beyond -D is dropped before its triggers are looked at
        # (documented: filters come first).  So: the trigger function is the deepest level -D admits, or it is itself the
        # -N / size-filtered function
        for name in ("N-top", "N-anc", "D-low", "D-low+nolib", "F-other", "F-anc+N-top", "N-top+t-huge"):
            sets.pop(name, None)
        sets["D-eq"] = Flt("D-eq", D=lv + 1)
        sets["D-eq+t-huge"] = Flt("D-eq+t-huge", D=lv + 1, thuge=True)
        sets["N-fin"] = Flt("N-fin", nfin=True)
        sets["N-fin+t-huge"] = Flt("N-fin+t-huge", nfin=True, thuge=True)
    return sets


def stack_at(ev, n):
    st = []
    for c in ev[:n]:
        if c % 2 == 0:
            st.append(c // 2)
        elif st:
            st.pop()
    return st


def pending_points(ev, lo=6, hi=2500, chain=3):
    """event counts k such that the last `chain` events before the fatal one are ENTRYs: the thread dies with open
    calls whose ENTRY record has not been written yet (nothing returned since they were entered)"""
    return [k for k in range(max(lo, chain), min(len(ev), hi) + 1) if all(c % 2 == 0 for c in ev[k - chain:k])]


# --------------------------------------------------------------------------------------------------
# in-process: a call history through the real hooks under record-time filters, ended by a real SIGSEGV / SIGABRT
# (libmcount's segv_handler) or by a finish trigger, against the hook model + Crash.segvFlush
# --------------------------------------------------------------------------------------------------
HIST_ENDS = ("segv", "abrt", "finish")


def hist_stack(ops):
    st = []
    for op in ops:
        if op[0] == "E":
            st.append(op[1])
        elif op[0] == "X" and st:
            st.pop()
    return st


def hist_opts(rng, stack, end, fin):
    """-> (mcgen.Opts, family name, core?): option sets relative to the call stack at the fatal moment, plus random ones"""
    top = stack[-1]
    anc = rng.choice(stack[:-1]) if len(stack) > 1 else top
    fams = ["N-top", "N-anc", "D-low", "D-eq", "Z", "F-anc", "t-huge", "t-small", "L-out", "L-in", "T-depth", "T-traceoff",
            "T-notrace", "N-top+t-huge", "F-anc+D", "random", "random", "random-core"]
    if end == "finish":
        fams += ["N-fin", "N-fin", "Z-fin"]
    name = rng.choice(fams)
    o = mcgen.Opts()
    o.patt = rng.choice(["regex", "regex", "glob", "simple"])
    core = True
    if name == "N-top":
        o.N = [top]
    elif name == "N-anc":
        o.N = [anc]
    elif name == "D-low":
        o.D = rng.randint(1, max(1, len(stack) - 1))
    elif name == "D-eq":
        o.D = len(stack)
    elif name in ("Z", "Z-fin"):
        o.Z = rng.choice([23, 100, 300])
    elif name == "F-anc":
        o.F = [anc]
    elif name == "t-huge":
        o.t = 1000000
    elif name == "t-small":
        o.t = rng.choice([1, 5, 10, 50])
    elif name == "L-out":
        o.L = ("a" if top in mcgen.FILES["a"] else "b", False)
        core = False
    elif name == "L-in":
        o.L = (rng.choice("ab"), True)
        core = False
    elif name == "T-depth":
        o.T = [(anc, [("depth", rng.randint(1, 2))])]
        core = False
    elif name == "T-traceoff":
        o.T = [(rng.choice(stack), [("trace_off", None)])]
        core = False
    elif name == "T-notrace":
        o.T = [(rng.choice(stack), [("notrace", None)])]
        core = False
    elif name == "N-top+t-huge":
        o.N, o.t = [top], 1000000
    elif name == "F-anc+D":
        o.F, o.D = [anc], rng.randint(1, 3)
    elif name == "N-fin":
        o.N = [fin]
    elif name == "random-core":
        o = mcgen.rand_opts(rng, rich=False)
        o.C, o.L, o.T, o.trace_off, o.max_stack = [], None, [], False, None
    else:
        o = mcgen.rand_opts(rng, rich=True)
        o.max_stack = None
        core = False
    if end == "finish":
        o.T = [(f, a) for f, a in o.T if f != fin] + [(fin, [("finish", None)])]
        o.F = [f for f in o.F if f != fin] if name != "N-fin" else o.F
    return o, name, core and not o.C and not o.L and not o.trace_off


def hist_case(rng, idx):
    ops = mcgen.rand_forest(rng, max_calls=rng.choice([6, 12, 25]), max_depth=rng.choice([3, 5, 7]), zero_dur=0.1)
    e_idx = [j for j, op in enumerate(ops) if op[0] == "E"]
    # stop inside the forest, preferably deep: after an ENTRY
    cut = rng.choice(e_idx[len(e_idx) // 3:] or e_idx)
    pre = ops[:cut + 1]
    stack = hist_stack(pre)
    end = rng.choice(HIST_ENDS)
    # the function that carries the finish trigger is called for the first time at the end of the history
    free = [f for f in range(9) if not any(op[0] == "E" and op[1] == f for op in pre)]
    if not free and end == "finish":
        end = rng.choice(HIST_ENDS[:2])
    fin = rng.choice(free) if free else 0
    now = max(op[1] for op in pre if op[0] == "T")
    if end == "finish":
        pre += [("T", now + rng.choice([1, 7, 20])), ("E", fin)]
    o, fam, core = hist_opts(rng, stack, end, fin)
    kind = rng.choice(["pg", "cyg", "mix"])
    kf = (lambda fn, i, kind=kind: kind if kind != "mix" else ("pg" if (fn + i) % 2 else "cyg"))
    lines = mcgen.script_lines(pre, kf)[:-1]       # without END
    return {"opts": o, "family": fam, "core": core, "kind": kind, "end": end, "fin": fin, "ops": pre, "lines": lines,
            "stack": stack, "idx": idx}


def hist_corpus():
    """corpus/C04/filtered_flush.json -> cases in the shape of hist_case()"""
    try:
        cs = json.load(open(os.path.join(C.VERIF, "corpus", "C04", "filtered_flush.json")))["cases"]
    except (OSError, ValueError, KeyError):
        return []
    out = []
    for i, c in enumerate(cs):
        o = mcgen.Opts()
        for k, v in c.get("opts", {}).items():
            setattr(o, k, [(fn, [tuple(a) for a in acts]) for fn, acts in v] if k == "T" else v)
        pre = [tuple(op) for op in c["ops"]]
        fin = c.get("fin", 0)
        if c["end"] == "finish":
            now = max(op[1] for op in pre if op[0] == "T")
            pre += [("T", now + 10), ("E", fin)]
            o.T = list(o.T) + [(fin, [("finish", None)])]
        kind = c["kind"]
        kf = (lambda fn, j, kind=kind: kind if kind != "mix" else ("pg" if (fn + j) % 2 else "cyg"))
        core = not (o.T and any(a != "finish" for _, acts in o.T for a, _ in acts)) and not o.L and not o.C
        out.append({"opts": o, "family": "corpus: " + c["name"], "core": core, "kind": kind, "end": c["end"], "fin": fin,
                    "ops": pre, "lines": mcgen.script_lines(pre, kf)[:-1], "stack": hist_stack(pre), "idx": 900 + i})
    return out


def hist_env(o):
    env = mcgen.to_env(o)
    if "UFTRACE_LOCATION" in env:
        env["UFTRACE_LOCATION"] = env["UFTRACE_LOCATION"].replace("h1_driver.c", c03.DRIVER)
    return env


def run_hist_case(ctx, exe, c, sizes):
    sig = {"segv": 11, "abrt": 6}.get(c["end"])
    script = ["TICK 0"] + c["lines"] + (["RAISE %d" % sig] if sig else [])
    r = c03.run_harness(ctx, exe, 20000 + c["idx"], 1 << 20, script, extra_env=hist_env(c["opts"]))
    syms = []
    for l in r["lines"]:
        if l.startswith("SYMS"):
            syms = [int(x, 16) for x in l.split()[1:]]
    toks = []
    for typ, payload in r["msgs"]:
        if typ != "REC_START":
            continue
        name = payload.decode(errors="replace").rstrip("\0")
        try:
            data = open("/dev/shm" + name, "rb").read()
        except OSError:
            continue
        size = int.from_bytes(data[0:4], "little")
        t = mcheck.decode(data[16:16 + size].hex(), syms, sizes)
        if t != "-":
            toks += t.split()
    c03.cleanup_run(r)
    c["impl"] = toks
    c["rc"] = r["rc"]
    c["stderr"] = r["stderr"][-300:]
    c["bad_ops"] = [l for l in r["lines"] if "BAD" in l or l.startswith("bad-op") or l.startswith("survived")]
    return c


def hist_model(cases, sizes, fixed=True):
    """the same histories on the hook model (uv_C04: `H …` = Driver.Mcount, `HSEGV` = Crash.segvFlush)"""
    lines, spans = [], []
    for c in cases:
        pre = ["H RESET"] + ["H " + l for l in mcgen.to_model(c["opts"], sizes)]
        body = ["H " + l for l in c["lines"]] + (["HSEGV %d" % (1 if fixed else 0)] if c["end"] != "finish" else [])
        spans.append((len(lines) + len(pre), len(body)))
        lines += pre + body
    out = c03.run_model("C04", lines)
    for c, (a, n) in zip(cases, spans):
        toks = []
        for l in out[a:a + n]:
            m = re.search(r"recs=\[?([^\]]*)\]?", l)
            if m and m.group(1).strip() not in ("-", ""):
                toks += m.group(1).split()
        c["model"] = toks
        c["model_last"] = out[a + n - 1] if n else ""
    return cases


def hist_monitor(c, sizes):
    """C04's clause on the implementation's own output: the calls that are still open in the record stream (ENTRY
    without EXIT) are exactly the open calls the documented filter semantics select (the RECORDABLE open calls)"""
    if not c["core"]:
        return None
    o = c["opts"]
    flt = Flt("hist", N=o.N, F=o.F, D=o.D, Z=o.Z)
    ev, st = [], []
    for op in c["ops"]:
        if op[0] == "E":
            st.append(op[1])
            ev.append(2 * op[1])
        elif op[0] == "X" and st:
            ev.append(2 * st.pop() + 1)
    opens = spec_stream(ev, flt, sizes)[1]
    if c["end"] == "finish":
        # the trigger is looked at only when the filters let the function through (inside a -N region, outside every
        # -F region or beyond -D it is not: tracing goes on); the function itself may be the -N / size-filtered one
        f2 = Flt("hist", N=[f for f in o.N if f != c["fin"]], F=o.F, D=o.D)
        o2 = spec_stream(ev, f2, sizes)[1]
        if len(o2) != len(spec_stream(ev[:-1], f2, sizes)[1]) + 1:
            return None
    got = []
    for t in c["impl"]:
        p = t.split(":")
        if p[0] == "E":
            got.append(p[2])
        elif p[0] == "X" and got:
            got.pop()
    want = [str(f) for f in opens]
    if got != want:
        return ("open calls in the record stream after %s: %s; the recordable open calls of the history under %s are %s "
                "(call stack at that moment, outermost first: %s)" % (
                    {"segv": "SIGSEGV", "abrt": "SIGABRT", "finish": "the finish trigger"}[c["end"]],
                    ["f%s" % x for x in got], mcgen.to_env(o), ["f%s" % x for x in want], ["f%d" % x for x in hist_stack(c["ops"])]))
    return None

# --------------------------------------------------------------------------------------------------
# e2e
# --------------------------------------------------------------------------------------------------
def flushes(mode, flt=None):
    """does the terminating thread flush its open calls?  exec / exit do it in libmcount's PLT hook of the call"""
    if flt is not None and flt.nolib and mode in (5, 7):
        return False
    return mode in FLUSHING


def expected_bounds(gt, k, killer, kill_at, mode, flt=None):
    """-> (lower, upper): the thread's stream must be gt[:n] for some lower <= n <= upper."""
    ev = gt[k]["ev"]
    n = len(ev)
    if k == killer:
        n = min(n, kill_at)
        if flushes(mode, flt):
            # every event up to the fatal one is an executed call; an EXIT logged right before dying has not
            # returned yet
            need = n if (n == 0 or ev[n - 1] % 2 == 0) else n - 1
            return need, (len(ev) if mode in (6, 7) else n)
    # a return that was followed by another event has completed its hook: its records are in a buffer
    low = 0
    lim = n if (k != killer or mode == 6) else n
    for i in range(min(lim, len(ev)) - 1):
        if ev[i] % 2 == 1:
            low = i + 1
    if mode in (6, 7, 8):
        # tracing stops (finish trigger; signal trigger; exit() runs libmcount's atexit handler first), the program goes on:
        # later events are not recorded; nothing is known about how far the other threads were at that moment
        return (low if k == killer else 0), len(ev)
    return low, len(ev)


def check_crash_run(ctx, d, exe, datadir, gt, nt, killer, kill_at, mode, rc, err, flt=None):
    bad = []
    syms = c03.sym_ranges(exe)
    flt = flt or Flt()
    sizes = {fn: sz for _, sz, fn in syms if fn >= 0}
    for f in ("info", "task.txt"):
        if not os.path.exists(os.path.join(datadir, f)) or os.path.getsize(os.path.join(datadir, f)) == 0:
            bad.append("data directory incomplete: no %s" % f)
    if not glob.glob(os.path.join(datadir, "sid-*.map")):
        bad.append("data directory incomplete: no session map")
    if not glob.glob(os.path.join(datadir, "*.sym")):
        bad.append("data directory incomplete: no symbol file")
    nrec = 0
    for k, g in enumerate(gt):
        if not g["tid"]:
            continue
        low, up = expected_bounds(gt, k, killer, kill_at, mode, flt)
        if not flt.plain():
            # "what the thread executed" = the documented filter semantics applied to its history
            flushing = k == killer and flushes(mode, flt)
            outer = (MAIN_FN,) if k == 0 else ()
            if flt.thuge:
                lowS = [c for c, _ in spec_stream(g["ev"][:low], flt, sizes, outer)[0]] if flushing else []
                upS = lowS if flushing else [c for c, _ in spec_stream(g["ev"], flt, sizes, outer)[0]]
            else:
                S = spec_stream(g["ev"][:up], flt, sizes, outer)[0]
                upS = [c for c, _ in S]
                if flushing:
                    lowS = [c for c, _ in spec_stream(g["ev"][:low], flt, sizes, outer)[0]]
                else:
                    # the EXIT record of a selected call whose hook has completed is in a buffer, and so is everything
                    # selected before it (the ENTRY of a selected call is written with the first record below it)
                    last = max([i for c, i in S if c % 2 == 1 and i < low] or [-1])
                    lowS = [c for c, i in S if i <= last]
            f = os.path.join(datadir, "%d.dat" % g["tid"])
            own = []
            if os.path.exists(f):
                codes, problems, n = c03.decode_dat(f, syms)
                nrec += n
                bad += ["thread %d: %s" % (k, p) for p in problems]
                own = [c for c in codes if isinstance(c, int)]
                if any(isinstance(c, tuple) and c[0] == "LOST" for c in codes):
                    bad.append("thread %d: LOST record" % k)
            who = "thread %d%s" % (k, " (the terminating thread)" if k == killer else "")
            if own != upS[:len(own)]:
                j = next((i for i, (a, b) in enumerate(zip(own, upS)) if a != b), min(len(own), len(upS)))
                bad.append("%s: file is not a prefix of the calls %s selects from what it executed (differs at record %d: "
                           "file %s, selected %s; file has %d records, %d selected)" % (
                               who, " ".join(flt.args()), j, own[j:j + 4], upS[j:j + 4], len(own), len(upS)))
            elif own[:len(lowS)] != lowS:
                opens = [x for x in spec_stream(g["ev"][:low], flt, sizes, outer)[1]] if flushing else []
                bad.append("%s: file has %d of the records %s selects, at least %d were complete when it stopped%s "
                           "(missing from record %d: %s)" % (
                               who, len(own), " ".join(flt.args()), len(lowS),
                               " - the ENTRY records of its recordable open calls %s must be included" % (
                                   ["f%d" % x for x in opens],) if flushing else "", len(own), lowS[len(own):len(own) + 6]))
            continue
        f = os.path.join(datadir, "%d.dat" % g["tid"])
        if not os.path.exists(f):
            if low > 0:
                bad.append("thread %d: no data file although %d events must have been recorded" % (k, low))
            continue
        codes, problems, n = c03.decode_dat(f, syms)
        nrec += n
        bad += ["thread %d: %s" % (k, p) for p in problems]
        own = [c for c in codes if isinstance(c, int)]
        if any(isinstance(c, tuple) and c[0] == "LOST" for c in codes):
            bad.append("thread %d: LOST record" % k)
        ev = g["ev"]
        if own != ev[:len(own)]:
            j = next((i for i, (a, b) in enumerate(zip(own, ev)) if a != b), min(len(own), len(ev)))
            bad.append("thread %d: file is not a prefix of the executed calls (differs at record %d: file %s, "
                       "executed %s)" % (k, j, own[j:j + 4], ev[j:j + 4]))
        elif len(own) < low:
            bad.append("thread %d%s: file has %d of the thread's records, at least %d were complete when it "
                       "stopped%s" % (k, " (the terminating thread)" if k == killer else "", len(own), low,
                                      " (its open calls must be included)" if k == killer and mode in FLUSHING else ""))
        elif len(own) > up:
            bad.append("thread %d: file has %d records, the thread executed only %d events" % (k, len(own), up))
    # the analysis commands accept the directory
    uftrace = os.path.join(ctx.src, "uftrace")
    # a trace in which the filters selected nothing at all (no <tid>.dat): "No data available" is the answer
    empty = not glob.glob(os.path.join(datadir, "*.dat"))
    for cmd in (["replay"], ["report"], ["dump"], ["info"]):
        r = subprocess.run(["timeout", "-s", "KILL", "30", uftrace] + cmd + ["--no-pager", "-d", datadir],
                           stdout=subprocess.PIPE, stderr=subprocess.PIPE, text=True, errors="replace")
        if r.returncode != 0:
            if empty and not flt.plain() and cmd[0] != "info" and "No data available" in r.stderr and r.returncode in (1, 255):
                continue
            bad.append("uftrace %s rejects the directory: rc=%d %s" % (cmd[0], r.returncode, r.stderr[-200:]))
        elif cmd[0] in ("replay", "dump") and nrec > 0 and len(r.stdout) < 10:
            bad.append("uftrace %s prints nothing for %d records" % (cmd[0], nrec))
    return bad, nrec


# --------------------------------------------------------------------------------------------------
# e2e: fork / exec / exit of children and of non-initial tasks (a tid that lives on in a new image)
# --------------------------------------------------------------------------------------------------
# roles (function family r = f{8r}..f{8r+7}): 0 initial task, 1 forked child, 2 extra thread, 3 new image after
# exec, 4 grandchild.  Every image / thread takes a slot of the shared ground-truth file in the order it starts;
# the expected content of <tid>.dat is the concatenation, in slot order, of what the slots with that tid ran.
EXEC_SRC = r"""
#define _GNU_SOURCE
#include <stdio.h>
#include <stdlib.h>
#include <stdint.h>
#include <string.h>
#include <pthread.h>
#include <unistd.h>
#include <fcntl.h>
#include <signal.h>
#include <sys/mman.h>
#include <sys/syscall.h>
#include <sys/wait.h>
#define NI __attribute__((noinline))
#define NOINST __attribute__((no_instrument_function))
#define MAXEV 60000
#define NSLOT 8
struct slot { volatile uint32_t tid, n, done, role; volatile uint8_t ev[MAXEV]; };
struct shared { volatile uint32_t nslots, go, pad[2]; struct slot slots[NSLOT]; };
static struct shared *sh;
static __thread struct slot *me;
static char *self_exe, *gt_path;
static int npost, post_kill, go_fd = -1;
static char *data_dir = "";
static volatile int off_a, off_b;
static NOINST void new_slot(int role)
{
	uint32_t i = __sync_fetch_and_add(&sh->nslots, 1);
	me = &sh->slots[i < NSLOT ? i : NSLOT - 1];
	me->role = role;
	me->tid = syscall(SYS_gettid);
}
static inline __attribute__((always_inline)) void ev(int code)
{
	struct slot *l = me;
	uint32_t n = l->n;
	if (n < MAXEV) l->ev[n] = code;
	__sync_synchronize();
	l->n = n + 1;
}
static NOINST void do_exec(void)
{
	char a[16], b[16], c[16];
	snprintf(a, sizeof(a), "%d", npost);
	snprintf(b, sizeof(b), "%d", post_kill);
	snprintf(c, sizeof(c), "%d", go_fd);
	execl(self_exe, self_exe, gt_path, "post", "0", a, b, data_dir, c, (char *)0);
	_exit(127);
}
/* the image after exec: wait (at most 8 s) until the recorder has handled this image's TASK_START, i.e. until
   task.txt has a second TASK line of this tid (the line is appended after the old image's buffer was written) */
static NOINST void wait_for_recorder(void)
{
	char path[512], pat[64], *buf = malloc(1 << 16);
	int tid = syscall(SYS_gettid);
	snprintf(path, sizeof(path), "%s/task.txt", data_dir);
	snprintf(pat, sizeof(pat), " tid=%d pid=", tid);
	for (int i = 0; i < 800; i++) {
		int fd = open(path, O_RDONLY), cnt = 0;
		if (fd >= 0) {
			ssize_t n = read(fd, buf, (1 << 16) - 1);
			close(fd);
			if (n > 0) {
				buf[n] = 0;
				for (char *q = buf; (q = strstr(q, pat)); q++) {
					char *ls = q;
					while (ls > buf && ls[-1] != '\n') ls--;
					if (!strncmp(ls, "TASK ", 5)) cnt++;
				}
			}
		}
		if (cnt >= 2) break;
		usleep(10000);
	}
	usleep(30000);
	free(buf);
}
%(funcs)s
/* scenarios 9-11: a forked child that is still running while its parent execs */
static NOINST void child_under_exec(int scen, int n, int *ready, int *go)
{
	char c = 'x';
	new_slot(1);
	f8(2);                       /* the child's buffer exists and holds records before the parent execs */
	close(ready[0]);
	close(go[1]);
	if (write(ready[1], &c, 1) != 1) _exit(3);
	if (read(go[0], &c, 1) != 1) _exit(4);    /* released by the parent's new image */
	f8(n);
	if (scen == 9) { me->done = 1; exit(0); }
	f12(scen == 10 ? 5 : 9);     /* _exit / SIGSEGV */
	_exit(5);
}
/* scenarios 12-15: tracing is switched off by something that does not flush, then the thread crashes */
static NOINST void *thread_off(void *arg)
{
	new_slot(2);
	while (!off_a) ;
	f18(0);                      /* -T f18@trace_off */
	off_b = 1;
	for (;;) ;
	return 0;
}
static NOINST void *thread_exec(void *arg)
{
	new_slot(2);
	f16((int)(long)arg);
	f19(0);
	return 0;
}
static NOINST void spin_until_killed(int base)
{
	/* keeps making traced calls until another thread's exec takes the process away */
	for (int i = 0; i < 200000; i++) {
		if (base == 0) f1(i); else f9(i);
		sh->go = 1;
		usleep(20);
	}
}
int main(int argc, char **argv)
{
	int fd, scen, npre;
	if (argc < 6) return 98;
	if (argc > 6) data_dir = argv[6];
	if (argc > 7) go_fd = atoi(argv[7]);
	self_exe = argv[0];
	gt_path = argv[1];
	npre = atoi(argv[3]);
	npost = atoi(argv[4]);
	post_kill = atoi(argv[5]);
	fd = open(gt_path, O_RDWR | O_CREAT, 0600);
	if (fd < 0 || ftruncate(fd, sizeof(struct shared)) < 0) return 99;
	sh = mmap(0, sizeof(struct shared), PROT_READ | PROT_WRITE, MAP_SHARED, fd, 0);
	if (!strcmp(argv[2], "post")) {
		new_slot(3);
		if (go_fd >= 0) {
			char c = 'x';
			f26(0);
			wait_for_recorder();
			if (write(go_fd, &c, 1) != 1) return 97;
		}
		f24(npost);
		if (go_fd >= 0) wait(0);
		me->done = 1;
		return 0;
	}
	scen = atoi(argv[2]);
	new_slot(0);
	switch (scen) {
	case 1: /* exec from the initial task */
		f0(npre);
		f3(0);
		break;
	case 2: case 5: case 6: case 7: { /* forked child: exec / _exit / SIGKILL / abort */
		pid_t pid;
		f0(2);
		pid = fork();
		if (pid == 0) {
			new_slot(1);
			f8(npre);
			if (scen == 2) f11(0);
			else f12(scen);
		}
		if (scen != 2) f0(npost);   /* the parent goes on: more than one buffer */
		waitpid(pid, 0, 0);
		f0(3);
		me->done = 1;
		break;
	}
	case 3: { /* a non-initial thread of the initial process execs */
		pthread_t t;
		pthread_create(&t, 0, thread_exec, (void *)(long)npre);
		spin_until_killed(0);
		break;
	}
	case 4: { /* a non-initial thread of a forked child execs */
		pid_t pid;
		f0(2);
		pid = fork();
		if (pid == 0) {
			pthread_t t;
			new_slot(1);
			f8(2);
			pthread_create(&t, 0, thread_exec, (void *)(long)npre);
			spin_until_killed(1);
		}
		waitpid(pid, 0, 0);
		f0(3);
		me->done = 1;
		break;
	}
	case 9: case 10: case 11: { /* the parent execs while a forked child is still running */
		int ready[2], go[2];
		char c;
		pid_t pid;
		f0(2);
		if (pipe(ready) < 0 || pipe(go) < 0) return 96;
		pid = fork();
		if (pid == 0)
			child_under_exec(scen, npre, ready, go);
		close(ready[1]);
		close(go[0]);
		if (read(ready[0], &c, 1) != 1) return 95;
		close(ready[0]);
		go_fd = go[1];
		f3(0);
		break;
	}
	case 12: case 13: /* --signal SIGUSR1@trace_off, then SIGSEGV / abort with open calls */
		f0(npre);
		f5(scen == 12 ? 0 : 1);
		break;
	case 14: case 15: { /* another thread's trace_off trigger, then SIGSEGV / abort with open calls */
		pthread_t t;
		pthread_create(&t, 0, thread_off, 0);
		f0(npre);
		f5(scen == 14 ? 2 : 3);
		break;
	}
	case 8: { /* grandchild execs */
		pid_t pid;
		f0(2);
		pid = fork();
		if (pid == 0) {
			pid_t p2;
			new_slot(1);
			f8(2);
			p2 = fork();
			if (p2 == 0) {
				new_slot(4);
				f32(npre);
				f35(0);
			}
			waitpid(p2, 0, 0);
			f8(3);
			me->done = 1;
			_exit(0);
		}
		waitpid(pid, 0, 0);
		f0(3);
		me->done = 1;
		break;
	}
	}
	return 0;
}
"""


def thread_exec_order_shape(bad):
    """the shape of the open finding F-C04-THREAD-EXEC-ORDER: every complaint is about the ORDER of whole buffers of
    the image after exec (records present but reordered / timestamps going back), nothing is torn or foreign"""
    ok = ("image after exec", "inverted time", "timestamps go backwards")
    return all(any(k in b for k in ok) for b in bad)


EXEC_SCEN = {1: "exec from the initial task", 2: "fork, exec in the child", 3: "exec from a non-initial thread",
             4: "fork, exec from a thread of the child", 5: "fork, _exit in the child", 6: "fork, SIGKILL in the child",
             7: "fork, abort in the child", 8: "exec in a grandchild",
             9: "the parent execs while its forked child is still recording; the child then ends normally",
             10: "the parent execs while its forked child is still recording; the child then calls _exit",
             11: "the parent execs while its forked child is still recording; the child then crashes (SIGSEGV)",
             12: "tracing switched off by a signal trigger (--signal SIGUSR1@trace_off), then SIGSEGV with open calls",
             13: "tracing switched off by a signal trigger (--signal SIGUSR1@trace_off), then abort with open calls",
             14: "tracing switched off by another thread's trace_off trigger, then SIGSEGV with open calls",
             15: "tracing switched off by another thread's trace_off trigger, then abort with open calls"}
EXEC_OLD_SCEN = tuple(range(1, 9))


def exec_opts(scen):
    """extra `uftrace record` options of a scenario"""
    if scen in (12, 13):
        return ["--signal", "SIGUSR1@trace_off"]
    if scen in (14, 15):
        return ["-T", "f18@trace_off"]
    return []


def gen_exec_program():
    funcs = []
    for r in range(5):
        b = 8 * r
        protos = "".join("NI void f%d(int x);\n" % (b + i) for i in range(5))
        body = protos
        body += "NI void f%d(int x) { ev(%d); ev(%d); }\n" % (b + 2, 2 * (b + 2), 2 * (b + 2) + 1)
        body += "NI void f%d(int x) { ev(%d); f%d(x); if (x & 1) f%d(x + 1); ev(%d); }\n" % (
            b + 1, 2 * (b + 1), b + 2, b + 2, 2 * (b + 1) + 1)
        if r == 3:
            # the new image; optionally kills itself after `post_kill` calls
            body += ("NI void f%d(int n) { ev(%d); for (int i = 0; i < n; i++) { f%d(i); "
                     "if (post_kill && i == post_kill) kill(getpid(), SIGKILL); } ev(%d); }\n" % (b, 2 * b, b + 1, 2 * b + 1))
        else:
            body += "NI void f%d(int n) { ev(%d); for (int i = 0; i < n; i++) f%d(i); ev(%d); }\n" % (b, 2 * b, b + 1, 2 * b + 1)
        body += "NI void f%d(int x) { ev(%d); do_exec(); }\n" % (b + 3, 2 * (b + 3))
        body += ("NI void f%d(int how) { ev(%d); if (how == 5) _exit(3); if (how == 6) kill(getpid(), SIGKILL); "
                 "if (how == 7) abort(); if (how == 9) *(volatile int *)0 = 1; for (;;) pause(); }\n" % (b + 4, 2 * (b + 4)))
        if r == 0:
            # f5 -> f6: tracing goes off (own signal trigger, or another thread's trace_off trigger) while both are
            # open and unwritten, then a crash without entering another function
            body += ("NI void f6(int how) { ev(12); if (how < 2) raise(SIGUSR1); else { off_a = 1; while (!off_b) ; } "
                     "if (how & 1) abort(); *(volatile int *)0 = 1; }\n")
            body += "NI void f5(int how) { ev(10); f6(how); ev(11); }\n"
        funcs.append(body)
    return EXEC_SRC.replace("%(funcs)s", "".join(funcs))


def read_slots(path, nslot=8, maxev=60000):
    import struct
    raw = open(path, "rb").read()
    n = min(struct.unpack_from("<I", raw, 0)[0], nslot)
    out = []
    sz = 16 + maxev
    for k in range(n):
        tid, cnt, done, role = struct.unpack_from("<IIII", raw, 16 + k * sz)
        out.append({"tid": tid, "n": cnt, "done": done, "role": role,
                    "ev": list(raw[16 + k * sz + 16: 16 + k * sz + 16 + min(cnt, maxev)])})
    return out


def slot_expectation(scen, slot, post_kill):
    """-> 'full' (every logged event must be in the file: the task ended normally, or flushed its open calls
    before exec / abort) or 'prefix' (the task was taken away: whole-record prefix with the usual lower bound)"""
    r = slot["role"]
    if r == 3:
        return "prefix" if post_kill else "full"
    if scen == 1:
        return "full"
    if scen in (2, 5, 6, 7):
        if r == 0:
            return "full"
        return {2: "full", 5: "prefix", 6: "prefix", 7: "full"}[scen]
    if scen == 3:
        return "prefix" if r == 0 else "full"
    if scen == 4:
        return {0: "full", 1: "prefix", 2: "full"}[r]
    if scen == 8:
        return "full"
    if scen in (9, 10, 11):
        # what the child records must not depend on what its parent does
        return {9: "full", 10: "prefix", 11: "full"}[scen] if r == 1 else "full"
    if scen in (12, 13, 14, 15):
        # the crashing thread's open calls were entered while tracing was on; the other thread switched tracing off
        # in its own trigger function: any whole-record prefix
        return "full" if r == 0 else "any"
    return "prefix"


def check_exec_run(ctx, exe, datadir, slots, scen, post_kill, err):
    bad = []
    syms = c03.sym_ranges(exe)
    for f in ("info", "task.txt"):
        if not os.path.exists(os.path.join(datadir, f)) or os.path.getsize(os.path.join(datadir, f)) == 0:
            bad.append("data directory incomplete: no %s" % f)
    if not any(s["role"] == 3 for s in slots) and scen in (1, 2, 3, 4, 8, 9, 10, 11):
        bad.append("the new image never ran (exec failed?)")
    by_tid = {}
    for s in slots:
        by_tid.setdefault(s["tid"], []).append(s)
    nrec = 0
    for tid, ss in by_tid.items():
        f = os.path.join(datadir, "%d.dat" % tid)
        if not os.path.exists(f):
            if any(slot_expectation(scen, s, post_kill) == "full" and s["ev"] for s in ss):
                bad.append("task %d: no data file" % tid)
            continue
        codes, problems, n = c03.decode_dat(f, syms)
        nrec += n
        bad += ["task %d: %s" % (tid, p) for p in problems]
        own = [c for c in codes if isinstance(c, int)]
        if any(isinstance(c, tuple) and c[0] == "LOST" for c in codes):
            bad.append("task %d: LOST record" % tid)
        pos = 0
        for s in ss:
            fam = s["role"]
            j = pos
            while j < len(own) and (own[j] // 2) // 8 == fam:
                j += 1
            got = own[pos:j]
            ev = s["ev"]
            kind = slot_expectation(scen, s, post_kill)
            what = "task %d, %s (role %d)" % (tid, {0: "initial task", 1: "forked child", 2: "thread", 3: "image after exec",
                                                    4: "grandchild"}[fam], fam)
            if got != ev[:len(got)]:
                i = next((i for i, (a, b) in enumerate(zip(got, ev)) if a != b), min(len(got), len(ev)))
                bad.append("%s: file is not a prefix of the executed calls (record %d: file %s, executed %s)" % (
                    what, i, got[i:i + 4], ev[i:i + 4]))
            elif kind == "full":
                need = len(ev) if (not ev or ev[-1] % 2 == 0 or s["done"]) else len(ev) - 1
                if len(got) < need:
                    bad.append("%s: %d of its %d records are in the file at this position%s" % (
                        what, len(got), need, " (the records made before the exec must come first)" if fam != 3 and len(ss) > 1 else ""))
            elif kind == "prefix":
                low = 0
                for i in range(len(ev) - 1):
                    if ev[i] % 2 == 1:
                        low = i + 1
                if len(got) < low:
                    bad.append("%s: file has %d records, at least %d were complete when it stopped" % (what, len(got), low))
            pos = j
        if pos != len(own):
            fam = (own[pos] // 2) // 8
            bad.append("task %d: %d record(s) of role %d follow out of order at record %d (records of an earlier image "
                       "after those of a later one)" % (tid, len(own) - pos, fam, pos))
    uftrace = os.path.join(ctx.src, "uftrace")
    for cmd in (["replay"], ["report"], ["dump"], ["info"]):
        r = subprocess.run(["timeout", "-s", "KILL", "30", uftrace] + cmd + ["--no-pager", "-d", datadir],
                           stdout=subprocess.PIPE, stderr=subprocess.PIPE, text=True, errors="replace")
        if r.returncode != 0:
            bad.append("uftrace %s rejects the directory: rc=%d %s" % (cmd[0], r.returncode, r.stderr[-200:]))
        if "inverted time" in r.stdout or "inverted time" in r.stderr:
            bad.append("uftrace %s reports 'inverted time: broken data?'" % cmd[0])
    return bad, nrec


shm_leftovers = c03.shm_leftovers

# --------------------------------------------------------------------------------------------------
# e2e probe: a fork that is announced to the recorder but never completes
# --------------------------------------------------------------------------------------------------
FORK_MODES = {0: "control: the fork succeeds", 1: "fork() fails with EAGAIN, the program goes on and exits normally",
              2: "the process is killed at the clone system call (after libmcount's atfork prepare handler)"}


def run_fork_noend(ctx, d, exe, mode):
    dd = os.path.join(d, "data%d" % mode)
    uftrace = os.path.join(ctx.src, "uftrace")
    cmd = ["timeout", "-s", "KILL", "12", uftrace, "record", "--libmcount-path=" + os.path.join(ctx.src, "libmcount"),
           "--no-pager", "--no-event", "-d", dd, exe, str(mode)]
    r = subprocess.run(cmd, stdout=subprocess.PIPE, stderr=subprocess.PIPE, text=True, cwd=d)
    bad = []
    if r.returncode in (-9, 137):
        bad.append("uftrace record did not terminate within 12 s (killed by the check)")
    for f in ("info", "task.txt"):
        if not os.path.exists(os.path.join(dd, f)) or os.path.getsize(os.path.join(dd, f)) == 0:
            bad.append("data directory incomplete: no %s" % f)
    if not glob.glob(os.path.join(dd, "sid-*.map")):
        bad.append("data directory incomplete: no session map")
    if not glob.glob(os.path.join(dd, "*.sym")):
        bad.append("data directory incomplete: no symbol file")
    if not bad:
        for cmd2 in (["replay"], ["report"], ["dump"], ["info"]):
            q = subprocess.run(["timeout", "-s", "KILL", "30", uftrace] + cmd2 + ["--no-pager", "-d", dd],
                               stdout=subprocess.PIPE, stderr=subprocess.PIPE, text=True, errors="replace")
            if q.returncode != 0:
                bad.append("uftrace %s rejects the directory: rc=%d %s" % (cmd2[0], q.returncode, q.stderr[-200:]))
            elif cmd2[0] == "report":
                calls = {l.split()[-1]: l.split()[-2] for l in q.stdout.split("\n") if len(l.split()) >= 4}
                want = {"before": "20"}
                if mode in (0, 1):
                    want["after"] = "30"
                for fn, n in want.items():
                    if calls.get(fn) != n:
                        bad.append("report: %s() recorded %s times, called %s times" % (fn, calls.get(fn, 0), n))
    shm_leftovers(dd)
    # a recorder that had to be killed has not written its task list: the session map names the session as well
    for m in glob.glob(os.path.join(dd, "sid-*.map")):
        for f in glob.glob("/dev/shm/uftrace-%s-*" % os.path.basename(m)[4:-4]):
            try:
                os.unlink(f)
            except OSError:
                pass
    shutil.rmtree(dd, ignore_errors=True)
    return bad



def _run(ctx):
    ctx.snapshot()
    # translator tie: the TASK_START test and the shape of its handler, regenerated from cmds/record.c
    try:
        changed, info = c04_taskstart.main(ctx.src, ctx.scratch)
        ctx.notes.append("Gen/TaskStart.lean regenerated from the snapshot (changed=%s): if (%s)" % (
            changed, info["condition"]))
    except Exception as e:
        C.violation(ctx, "translator", {"kind": "translator-failed", "error": str(e),
                                        "theorem": "c04_taskstart_shape / c04_exec_flush_order"}, True)
        return C.finish(ctx)
    proof_ok, problems = C.prove(ctx, "C04")
    if not proof_ok:
        # e.g. the regenerated TASK_START test no longer satisfies c04_taskstart_matches_by_tid: go on with the e2e
        # parts (they need no model) to find a concrete failing input
        C.violation(ctx, "proof", {"kind": "proof-obligation-broken", "problems": problems,
                                   "generated": "lean/Uft/Gen/TaskStart.lean"}, True)
    make_job = c03.start_make(ctx)
    known = {f["id"]: f for f in C.known_findings("C04")}

    res, sres, nsteps, disagree, monfail, flushes = [], [], 0, 0, 0, 0
    distinct, hows = set(), {}
    segv = {"runs": 0, "agree_fixed": 0, "agree_prefix_F11": 0, "other": 0}
    steps = {"cases": 0, "instructions": 0, "views": 0, "agree_fixed": 0, "agree_prefix_F12": 0, "other": 0}
    depths, maxstack = [], 8
    hist = {"runs": 0, "records": 0, "agree": 0, "monitored": 0, "monitor_failures": 0, "with_unrecorded_open_frames": 0,
            "by_family": {}, "by_end": {}}
    if proof_ok:
        # ---- (a) H1: stop + shutdown schedules ---------------------------------------------------------
        exe, log = c03.build_h1(ctx, out="h1c04")
        if not exe:
            C.violation(ctx, "build", {"kind": "harness-build-failed", "log": log[-3000:]}, True)
            return C.finish(ctx)
        ncase = 40 if ctx.tier == "quick" else 700
        cases = []
        for i in range(ncase):
            rng = ctx.rng
            cases.append(KillGen(rng, rng.choice([1, 2, 2, 3]), rng.randint(1, 3), rng.choice([48, 64, 96, 160, 496]),
                                 rng.randint(8, 70), rng.choice([0, 0, 0.15]), rng.choice([[0], [0, 0, 8, 16], [0, 24]]),
                                 rng.choice(["kill", "kill", "mixed", "ftrig"])))
        res = c03.run_h1_cases(ctx, exe, cases, model_name="C04")
        ctx.notes.append("t(h1 schedules)=%.1fs" % ctx.elapsed())
        nsteps = sum(len(d["impl"]) for d in res)
        disagree = monfail = reported = 0
        distinct = set()
        hows = {}
        flushes = 0
        for ci, d in enumerate(res):
            g = d["gen"]
            hows[g.how] = hows.get(g.how, 0) + 1
            prev_shm = None
            for (h, _), l in zip(g.ops, d["impl"]):
                nshm = l.count(".", l.find("SHM=["), l.find("]", l.find("SHM=[")))
                if h.startswith("R flush") and prev_shm is not None and nshm < prev_shm:
                    flushes += prev_shm - nshm
                prev_shm = nshm
            for l in d["impl"]:
                distinct.add(hash(c03.norm_state(l)))
            mon = d["monitor"]
            if not mon and d["impl"]:
                st = c03.parse_state(c03.norm_state(d["impl"][-1]))
                if st["PIPE"] or st["SHM"] or st["WL"] or not all(w.startswith("-") for w in st["WR"]):
                    mon = "the shutdown sequence left work behind: PIPE=%s SHM=%s WL=%s WR=%s" % (
                        st["PIPE"], st["SHM"], st["WL"], st["WR"])
                else:
                    for k, f in st["files"].items():
                        bad = c03.monitor_stream(f, g.emitted.get(k, []), True)
                        if bad:
                            mon = "after shutdown, thread %d: %s" % (k, bad)
                            break
            if d["first_diff"]:
                disagree += 1
            if mon:
                monfail += 1
            if (d["first_diff"] or mon) and reported < 3:
                reported += 1
                fd = d["first_diff"]
                C.violation(ctx, "h1case%d" % ci, {
                    "kind": "property-violated-on-implementation" if mon else "model-code-disagreement", "what": mon,
                    "config": {"threads": g.nt, "writers": g.nw, "maxsize": g.maxsize, "bufsize": g.maxsize + 16,
                               "stop": g.how},
                    "harness_script": [o[0] for o in g.ops][: (fd[0] + 1 if fd else len(g.ops))],
                    "model_script": [m for o in g.ops[: (fd[0] + 1 if fd else len(g.ops))] for m in o[1]],
                    "first_difference_at_op": fd[0] if fd else None,
                    "impl_state": fd[1] if fd else None, "model_state": fd[2] if fd else None,
                    "theorem": "c04_crash_prefix / c04_recorder_loop_exits" if mon else
                               "correspondence Shmem.step (kill, rFlush, rRemaining) vs libmcount + stand-in recorder",
                }, no_failing_input=not mon)

        # ---- kill at every instruction of one record_trace_data() call (ptrace single-step) ----------------
        nstep = 10 if ctx.tier == "quick" else 200
        scases = []
        for i in range(nstep):
            rng = ctx.rng
            pl = [[0], [0, 8, 16], [0, 24], [8, 16, 32]][i % 4]
            scases.append(StepGen(rng, 1, rng.randint(1, 2), rng.choice([48, 64, 96, 160]), rng.randint(3, 30),
                                  rng.choice([0, 0, 0.2]), pl))
        sres = c03.run_h1_cases(ctx, exe, scases, model_name="C04", extra_env={"H1C03_INLINE": "1"})
        ctx.notes.append("t(+single-step)=%.1fs" % ctx.elapsed())
        steps = {"cases": len(sres), "instructions": 0, "views": 0, "agree_fixed": 0, "agree_prefix_F12": 0, "other": 0}
        f12_hits = []
        for ci, d in enumerate(sres):
            g = d["gen"]
            last = d["impl"][-1] if d["impl"] else ""
            m = re.search(r"instructions=(\d+)", last)
            steps["instructions"] += int(m.group(1)) if m else 0
            iv = views_of(last)
            steps["views"] += len(iv)
            fd = d["first_diff"]
            if not fd:
                steps["agree_fixed"] += 1
                bad = view_problem(iv)
                if bad:
                    C.violation(ctx, "step%d" % ci, {"kind": "property-violated-on-implementation", "what": bad,
                                                     "harness_script": [o[0] for o in g.ops], "views": iv,
                                                     "theorem": "c04_crash_whole_records"})
                continue
            # does the implementation match the model of the code before the repair (two size updates)?
            pre = [ml if not ml.startswith("RESET") else " ".join(ml.split()[:3] + ["0"]) for o in g.ops for ml in o[1]]
            mpre = c03.run_model("C04", pre)
            only_last = fd[0] == len(g.ops) - 1 and len(d["impl"]) == len(g.ops)
            if only_last and c03.norm_state(mpre[-1]) == c03.norm_state(last):
                steps["agree_prefix_F12"] += 1
                f12_hits.append({"harness_script": [o[0] for o in g.ops], "views_impl": iv,
                                 "views_model_fixed": views_of(d["model"][-1]), "what": view_problem(iv)})
            else:
                steps["other"] += 1
                C.violation(ctx, "step%d" % ci, {
                    "kind": "model-code-disagreement", "first_difference_at_op": fd[0], "impl_state": fd[1],
                    "model_state": fd[2], "model_prefix_state": c03.norm_state(mpre[fd[0]]) if fd[0] < len(mpre) else None,
                    "harness_script": [o[0] for o in g.ops][:fd[0] + 1],
                    "theorem": "correspondence of the producer micro-steps (Shmem.pWrite/pBump/pEnd/pPick/pStart/pMark)"},
                    True)
        if f12_hits:
            what = ("F12: record_ret_stack advances `size` past the header of a record with argument payload before "
                    "the payload is stored; killed between the two stores the thread leaves a header without payload "
                    "and flush_shmem_list copies it into <tid>.dat (%d of %d single-stepped calls; %s); implementation "
                    "matches the pre-fix model (c04_prefix_torn_record_witness)" % (
                        len(f12_hits), len(sres), f12_hits[0]["what"]))
            if "F12" in known:
                C.known(ctx, known["F12"], what)
            else:
                C.violation(ctx, "F12-torn-payload-record", {
                    "kind": "property-violated-on-implementation", "finding": "F12", "what": what,
                    "runs": f12_hits[:3], "env": "H1C03_INLINE=1 UFTRACE_BUFFER=<maxsize+16>",
                    "theorem": "c04_crash_whole_records (fixed) / c04_prefix_torn_record_witness (as is)"})

        # ---- the crash handler: SIGABRT at a call depth below / at / beyond --max-stack --------------------
        segv = {"runs": 0, "agree_fixed": 0, "agree_prefix_F11": 0, "other": 0}
        maxstack = 8
        depths = [1, 3, 7, 8, 9, 12, 20] if ctx.tier == "quick" else list(range(1, 26))
        f11_hits = []
        for j, (n, sig) in enumerate([(n, s) for n in depths for s in (6, 11)]):
            o = run_segv(ctx, exe, j, n, sig, maxstack)
            segv["runs"] += 1
            # mcount_check_rstack flushed the open frames when the depth first reached max-stack
            written = [n >= maxstack] * min(n, maxstack)
            mfix = model_segv(True, maxstack, n, written)
            mpre = model_segv(False, maxstack, n, written)
            impl_recs = o["recs"] or []
            impl = "sig=%d recs=[%s]" % (-o["rc"], " ".join(impl_recs))

            def expect(m):
                mm = re.match(r"flushed recs=\[(.*?)\]", m)
                if not mm:
                    return None
                want = mm.group(1).split()
                return want
            want = expect(mfix)
            # records flushed by the handler are the tail of what the buffer holds (earlier flushes come first)
            ok_fixed = (-o["rc"] == sig) and want is not None and (impl_recs[len(impl_recs) - len(want):] == want
                                                                    if want else True)
            if ok_fixed:
                segv["agree_fixed"] += 1
            elif mpre.startswith("wild") and -o["rc"] != sig:
                segv["agree_prefix_F11"] += 1
                f11_hits.append({"depth": n, "max_stack": maxstack, "raised": sig, "terminated_by": -o["rc"],
                                 "model_prefix": mpre, "model_fixed": mfix})
            else:
                segv["other"] += 1
                C.violation(ctx, "segv-%d-%d" % (n, sig), {
                    "kind": "model-code-disagreement", "depth": n, "signal": sig, "impl": impl, "model_fixed": mfix,
                    "model_prefix": mpre, "stderr": o["stderr"], "theorem": "c04_segv_includes_open_calls"}, True)
        if f11_hits:
            what = ("F11: segv_handler / mcount_rstack_restore index the shadow stack with idx-1 although idx exceeds "
                    "--max-stack (-finstrument-functions): the crash handler itself crashes (%d of %d runs: e.g. "
                    "SIGABRT at depth %d with --max-stack %d ends with signal %d); implementation matches the "
                    "pre-fix model (c04_prefix_segv_wild_witness)" % (
                        len(f11_hits), segv["runs"], f11_hits[0]["depth"], maxstack, f11_hits[0]["terminated_by"]))
            if "F11" in known:
                C.known(ctx, known["F11"], what)
            else:
                C.violation(ctx, "F11-segv-beyond-max-stack", {
                    "kind": "property-violated-on-implementation", "finding": "F11", "what": what, "runs": f11_hits[:4],
                    "reproduce": "UFTRACE_MAX_STACK=8: 12 x __cyg_profile_func_enter, then raise(SIGABRT) "
                                 "(harness/h1_c03_driver.c op `SEGVSELF 12 6`); e2e: gcc -finstrument-functions program "
                                 "recursing 20 deep then abort() under `uftrace record --max-stack 8` is reported as "
                                 "killed by signal 11, no crash report, open calls not flushed",
                    "theorem": "c04_segv_includes_open_calls (fixed) / c04_prefix_segv_wild_witness (as is)"})

        # ---- the crash handler / finish trigger after a call history under record-time filters ------------------
        sizes = mcheck.sym_sizes(exe)
        nh = 90 if ctx.tier == "quick" else 1500
        hcases = hist_corpus() + [hist_case(ctx.rng, i) for i in range(nh)]
        with ThreadPoolExecutor(12) as ex:
            hcases = list(ex.map(lambda c: run_hist_case(ctx, exe, c, sizes), hcases))
        hist_model(hcases, sizes)
        hreported = 0
        for c in hcases:
            hist["runs"] += 1
            hist["by_family"][c["family"]] = hist["by_family"].get(c["family"], 0) + 1
            hist["by_end"][c["end"]] = hist["by_end"].get(c["end"], 0) + 1
            stackfl = hist_stack(c["ops"])
            hist["records"] += len(c["impl"])
            want_rc = {"segv": -11, "abrt": -6, "finish": 0}[c["end"]]
            mon = hist_monitor(c, sizes)
            if c["core"]:
                hist["monitored"] += 1
            agree = c["impl"] == c["model"] and c["rc"] == want_rc and not c["bad_ops"]
            if agree:
                hist["agree"] += 1
                # how many of these had a filtered-out innermost frame (what the model's top frame says)
                if len(c["impl"]) < len(stackfl) + sum(1 for t in c["impl"] if t.startswith("X")):
                    hist["with_unrecorded_open_frames"] += 1
            if mon:
                hist["monitor_failures"] += 1
            if (mon or not agree) and hreported < 3:
                hreported += 1
                C.violation(ctx, "hist%d" % c["idx"], {
                    "kind": "property-violated-on-implementation" if mon else "model-code-disagreement", "what": mon,
                    "environment": hist_env(c["opts"]), "options": c["opts"].describe(), "family": c["family"],
                    "hooks": c["kind"], "ended_by": c["end"],
                    "harness_script": ["TICK 0"] + c["lines"] + (["RAISE %d" % {"segv": 11, "abrt": 6}[c["end"]]]
                                                                 if c["end"] != "finish" else []),
                    "model_script": ["H RESET"] + ["H " + l for l in mcgen.to_model(c["opts"], sizes)] +
                                    ["H " + l for l in c["lines"]] + (["HSEGV 1"] if c["end"] != "finish" else []),
                    "impl_records": c["impl"], "model_records": c["model"], "exit_status": c["rc"],
                    "expected_exit_status": want_rc, "bad_ops": c["bad_ops"], "stderr": c["stderr"],
                    "run": "UFTRACE_BUFFER=1048576 <environment> h1c04-normal < harness_script (harness/h1_c03_driver.c)",
                    "theorem": "c04_segv_after_any_history / c04_segv_includes_recordable_open_calls / c04_segv_exact "
                               "(Crash.segvFlush over the hook model)",
                }, no_failing_input=not mon)

    # ---- (b) e2e ------------------------------------------------------------------------------------
    ctx.notes.append("t(+crash handler)=%.1fs" % ctx.elapsed())
    okm, mlog = make_job.result()
    ctx.notes.append("t(+make)=%.1fs" % ctx.elapsed())
    e2e = {"runs": 0, "records": 0, "failures": 0, "by_mode": {}}
    fork_jobs, forkp = {}, {}
    if not okm:
        C.violation(ctx, "make", {"kind": "snapshot-build-failed", "log": mlog[-3000:]}, True)
    else:
        # the fork probe waits for a recorder that may never come back: started now, looked at in the end
        fd_ = os.path.join(ctx.scratch, "forkprobe")
        os.makedirs(fd_)
        fexe = os.path.join(fd_, "fk")
        fb = C.sh(["gcc", "-O1", "-g", "-pg", "-o", fexe, os.path.join(C.VERIF, "harness", "c04_fork_noend.c")])
        if fb.returncode != 0:
            C.violation(ctx, "forkprobe-build", {"kind": "harness-build-failed", "log": fb.stdout[-2000:]}, True)
        else:
            fork_pool = ThreadPoolExecutor(3)
            fork_jobs = {m: fork_pool.submit(run_fork_noend, ctx, fd_, fexe, m) for m in FORK_MODES}
        nprog = 1 if ctx.tier == "quick" else 4
        jobs = []
        for i in range(nprog):
            rng = ctx.rng
            nt = rng.randint(2, 3)
            src, nf = c03.gen_program(rng, nt, scale=1, pace=1)
            d = os.path.join(ctx.scratch, "crash%d" % i)
            os.makedirs(d)
            open(os.path.join(d, "p.c"), "w").write(src)
            fl = ["pg", "cyg", "fentry"][(i + ctx.seed) % 3]
            okb, blog = c03.build_program(os.path.join(d, "p.c"), os.path.join(d, "p"), fl)
            if not okb:
                C.violation(ctx, "e2ebuild", {"kind": "generated-program-does-not-compile", "log": blog[-2000:]}, True)
                continue
            # a native run tells how many events each thread has
            gtn = os.path.join(d, "native.bin")
            subprocess.run([os.path.join(d, "p"), gtn], timeout=60, cwd=d)
            native = c03.read_ground_truth(gtn, nt)
            nev = [g["n"] for g in native]
            allfns = sorted({c // 2 for g in native for c in g["ev"]})
            sizes = {fn: sz for _, sz, fn in c03.sym_ranges(os.path.join(d, "p")) if fn >= 0}
            for mode in MODES:
                # ---- the same terminations under record-time filters: the thread dies with open calls whose ENTRY has
                # not been written yet; the option set is chosen relative to its call stack at that moment
                fams_done = []
                must = (["N-fin", "D-eq", rng.choice(["t-huge", "N-fin+t-huge", "Z-top+t-huge"])] if mode == 6 else
                        ["N-top", "D-eq", rng.choice(["t-huge", "N-top+t-huge", "D-eq+t-huge"])])
                nfam = (4 if ctx.tier == "quick" else 12)
                tries = 0
                while len(fams_done) < nfam and tries < 60:
                    tries += 1
                    killer = rng.randrange(nt)
                    pts = pending_points(native[killer]["ev"], chain=rng.choice([2, 3, 3, 4]))
                    if not pts:
                        continue
                    k = rng.choice(pts)
                    stack = stack_at(native[killer]["ev"], k)
                    if not stack:
                        continue
                    sets = filter_sets(rng, stack, sizes, mode, allfns, nouter=1 if killer == 0 else 0)
                    want = [m for m in must if m not in fams_done and m in sets]
                    name = want[0] if want else rng.choice(sorted(n for n in sets if n != "none"))
                    if name in fams_done and tries < 40:
                        continue
                    fams_done.append(name)
                    flt = sets[name]
                    flt.name = name
                    jobs.append((d, fl, nt, mode, killer, k, len(jobs), rng.choice([0, 0, 50]), flt))
                ks = list(range(1, 6 if ctx.tier == "quick" else 31))
                for _ in range(2 if ctx.tier == "quick" else 8):
                    ks.append(rng.randint(7, 400))
                for k in ks:
                    killer = rng.randrange(nt)
                    if k > nev[killer]:
                        k = max(1, nev[killer] // 2)
                    jobs.append((d, fl, nt, mode, killer, k, len(jobs), rng.choice([0, 0, 50]), None))

        def one(job):
            d, fl, nt, mode, killer, k, jid, pace, flt = job
            dd = os.path.join(d, "data%d" % jid)
            gtf = os.path.join(d, "gt%d.bin" % jid)
            opts = ["-b", "4k", "--num-thread", str(1 + jid % 3)]
            if mode == 6:
                opts += ["-T", "finish_trigger_fn@finish"]
            if mode == 8:
                opts += ["--signal", "SIGUSR1@finish"]
            if flt is not None:
                opts += flt.args()
            rc, out, err = c03.run_record(ctx, os.path.join(d, "p"), dd, gtf, opts,
                                          prog_args=[killer, k, mode, pace], timeout=30)
            if rc == -9 or rc == 137:
                return job, ["uftrace record did not terminate within 30 s (killed by the check)"], 0
            if not os.path.exists(gtf):
                return job, ["program did not start: " + err[-300:]], 0
            gt = c03.read_ground_truth(gtf, nt)
            bad, n = check_crash_run(ctx, d, os.path.join(d, "p"), dd, gt, nt, killer, k, mode, rc, err, flt)
            shm_leftovers(dd)
            shutil.rmtree(dd, ignore_errors=True)
            return job, bad, n
        with ThreadPoolExecutor(6) as ex:
            outs = list(ex.map(one, jobs))
        for (d, fl, nt, mode, killer, k, jid, pace, flt), bad, n in outs:
            e2e["runs"] += 1
            e2e["records"] += n
            bm = e2e["by_mode"].setdefault(MODES[mode], {"runs": 0, "failures": 0})
            bm["runs"] += 1
            if flt is not None:
                bf = e2e.setdefault("by_filter", {}).setdefault(flt.name, {"runs": 0, "failures": 0})
                bf["runs"] += 1
                bf["failures"] += 1 if bad else 0
            if bad:
                bm["failures"] += 1
                e2e["failures"] += 1
                if e2e["failures"] <= 3:
                    keep = os.path.join(C.VERIF, "replays", "C04-e2e-seed%d-%s.c" % (ctx.seed, os.path.basename(d)))
                    os.makedirs(os.path.dirname(keep), exist_ok=True)
                    try:
                        shutil.copy(os.path.join(d, "p.c"), keep)
                    except OSError:
                        keep = None
                    C.violation(ctx, "e2e-%s-%d" % (os.path.basename(d), jid), {
                        "kind": "property-violated-on-implementation", "what": bad[:5], "program": keep,
                        "build": "gcc -O1 -g -no-pie <%s flags> p.c -lpthread" % fl,
                        "command": "uftrace record --no-event -b 4k --num-thread %d %s%s./p gt.bin %d %d %d %d" % (
                            1 + jid % 3, "-T finish_trigger_fn@finish " if mode == 6 else "--signal SIGUSR1@finish " if mode == 8 else "",
                            (" ".join(flt.args()) + " ") if flt is not None else "", killer, k, mode, pace),
                        "termination": MODES[mode], "thread": killer, "at_event": k,
                        "record_time_filter": flt.name if flt is not None else None,
                        "expected": "each <tid>.dat = whole records forming a prefix of what the documented filter semantics "
                                    "select from the thread's own log; the terminating thread's file includes the ENTRY of its "
                                    "recordable open calls" if flt is not None else None,
                        "theorem": "c04_crash_prefix, c04_crash_whole_records, c04_flush_covers_unended"})

    # ---- (c) e2e: fork / exec / exit of children and non-initial tasks --------------------------------
    ex2 = {"runs": 0, "records": 0, "failures": 0, "shm_files_left_behind": 0, "by_scenario": {}}
    if okm:
        d = os.path.join(ctx.scratch, "execp")
        os.makedirs(d)
        open(os.path.join(d, "x.c"), "w").write(gen_exec_program())
        flavours = ["pg", "cyg", "fentry"]
        use = [flavours[ctx.seed % 3]] if ctx.tier == "quick" else flavours
        ejobs = []
        for fl in use:
            okb, blog = c03.build_program(os.path.join(d, "x.c"), os.path.join(d, "x_" + fl), fl)
            if not okb:
                C.violation(ctx, "execbuild", {"kind": "generated-program-does-not-compile", "log": blog[-2000:]}, True)
                continue
            for rep in range(1 if ctx.tier == "quick" else 4):
                for scen in EXEC_OLD_SCEN:
                    rng = ctx.rng
                    # the image after exec (the parent, for the exit scenarios) fills several 4k buffers (255 records
                    # each), so that its first buffers are written while it is still running
                    npost = rng.randint(300, 900)
                    npre = rng.choice([3, 8, 20, 40, 150])
                    for pk in ((0, rng.randint(120, npost - 20)) if scen in (1, 2, 3, 4, 8) else (0,)):
                        ejobs.append((fl, scen, npre, npost, pk, len(ejobs)))
        # (drawn after the jobs above, so that those stay what they were)  a parent that execs while a forked child
        # is still recording: the child then makes N calls, N small (its first buffer never fills) and N large
        # (several 4k buffers); tracing switched off by something that does not flush, then a crash
        # (the switched-off scenarios always run on the -pg build as well: under -finstrument-functions the open calls
        # are written before the crash by another path)
        if "pg" not in use and not c03.build_program(os.path.join(d, "x.c"), os.path.join(d, "x_pg"), "pg")[0]:
            C.violation(ctx, "execbuild", {"kind": "generated-program-does-not-compile", "flavour": "pg"}, True)
        for fl in use + ([] if "pg" in use else ["pg"]):
            if not os.path.exists(os.path.join(d, "x_" + fl)):
                continue
            for rep in range(1 if ctx.tier == "quick" else 4):
                for scen in (9, 10, 11) if fl in use else ():
                    for n in (ctx.rng.choice([1, 3, 8, 20]), ctx.rng.randint(300, 900)):
                        ejobs.append((fl, scen, n, ctx.rng.randint(300, 900), 0, len(ejobs)))
                for scen in (12, 13, 14, 15):
                    ejobs.append((fl, scen, ctx.rng.choice([0, 1, 3, 8, 40, 300]), 0, 0, len(ejobs)))

        def one_exec(job):
            fl, scen, npre, npost, pk, jid = job
            dd = os.path.join(d, "data%d" % jid)
            gtf = os.path.join(d, "gt%d.bin" % jid)
            exe2 = os.path.join(d, "x_" + fl)
            rc, out, err = c03.run_record(ctx, exe2, dd, gtf, ["-b", "4k", "--num-thread", str(1 + jid % 3)] + exec_opts(scen),
                                          prog_args=[scen, npre, npost, pk, dd], timeout=30)
            if rc == -9 or rc == 137:
                return job, ["uftrace record did not terminate within 30 s (killed by the check)"], 0, 0
            if not os.path.exists(gtf):
                return job, ["program did not start: " + err[-300:]], 0, 0
            slots = read_slots(gtf)
            bad, n = check_exec_run(ctx, exe2, dd, slots, scen, pk, err)
            left = shm_leftovers(dd)
            shutil.rmtree(dd, ignore_errors=True)
            os.unlink(gtf)
            return job, bad, n, len(left)
        with ThreadPoolExecutor(6) as ex:
            eouts = list(ex.map(one_exec, ejobs))
        for (fl, scen, npre, npost, pk, jid), bad, n, left in eouts:
            ex2["runs"] += 1
            ex2["records"] += n
            ex2["shm_files_left_behind"] += left
            bs = ex2["by_scenario"].setdefault(EXEC_SCEN[scen], {"runs": 0, "failures": 0})
            bs["runs"] += 1
            if bad and scen in (3, 4) and thread_exec_order_shape(bad):
                # open finding F-C04-THREAD-EXEC-ORDER (timing dependent): after exec from a non-initial thread the
                # new image runs under the old leader's tid; flush_old_shmem() can match the new image's own first
                # buffer, flush it early and drop it from the list: buffers of the new image out of order
                ent = next((f for f in C.known_findings("C04") if f["id"] == "F-C04-THREAD-EXEC-ORDER" and f["status"] == "open"), None)
                bs["known_thread_exec_order"] = bs.get("known_thread_exec_order", 0) + 1
                if ent is not None:
                    C.known(ctx, ent, "F-C04-THREAD-EXEC-ORDER exec from a non-initial thread: the buffers of the image after exec "
                                      "reach <tid>.dat out of order (timing dependent; %s)" % bad[0][:160])
                    bad = None
            if bad:
                bs["failures"] += 1
                ex2["failures"] += 1
                if ex2["failures"] <= 3:
                    keep = os.path.join(C.VERIF, "replays", "C04-exec-seed%d.c" % ctx.seed)
                    os.makedirs(os.path.dirname(keep), exist_ok=True)
                    try:
                        shutil.copy(os.path.join(d, "x.c"), keep)
                    except OSError:
                        keep = None
                    bad = sorted(bad, key=lambda b: "timestamps go backwards" in b)
                    C.violation(ctx, "exec-%d-%d" % (scen, jid), {
                        "kind": "property-violated-on-implementation", "what": bad[:8], "program": keep,
                        "build": "gcc -O1 -g -no-pie <%s flags> x.c -lpthread" % fl, "scenario": EXEC_SCEN[scen],
                        "command": "uftrace record --no-event -d DIR -b 4k --num-thread %d %s./x gt.bin %d %d %d %d DIR" % (
                            1 + jid % 3, "".join(o + " " for o in exec_opts(scen)), scen, npre, npost, pk),
                        "expected": "<tid>.dat = records of the task's first image, then those of the image after "
                                    "exec, in order (timestamps never go back); what a forked child records does not "
                                    "depend on its parent's exec; the crashing thread's open calls (entered while tracing "
                                    "was on) are in its file also when tracing was switched off before the crash",
                        "theorem": "c04_exec_flush_order, c04_crash_prefix, c04_flush_covers_unended"})

    # ---- (d) the fork that never completes ----------------------------------------------------------------------
    fres = {m: j.result() for m, j in fork_jobs.items()}
    for m, bad in fres.items():
        forkp[FORK_MODES[m]] = {"runs": 1, "failures": 1 if bad else 0}
    if fres:
        obj = {"kind": "property-violated-on-implementation", "program": os.path.join(C.VERIF, "harness", "c04_fork_noend.c"),
               "build": "gcc -O1 -g -pg -o fk c04_fork_noend.c",
               "command": "timeout 12 uftrace record --no-event ./fk <mode>   (0 control, 1 clone fails with EAGAIN, 2 killed at clone)",
               "results": {FORK_MODES[m]: bad for m, bad in fres.items()},
               "theorem": "c04_recorder_loop_exits (its hypothesis `every task has stopped` is what check_tid_list must establish)"}
        if fres.get(0):
            C.violation(ctx, "forkprobe-control", dict(obj, what=fres[0]))
        elif any(fres.get(m) for m in (1, 2)):
            hung = [FORK_MODES[m] for m in (1, 2) if any("did not terminate" in b for b in fres.get(m, []))]
            if hung:
                c03.report_finding(ctx, "F-C04-FORK-NOEND", "`uftrace record` never terminates when a fork is announced (FORK_START from "
                                   "libmcount's atfork prepare handler) but no child ever sends FORK_END: check_tid_list() skips the "
                                   "entry with tid -1 and never counts it as exited, stop_tracing() waits for ever and the data "
                                   "directory stays without info / <tid>.dat (%s; the control with a successful fork passes)" % (
                                       "; ".join(hung)), obj, "proposed_fixes/C04-FORK-NOEND.diff")
            else:
                C.violation(ctx, "forkprobe", dict(obj, what=[b for m in (1, 2) for b in fres.get(m, [])][:6]))

    ctx.coverage.update({
        "evaluations": nsteps + segv["runs"] + hist["runs"] + e2e["runs"] + steps["instructions"],
        "distinct_nontrivial": len(distinct) + e2e["runs"],
        "rule": "H1: %d random schedules ending with every thread stopped (kill / mtd_dtor / finish trigger) "
                "followed by the recorder's shutdown sequence, every step compared with the model; %d record_trace_data() "
                "calls single-stepped under ptrace, the would-be file after a kill computed after every instruction "
                "and the sequence of distinct results compared with the model's micro-steps; crash handler: "
                "SIGABRT and SIGSEGV raised in-process at call depths %s with --max-stack %d; e2e: every "
                "termination mode x k-th event (k = 1..5 and random up to 400; thorough: 1..30 and 8 random, 4 programs) x terminating thread, "
                "2-3 threads, -pg / -finstrument-functions / -mfentry, under the real recorder; fork/exec: exec from the "
                "initial task, a forked child, a non-initial thread, a thread of a forked child, a grandchild, and "
                "_exit / SIGKILL / abort in a forked child, each with an image after exec (or a parent) that fills "
                "several 4k buffers, with and without a SIGKILL of the new image; a parent that execs while its forked child "
                "is still recording (pipe handshake; the new image waits for its TASK line, then releases the child, which "
                "makes N calls, N small / several 4k buffers, and ends normally / by _exit / by SIGSEGV); tracing switched off "
                "without a flush (--signal SIGUSR1@trace_off raised by the thread itself, or another thread's trace_off "
                "trigger) while calls are open, then SIGSEGV / abort before another function is entered. Under record-time filters: %d call histories "
                "through the real hooks (-pg / cygprof / mixed) under option sets chosen relative to the call stack at the "
                "fatal moment (-N top / ancestor, -D, -F, -t, -Z, -L, depth / notrace / trace_off triggers, random sets), "
                "ended by a real SIGSEGV / SIGABRT / finish trigger, record stream compared with the hook model + "
                "Crash.segvFlush; e2e: every termination mode at points with pending ENTRY records x 4 (thorough 12) "
                "filter option sets per mode; a fork that never completes (clone fails / killed at clone)" % (
                    len(res), len(sres), depths, maxstack, hist["runs"]),
        "h1_schedules": len(res), "h1_steps_compared": nsteps, "h1_stop_kinds": hows, "h1_flushes_of_unended_buffers": flushes,
        "model_code_disagreements": disagree, "monitor_failures_on_impl": monfail,
        "crash_handler": segv, "crash_handler_under_filters": hist, "kill_at_every_instruction": steps, "e2e": e2e,
        "e2e_fork_exec": ex2, "e2e_fork_never_completes": forkp,
        "exhaustive": False,
        "samples": [{"config": {"threads": d["gen"].nt, "stop": d["gen"].how}, "last_impl": c03.norm_state(d["impl"][-1])[:300]}
                    for d in res[:2] if d["impl"]],
    })
    ctx.assumptions += [
        "the recorder's shutdown starts after every thread has stopped (POLLHUP on the FIFO: all writers gone); "
        "after the finish trigger closes the pipe no thread stores further records (real threads may finish the "
        "hook they are in: exercised only by the e2e runs)",
        "H1 schedules stop a thread between two record_trace_data() calls; stops between the individual stores "
        "are covered by the model (kill after every micro-step), by the ptrace single-step runs (one thread, the "
        "kill view after every instruction of one call) and by the e2e runs",
        "x86-64 TSO store order (bytes before size); SIGCHLD / /proc/<tid>/stat / FIFO HUP semantics are the "
        "environment of c04_recorder_loop_exits",
        "record-time filters e2e: `what the thread executed` = spec_stream (FILTERS of uftrace-record.md: -F, -N, -D, -Z; -t "
        "only with a threshold no call reaches) applied to the thread's own log; a finish trigger is expected to fire only "
        "where the filters let its function through (inside a -N region, outside every -F region or beyond -D the -pg "
        "path never looks at the trigger); exec / exit flush their open calls in libmcount's PLT hook, so not under "
        "--no-libcall; a trace in which nothing was selected (no <tid>.dat) may be answered with `No data available`",
        "in-process histories: one thread, scripted clock, 1 MB buffer (no switch); the fork / exec / exit flush itself "
        "(plthook.c PLT_FL_FLUSH) is reached only e2e",
    ]
    return C.finish(ctx)


def run(ctx):
    try:
        return _run(ctx)
    finally:
        # a run against a scratch tree (VERIF_REPO) must not leave its generated file in the shared Lean project
        if os.path.realpath(C.REPO) != "/repo" and os.path.exists("/repo/cmds/record.c"):
            try:
                c04_taskstart.main("/repo")
            except Exception:
                pass


def replay(ctx, path):
    r = json.load(open(path))
    print(json.dumps({k: v for k, v in r.items() if k not in ("harness_script", "model_script")}, indent=1))
    if "harness_script" in r and "environment" in r:
        # a call history under record-time filters ended by a signal / finish trigger: run it again on the current tree
        ctx.snapshot()
        exe, log = c03.build_h1(ctx, out="h1c04")
        if not exe:
            print("harness build failed:", log[-500:])
            return 1
        sizes = mcheck.sym_sizes(exe)
        c = {"idx": 0, "lines": [l for l in r["harness_script"] if not l.startswith(("TICK", "RAISE"))],
             "end": r.get("ended_by", "segv"), "opts": None}
        rr = c03.run_harness(ctx, exe, 31000, 1 << 20, r["harness_script"], extra_env=r["environment"])
        syms = [int(x, 16) for l in rr["lines"] if l.startswith("SYMS") for x in l.split()[1:]]
        toks = []
        for typ, payload in rr["msgs"]:
            if typ == "REC_START":
                try:
                    data = open("/dev/shm" + payload.decode(errors="replace").rstrip("\0"), "rb").read()
                except OSError:
                    continue
                t = mcheck.decode(data[16:16 + int.from_bytes(data[0:4], "little")].hex(), syms, sizes)
                toks += [] if t == "-" else t.split()
        c03.cleanup_run(rr)
        mtoks = []
        for l in c03.run_model("C04", r["model_script"]):
            m = re.search(r"recs=\[?([^\]]*)\]?", l)
            if m and m.group(1).strip() not in ("-", ""):
                mtoks += m.group(1).split()
        print("IMPL  (exit status %s):" % rr["rc"], toks)
        print("MODEL:", mtoks)
        return 0 if toks == mtoks and rr["rc"] == r.get("expected_exit_status", rr["rc"]) else 1
    return 0
