"""C20 — Recording never destroys data that is not a uftrace data directory.
Lean: Uft/Model/DirGuard.lean, Uft/Props/C20.lean.  Tie: correspondence (H4):
the real create_directory()/remove_directory() of utils/utils.c run on generated
directory trees with injected syscall failures, against the model; execution paths of whole commands
(`trace` cases: sequences of create/remove on several names) against `stepEv`.
Tie: translator (T): translators/c20_dircallers.py regenerates lean/Uft/Gen/DirCallers.lean (the
directory events on every execution path of every command_* of cmds/*.c that can reach
create_directory/remove_directory/mkstemp); `c20_every_entry_point_guards` is re-proved over it.
End to end: every such command (record, record --host, live, live --record, script --record, the
default mode, recv) and the read-only commands, against the pre-populated DIR / DIR.old grid."""
import json
import os
import re
import shutil
import subprocess

from lib import common as C
from translators import c20_dircallers

MAGIC = b"Ftrace!\0"

# the 8 basic states of DIR / DIR.old
class Link(str):
    """a symbolic link (the string is its target)"""


def basic_states():
    return {
        "absent": None,
        "empty": {},
        "uftrace-info": {"info": MAGIC + b"\x04\x00", "123.dat": b"\x01\x02", "task.txt": b"x"},
        "uftrace-opts-only": {"default.opts": b"-F main\n"},
        "foreign-file": {"precious.txt": b"data"},
        "foreign-nested": {"sub": {"deep": {"x.c": b"int x;"}}, "notes": b"n"},
        "is-a-file": b"i am a file",
        "bad-info": {"info": b"not magic", "default.opts": b""},
        "only-hidden": {".git": {"config": b"[core]"}, ".secret": b"s"},
        # symbolic links that lead out of the directory (to the bystander next to it): never followed
        "uftrace-with-links": {"info": MAGIC, "out": Link("../bystander"), "f": Link("../bystander/keep"),
                               "sub": {"up": Link("../../bystander")}},
        "uftrace-dangling-link": {"info": MAGIC, "dangling": Link("nowhere"), "x": b"1"},
        "foreign-with-link": {"l": Link("../bystander")},
    }


def rand_tree(rng, depth=0):
    kind = rng.random()
    if depth > 2 or kind < 0.15:
        return {}
    t = {}
    names = ["info", "default.opts", "a", "b.dat", "sub", "task.txt", "z", "sid-1.map", ".channel", ".git", ".hidden"]
    for _ in range(rng.randint(1, 4)):
        n = rng.choice(names)
        r = rng.random()
        if rng.random() < 0.12:
            # a link named info/default.opts does not resolve (model assumption); others lead outside
            t[n] = Link("nowhere") if n in ("info", "default.opts") else \
                Link(rng.choice(["../" * (depth + 1) + "bystander", "../" * (depth + 1) + "bystander/keep", "nowhere"]))
        elif r < 0.25 and n not in ("info",):
            t[n] = rand_tree(rng, depth + 1)
        elif n == "info":
            t[n] = rng.choice([MAGIC, MAGIC + b"\x01", b"Ftrace", b"", b"garbage!!", {}])
        else:
            t[n] = bytes(rng.randrange(256) for _ in range(rng.randint(0, 5)))
    return t


def rand_state(rng):
    r = rng.random()
    if r < 0.1:
        return None
    if r < 0.2:
        return bytes(rng.randrange(256) for _ in range(rng.randint(0, 4)))
    return rand_tree(rng)


def materialize(path, node):
    if node is None:
        return
    if isinstance(node, Link):
        os.symlink(str(node), path)
        return
    if isinstance(node, bytes):
        with open(path, "wb") as f:
            f.write(node)
        return
    os.makedirs(path)
    for k, v in node.items():
        materialize(os.path.join(path, k), v)


def parse_tree(tokens):
    """tokens -> nested dict (for the monitor)."""
    def ents(i):
        d = {}
        while i < len(tokens):
            if tokens[i] == "F":
                d[tokens[i + 1]] = bytes.fromhex("" if tokens[i + 2] == "-" else tokens[i + 2])
                i += 3
            elif tokens[i] == "D":
                sub, i = ents(i + 2)
                d[tokens[i_name(i)]] = sub  # placeholder, replaced below
            else:
                break
        return d, i
    # simple recursive descent
    pos = 0

    def parse():
        nonlocal pos
        d = {}
        while pos < len(tokens):
            t = tokens[pos]
            if t == "F":
                d[tokens[pos + 1]] = bytes.fromhex("" if tokens[pos + 2] == "-" else tokens[pos + 2])
                pos += 3
            elif t == "L":
                d[tokens[pos + 1]] = Link(tokens[pos + 2])
                pos += 3
            elif t == "D":
                name = tokens[pos + 1]
                pos += 2
                d[name] = parse()
                assert tokens[pos] == "E"
                pos += 1
            else:
                break
        return d
    return parse()


def is_uftrace(n):
    if not isinstance(n, dict):
        return False
    if "info" in n and not isinstance(n["info"], Link):      # open() of an unresolved link fails
        return isinstance(n["info"], bytes) and n["info"][:8] == MAGIC
    return "default.opts" in n and not isinstance(n["default.opts"], Link)


def can_remove(n):
    return n is not None and (is_uftrace(n) or n == {})


def monitor(pre, post, ok, d):
    """The property itself as a predicate on the implementation's observable
    behaviour. Returns None or a description of what is violated."""
    old = d + ".old"
    for k in set(pre) | set(post):
        if k not in (d, old) and pre.get(k) != post.get(k):
            return "entry %r outside DIR/DIR.old changed" % k
    pd, po = pre.get(d), pre.get(old)
    if pd is not None and not can_remove(pd):
        if post != pre:
            return "foreign DIR modified"
        if ok:
            return "recording did not fail on a foreign DIR"
    if po is not None and not can_remove(po):
        if post.get(old) != po:
            return "foreign DIR.old modified"
        if pd is not None and post.get(d) != pd:
            return "DIR replaced although DIR.old is foreign"
    return None


def guarded_py(trace):
    """Python reading of Model/DirGuard `guarded` (used only to point at the paths that break the proof)"""
    owned = set()
    for kind, p in trace:
        if kind in ("fresh", "createOk"):
            owned.add(p)
        elif kind == "remove" and p not in owned:
            return False
    return True


def run(ctx):
    ctx.snapshot()
    tr = None
    try:
        tr = c20_dircallers.main(ctx.src)
        ctx.notes.append("Gen/DirCallers.lean regenerated from the snapshot's cmds/*.c (changed=%s): %s; %d raw "
                         "unlink/rename/... calls; callers outside cmds: %s" % (
                             tr["changed"], ", ".join("%s %d paths" % e for e in tr["entries"]), tr["raw"], tr["others"]))
    except Exception as e:        # the translator cannot read the sources any more
        C.violation(ctx, "translator", {"kind": "translator-failed", "error": str(e)[-1500:]}, True)
    ok, problems = C.prove(ctx, "C20")
    suspects = []
    if not ok:
        # section 7: a broken obligation is not yet a violation of C20; say which execution paths are not
        # guarded (model-guided), then let the harness and the end-to-end matrix look for a concrete input
        if tr:
            for name, traces in tr["traces"].items():
                for t in traces:
                    if not guarded_py([tuple(e) for e in t]):
                        suspects.append({"entry_point": name, "path": " ".join("%s(%s)" % tuple(e) for e in t)})
        C.violation(ctx, "proof", {"kind": "proof-obligation-broken", "problems": problems,
                                   "unguarded_execution_paths": suspects[:10],
                                   "theorem": "c20_every_entry_point_guards" if suspects else None}, True)
        okd, _ = C.lake_build(["uv_C20"])
        if not okd:
            e2e_runs, e2e_bad, e2e_cov = e2e(ctx)
            ctx.coverage.update({"evaluations": e2e_runs, "distinct_nontrivial": 0, "e2e": e2e_cov,
                                 "e2e_record_runs": e2e_runs, "e2e_monitor_failures": e2e_bad})
            return C.finish(ctx)
    exe = os.path.join(ctx.scratch, "h_c20")
    okc, log = ctx.cc(exe, [os.path.join(C.VERIF, "harness/c20_dirguard.c"),
                            os.path.join(ctx.src, "utils/utils.c"),
                            os.path.join(ctx.src, "utils/debug.c")], extra=["-ldl"])
    if not okc:
        C.violation(ctx, "build", {"kind": "harness-build-failed", "log": log[-2000:]}, True)
        return C.finish(ctx)

    fsroot = os.path.join(ctx.scratch, "fs")
    os.makedirs(fsroot)
    fill = os.path.join(ctx.scratch, "fill")
    materialize(fill, {"1.dat": b"\x00", "info": MAGIC, "sub": {"k": b""}})
    fill_empty = os.path.join(ctx.scratch, "fill0")
    os.makedirs(fill_empty)

    cases = []   # (command line for the harness, description)
    bs = basic_states()
    kinds = ["stat", "unlink", "rmdir", "rename", "mkdir", "fopen"]
    single_faults = ["-"] + ["%s:%d" % (k, i) for k in kinds for i in (0, 1)]
    n = 0

    def add(dstate, ostate, faults, desc, others=True):
        nonlocal n
        parent = os.path.join(fsroot, "c%d" % n)
        n += 1
        os.makedirs(parent)
        materialize(os.path.join(parent, "DIR"), dstate)
        materialize(os.path.join(parent, "DIR.old"), ostate)
        if others:
            materialize(os.path.join(parent, "bystander"), {"keep": b"me", "more": {"deep": b"precious"}})
        cases.append(("cd %s DIR %s" % (parent, faults), desc))

    # exhaustive 9 x 9 grid x {no fault, each single fault}
    for dn, dv in bs.items():
        for on, ov in bs.items():
            for f in single_faults:
                add(dv, ov, f, {"dir": dn, "old": on, "faults": f})
    grid = n
    # random trees, double faults
    nrand = 300 if ctx.tier == "quick" else 6000
    for _ in range(nrand):
        k = ctx.rng.choice([0, 0, 1, 2, 3])
        fl = ",".join("%s:%d" % (ctx.rng.choice(kinds), ctx.rng.randint(0, 3)) for _ in range(k)) or "-"
        add(rand_state(ctx.rng), rand_state(ctx.rng), fl, {"random": True, "faults": fl})
    # live mode
    nlive = 0
    for f in single_faults + (["unlink:2", "rmdir:1,stat:2"] if ctx.tier == "thorough" else []):
        for fsrc in (fill, fill_empty):
            parent = os.path.join(fsroot, "c%d" % n)
            n += 1
            os.makedirs(parent)
            materialize(os.path.join(parent, "other"), {"keep": b"me"})
            materialize(os.path.join(parent, "uftrace-live-abc.old"), {"precious": b"1"})
            cases.append(("live %s uftrace-live-abc %s %s" % (parent, fsrc, f), {"live": True, "faults": f}))
            nlive += 1

    # execution paths of whole commands: several names, create / remove in any order (guarded or not)
    ntrace = 0
    names = ["DIR", "TMP", "DIR.old", "X"]
    cfile = os.path.join(C.VERIF, "corpus", "C20", "traces.txt")
    if os.path.exists(cfile):
        for l in open(cfile):
            w = l.split()
            if len(w) != 4 or l.startswith("#") or w[0] not in bs or w[1] not in bs:
                continue
            parent = os.path.join(fsroot, "c%d" % n)
            n += 1
            os.makedirs(parent)
            materialize(os.path.join(parent, "DIR"), bs[w[0]])
            materialize(os.path.join(parent, "DIR.old"), bs[w[1]])
            materialize(os.path.join(parent, "bystander"), {"keep": b"me", "more": {"deep": b"precious"}})
            cases.append(("trace %s %s %s %s" % (parent, w[2], fill, w[3]), {"trace": w[2].split(","), "faults": w[3],
                                                                            "corpus": True}))
            ntrace += 1
    for _ in range(250 if ctx.tier == "quick" else 4000):
        parent = os.path.join(fsroot, "c%d" % n)
        n += 1
        os.makedirs(parent)
        for nm in names[:3]:
            if ctx.rng.random() < 0.6:
                st = ctx.rng.choice(list(bs.values())) if ctx.rng.random() < 0.6 else rand_state(ctx.rng)
                materialize(os.path.join(parent, nm), st)
        materialize(os.path.join(parent, "bystander"), {"keep": b"me", "more": {"deep": b"precious"}})
        evs = []
        shape = ctx.rng.random()
        if shape < 0.35:       # the shapes the commands have: create, (fill), maybe remove; cleanup after failure
            nm = ctx.rng.choice(names[:2])
            evs = ["c:" + nm] + (["r:" + nm] if ctx.rng.random() < 0.6 else [])
            if ctx.rng.random() < 0.3:
                evs = ["f:" + nm] + evs + ["r:" + nm]
        else:
            for _ in range(ctx.rng.randint(1, 6)):
                evs.append(ctx.rng.choice(["c:", "c:", "r:", "f:"]) + ctx.rng.choice(names))
        k = ctx.rng.choice([0, 0, 0, 1, 2])
        fl = ",".join("%s:%d" % (ctx.rng.choice(kinds), ctx.rng.randint(0, 3)) for _ in range(k)) or "-"
        cases.append(("trace %s %s %s %s" % (parent, ",".join(evs), ctx.rng.choice([fill, fill_empty]), fl),
                      {"trace": evs, "faults": fl}))
        ntrace += 1

    r = subprocess.run([exe], input="\n".join(c[0] for c in cases) + "\n", stdout=subprocess.PIPE,
                       stderr=subprocess.PIPE, text=True, timeout=1200)
    lines = r.stdout.split("\n")
    models = [l[6:] for l in lines if l.startswith("MODEL ")]
    impls = [l[5:] for l in lines if l.startswith("IMPL ")]
    fired = sum(int(l.split("=")[1]) for l in lines if l.startswith("INFO fired="))
    if r.returncode != 0 or len(models) != len(cases) or len(impls) != len(cases):
        C.violation(ctx, "harness", {"kind": "harness-failed", "rc": r.returncode,
                                     "stderr": r.stderr[-2000:], "cases": len(cases),
                                     "got": [len(models), len(impls)]}, True)
        return C.finish(ctx)
    mout = C.run_model("C20", models)
    pre_models = C.run_model("C20", [("cdpre" + m[2:]) if m.startswith("cd ") else m for m in models])
    guarded_traces = 0

    disagree = 0
    monitor_fail = 0
    prefix_match = 0
    distinct = set()
    samples = []
    first_replays = 0
    for i, (case, desc) in enumerate(cases):
        mi, mm = C.norm(impls[i]), C.norm(mout[i])
        g = None
        if case.startswith("trace "):
            mg = re.search(r" g=([01])", mm)
            g = mg.group(1) if mg else None
            mm = re.sub(r" g=[01]", "", mm)
        distinct.add(models[i].split("|", 1)[1] + "#" + str(desc.get("faults")) + "#" + str(desc.get("trace")))
        if len(samples) < 4 and i % 97 == 5:
            samples.append({"model_input": models[i][:300], "impl": mi[:300], "model": mm[:300]})
        bad = None
        if case.startswith("cd "):
            pre = parse_tree(models[i].split("|", 1)[1].split())
            okflag = mi.split("|")[0].strip() == "ok=1"
            post = parse_tree(mi.split("|", 1)[1].split())
            bad = monitor(pre, post, okflag, "DIR")
        elif case.startswith("trace "):
            # C20 for a guarded path: what was foreign at the start holds what it held
            pre = parse_tree(models[i].split("|")[1].split())
            post = parse_tree(mi.split("|", 1)[1].split())
            if g == "1":
                guarded_traces += 1
                for k, v in pre.items():
                    if not can_remove(v) and post.get(k) != v:
                        bad = "a guarded execution path changed %r, which was not uftrace data" % k
        else:
            pre = parse_tree(models[i].split("|")[1].split())
            post = parse_tree(mi.split())
            for k in set(pre) | set(post):
                if k != "uftrace-live-abc" and pre.get(k) != post.get(k):
                    bad = "live mode changed %r, which it did not create" % k
        if mi != mm:
            disagree += 1
        if bad or mi != mm:
            is_prefix = C.norm(pre_models[i]) == mi
            prefix_match += is_prefix
            if bad:
                monitor_fail += 1
            if (first_replays < 3 and not bad) or (bad and monitor_fail <= 3):
                first_replays += 1
                C.violation(ctx, "case%d" % i, {
                    "kind": "property-violated-on-implementation" if bad else "model-code-disagreement",
                    "what": bad, "harness_case": case, "desc": desc, "model_input": models[i],
                    "impl_output": mi, "model_output": mm,
                    "matches_prefix_model_F1": is_prefix,
                    "theorem": ("c20_guarded_trace_foreign_untouched" if case.startswith("trace ") else
                                "c20_foreign_untouched") if bad else None,
                }, no_failing_input=not bad)
    if (disagree or monitor_fail) and first_replays == 0:
        pass
    e2e_runs, e2e_bad, e2e_cov = e2e(ctx)
    ctx.coverage.update({
        "e2e_record_runs": e2e_runs, "e2e_monitor_failures": e2e_bad, "e2e": e2e_cov,
        "trace_cases": ntrace, "trace_cases_guarded": guarded_traces,
        "entry_points_from_source": tr["entries"] if tr else None,
        "evaluations": len(cases),
        "distinct_nontrivial": len(distinct),
        "rule": "exhaustive 9x9 grid of DIR/DIR.old pre-states x {no fault, k-th (k<2) failure of each of "
                "stat/unlink/rmdir/rename/mkdir/fopen}; then random trees (depth<=3) with 0-3 random faults; "
                "then live-mode cases; then execution paths (1-6 create/remove/fresh events over 4 names, 0-2 faults). "
                "distinct = distinct (readdir-ordered pre-tree, fault set, path) triples. e2e: every command that "
                "can create or remove a data directory x the DIR/DIR.old state grid, monitor = C20's statement",
        "grid_cases": grid, "random_cases": nrand, "live_cases": nlive,
        "faults_fired": fired,
        "model_code_disagreements": disagree,
        "monitor_failures_on_impl": monitor_fail,
        "disagreements_matching_prefix_model_F1": prefix_match,
        "exhaustive": False,
        "samples": samples,
    })
    ctx.assumptions += [
        "POSIX semantics of rename/mkdir/rmdir/unlink/lstat/symlink; a symbolic link named info or default.opts inside DIR, and DIR / DIR.old themselves when they are links, do not resolve (the probes that follow links are modelled for that case only)",
        "fault injection = EACCES from the k-th call of an interposed libc function",
        "read-side probes (access/open/opendir) are not made to fail: they define what 'uftrace directory' means",
    ]
    return C.finish(ctx)


def snapshot_tree(path):
    if not os.path.lexists(path):
        return None
    if os.path.isdir(path):
        return {n: snapshot_tree(os.path.join(path, n)) for n in os.listdir(path)}
    try:
        return open(path, "rb").read()
    except OSError:
        return b"<unreadable>"


SCRIPT_PY = """def uftrace_begin(ctx):
    pass
def uftrace_entry(ctx):
    pass
def uftrace_exit(ctx):
    pass
def uftrace_end():
    pass
"""

# every command that can create or remove a data directory (Gen/DirCallers.entryPoints, checked by
# c20_entry_points_covered_by_e2e) and how it is driven; "target" = what -d DIR means for it:
#   data     DIR is where the data goes: C20's statement applies as it stands
#   ignored  the command works elsewhere (a temporary directory of its own): DIR must stay as it is
#   reader   the command only reads DIR: everything must stay as it is
ENTRY_MODES = [
    # name, entry point, target, argv after `uftrace` (DIR/prog/script/port are substituted)
    ("record", "command_record", "data", ["record", "-d", "DIR", "PROG"]),
    ("record-host", "command_record", "data", ["record", "-d", "DIR", "--host", "127.0.0.1", "--port", "PORT", "PROG"]),
    ("live-record", "command_live", "data", ["live", "--record", "-d", "DIR", "PROG"]),
    ("default-record", "command_live", "data", ["--record", "-d", "DIR", "PROG"]),
    ("script-record", "command_script", "data", ["script", "--record", "-S", "SCRIPT", "-d", "DIR", "PROG"]),
    ("live", "command_live", "ignored", ["live", "PROG"]),
    ("live-d", "command_live", "ignored", ["live", "-d", "DIR", "PROG"]),
    ("record-nop", "command_record", "ignored", ["record", "--nop", "-d", "DIR", "PROG"]),
    ("replay", None, "reader", ["replay", "-d", "DIR"]),
    ("report", None, "reader", ["report", "-d", "DIR"]),
    ("info", None, "reader", ["info", "-d", "DIR"]),
    ("dump", None, "reader", ["dump", "-d", "DIR"]),
    ("graph", None, "reader", ["graph", "-d", "DIR"]),
    ("script", "command_script", "reader", ["script", "-S", "SCRIPT", "-d", "DIR"]),
    ("tui", None, "reader", ["tui", "-d", "DIR"]),
]
E2E_STATES = ["absent", "empty", "uftrace-info", "foreign-file", "foreign-nested", "is-a-file", "only-hidden", "bad-info"]
E2E_OLD = ["absent", "foreign-file", "uftrace-opts-only", "uftrace-with-links"]


def e2e(ctx, only=None):
    """Every command of the snapshot build that can create or remove a data directory (and the read-only
    ones), run against pre-populated DIR / DIR.old; the property monitor is evaluated on the file system.
    -> (runs, monitor failures, coverage)"""
    import socket
    import time
    from concurrent.futures import ThreadPoolExecutor
    ok, log = ctx.make()
    if not ok:
        C.violation(ctx, "make", {"kind": "build-failed", "log": log[-2000:]}, True)
        return 0, 0, {"built": False}
    uft = os.path.join(ctx.src, "uftrace")
    work = os.path.join(ctx.scratch, "e2e")
    os.makedirs(work)
    prog_c = os.path.join(work, "prog.c")
    open(prog_c, "w").write("int f(int x){return x+1;} int main(void){return f(1)-2;}\n")
    prog = os.path.join(work, "prog")
    subprocess.run(["gcc", "-pg", "-o", prog, prog_c], check=True)
    script = os.path.join(work, "s.py")
    open(script, "w").write(SCRIPT_PY)
    # loopback receiver for --host
    sock = socket.socket()
    sock.bind(("127.0.0.1", 0))
    port = sock.getsockname()[1]
    sock.close()
    rcv = subprocess.Popen([uft, "recv", "-d", os.path.join(work, "rcv"), "--port", str(port)],
                           stdout=subprocess.DEVNULL, stderr=subprocess.DEVNULL)
    time.sleep(0.5)
    bs = basic_states()
    common = ["--libmcount-path=" + os.path.join(ctx.src, "libmcount"), "--no-event", "--no-pager"]
    env = dict(os.environ, TERM="dumb")
    jobs = []
    for name, ep, target, argv in ENTRY_MODES:
        olds = E2E_OLD if target == "data" else ["absent", "foreign-file"]
        states = E2E_STATES
        if name in ("live", "default-record"):
            states = ["absent", "foreign-file", "uftrace-info"]
        if target != "data" and ctx.tier == "quick":
            olds = olds[:1] if name != "live-d" else olds
        for dn in states:
            for on in olds:
                jobs.append((name, ep, target, argv, dn, on))
    if only is not None:
        jobs = [(name, ep, target, argv, only[1], only[2]) for name, ep, target, argv in ENTRY_MODES if name == only[0]]

    def one(job):
        name, ep, target, argv, dn, on = job
        parent = os.path.join(work, "%s-%s-%s" % (name, dn, on))
        os.makedirs(parent)
        materialize(os.path.join(parent, "DIR"), bs[dn])
        materialize(os.path.join(parent, "DIR.old"), bs[on])
        materialize(os.path.join(parent, "bystander"), {"keep": b"me", "more": {"deep": b"precious"}})
        pre = snapshot_tree(parent)
        sub = {"PROG": prog, "SCRIPT": script, "PORT": str(port)}
        args = [sub.get(a, a) for a in argv]
        # the options every recording command needs here go right after the sub-command (or first)
        k = 1 if args[0] in ("record", "live", "script") else 0
        if target != "reader" or name == "script":
            args = args[:k] + (common if name != "script" else ["--no-pager"]) + args[k:]
        else:
            args = args[:k] + ["--no-pager"] + args[k:]
        cmd = [uft] + args
        try:
            p = subprocess.run(cmd, cwd=parent, stdin=subprocess.DEVNULL, stdout=subprocess.PIPE,
                               stderr=subprocess.PIPE, timeout=60, env=env)
            rc = p.returncode
            err = p.stderr.decode(errors="replace")[-300:]
        except subprocess.TimeoutExpired:
            rc, err = -999, "TIMEOUT"
        post = snapshot_tree(parent)
        for t in (pre, post):
            t.pop("gmon.out", None)
        if target == "data":
            what = monitor(pre, post, rc == 0, "DIR")
            if not what and dn == "absent" and on == "absent":
                # the command line itself has to work: a recording into a fresh name succeeds
                made = isinstance(post.get("DIR"), dict) and "info" in post["DIR"]
                if rc != 0 or (not made and name != "record-host"):
                    return {"job": job, "what": None, "broken": "rc=%d, DIR %s" % (rc, "made" if made else "not made"),
                            "rc": rc, "stderr": err, "cmd": " ".join(cmd).replace(work + "/", ""), "after": sorted(post.keys())}
        else:
            what = None if pre == post else "%s changed files although -d DIR is not where it writes" % name
        return {"job": job, "what": what, "rc": rc, "stderr": err, "cmd": " ".join(cmd).replace(work + "/", ""),
                "after": sorted(post.keys())}

    runs = bad = 0
    by_mode = {}
    reported = set()
    try:
        with ThreadPoolExecutor(8) as ex:
            results = list(ex.map(one, jobs))
        # report the most telling case of a mode first: DIR itself foreign, nothing else going on
        rank = {"foreign-file": 0, "foreign-nested": 1, "only-hidden": 2, "bad-info": 3, "is-a-file": 4}
        results.sort(key=lambda r: (rank.get(r["job"][4], 9), r["job"][5] != "absent"))
        for r in results:
            name, ep, target, argv, dn, on = r["job"]
            runs += 1
            by_mode[name] = by_mode.get(name, 0) + 1
            if r.get("broken") and "broken" not in reported:
                reported.add("broken")
                C.violation(ctx, "e2e-cmdline-%s" % name, {"kind": "harness-failed", "what": "the command does not record "
                                                          "into a fresh directory: " + r["broken"], "command": r["cmd"],
                                                          "stderr": r["stderr"]}, True)
            if r["what"]:
                bad += 1
                if name not in reported and len(reported) < 4:
                    reported.add(name)
                    C.violation(ctx, "e2e-%s-%s-%s" % (name, dn, on), {
                        "kind": "property-violated-on-implementation", "what": r["what"], "mode": name,
                        "entry_point": ep, "command": r["cmd"], "cwd": "a directory holding DIR, DIR.old, bystander/",
                        "DIR_before": dn, "DIR.old_before": on, "DIR_before_content": repr(bs[dn])[:300],
                        "after": r["after"], "uftrace_rc": r["rc"], "stderr": r["stderr"],
                        "theorem": "c20_foreign_untouched / c20_entry_points_foreign_untouched"})
        # the receiving side: a directory of the client's name (and its .old) in the receiver's working
        # directory that is somebody else's data must stay as it is (recv must not write into it)
        rjobs = []
        for i, dn in enumerate(E2E_STATES if only is None else []):
            for j, on in enumerate(E2E_OLD if ctx.tier == "thorough" else E2E_OLD[:2]):
                if dn == "absent" and on == "absent":
                    continue
                rjobs.append(("R%d%d" % (i, j), dn, on))
        for name, dn, on in rjobs:
            materialize(os.path.join(work, "rcv", name), bs[dn])
            materialize(os.path.join(work, "rcv", name + ".old"), bs[on])
        pre_rcv = snapshot_tree(os.path.join(work, "rcv"))

        def rone(job):
            name, dn, on = job
            parent = os.path.join(work, "hostfrom-" + name)
            os.makedirs(parent)
            cmd = [uft, "record"] + common + ["-d", name, "--host", "127.0.0.1", "--port", str(port), prog]
            try:
                rc = subprocess.run(cmd, cwd=parent, stdout=subprocess.PIPE, stderr=subprocess.PIPE, timeout=60).returncode
            except subprocess.TimeoutExpired:
                rc = -999
            return rc, " ".join(cmd).replace(work + "/", "")
        with ThreadPoolExecutor(4) as ex:
            rres = list(ex.map(rone, rjobs))
        time.sleep(0.5)
        post_rcv = snapshot_tree(os.path.join(work, "rcv"))
        for (name, dn, on), (rc, cmd) in zip(rjobs, rres):
            runs += 1
            by_mode["recv"] = by_mode.get("recv", 0) + 1
            what = None
            for nm, stn in ((name, dn), (name + ".old", on)):
                if pre_rcv.get(nm) is not None and not can_remove(pre_rcv.get(nm)) and post_rcv.get(nm) != pre_rcv.get(nm):
                    what = "uftrace recv changed %s in its working directory, which was not uftrace data (%s)" % (nm, stn)
            if what:
                bad += 1
                if "recv" not in reported:
                    reported.add("recv")
                    C.violation(ctx, "e2e-recv-%s-%s" % (dn, on), {
                        "kind": "property-violated-on-implementation", "what": what, "entry_point": "command_recv",
                        "command": cmd, "receiver_dir_before": dn, "receiver_dir_old_before": on, "uftrace_rc": rc,
                        "theorem": "c20_foreign_untouched (create_directory refused; the caller must not go on)"})
    finally:
        rcv.kill()
        rcv.wait()
    return runs, bad, {"built": True, "runs_by_mode": by_mode, "monitor_failures": bad}


def tree_from_tokens(tokens):
    """parse_tree output -> what materialize() takes (same shape)"""
    return parse_tree(tokens)


def replay(ctx, path):
    r = json.load(open(path))
    print(json.dumps(r, indent=1))
    if r.get("mode") and r.get("DIR_before") is not None:
        # an end-to-end case: the same command against the same pre-populated directories, current tree
        ctx.snapshot()
        before = len(ctx.violations)
        runs, bad, cov = e2e(ctx, only=(r["mode"], r["DIR_before"], r["DIR.old_before"]))
        print("re-run of `%s` with DIR=%s DIR.old=%s: %d run(s), monitor failures: %d" % (
            r["mode"], r["DIR_before"], r["DIR.old_before"], runs, bad))
        for p, _ in ctx.violations[before:]:
            print("  " + json.load(open(p)).get("what", ""))
        return 1 if bad else 0
    case = r.get("harness_case", "")
    if r.get("model_input") and case.split(" ")[0] in ("cd", "trace"):
        ctx.snapshot()
        exe = os.path.join(ctx.scratch, "h_c20")
        okc, log = ctx.cc(exe, [os.path.join(C.VERIF, "harness/c20_dirguard.c"), os.path.join(ctx.src, "utils/utils.c"),
                                os.path.join(ctx.src, "utils/debug.c")], extra=["-ldl"])
        if not okc:
            print("harness build failed:\n" + log[-1500:])
            return 2
        parent = os.path.join(ctx.scratch, "replay")
        pre = parse_tree(r["model_input"].split("|")[1].split())
        os.makedirs(parent)
        for k, v in pre.items():
            materialize(os.path.join(parent, k), v)
        fill = os.path.join(ctx.scratch, "fill")
        materialize(fill, {"1.dat": b"\x00", "info": MAGIC, "sub": {"k": b""}})
        w = case.split(" ")
        line = " ".join([w[0], parent] + w[2:]) if w[0] == "cd" else " ".join([w[0], parent, w[2], fill, w[4]])
        p = subprocess.run([exe], input=line + "\n", stdout=subprocess.PIPE, stderr=subprocess.PIPE, text=True, timeout=120)
        lines = p.stdout.split("\n")
        models = [l[6:] for l in lines if l.startswith("MODEL ")]
        impls = [l[5:] for l in lines if l.startswith("IMPL ")]
        if len(models) != 1 or len(impls) != 1:
            print("harness failed: " + p.stderr[-500:])
            return 2
        mm = re.sub(r" g=[01]", "", C.norm(C.run_model("C20", models)[0]))
        mi = C.norm(impls[0])
        print("case           : " + line)
        print("implementation : " + mi)
        print("model          : " + mm)
        post = parse_tree(mi.split("|", 1)[1].split())
        bad = monitor(pre, post, mi.split("|")[0].strip() == "ok=1", "DIR") if w[0] == "cd" else None
        print("monitor        : " + (bad or "ok"))
        return 1 if (bad or mi != mm) else 0
    return 0
