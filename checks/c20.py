"""C20 — Recording never destroys data that is not a uftrace data directory.
Lean: Uft/Model/DirGuard.lean, Uft/Props/C20.lean.  Tie: correspondence (H4):
the real create_directory()/remove_directory() of utils/utils.c run on generated
directory trees with injected syscall failures, against the model."""
import json
import os
import shutil
import subprocess

from lib import common as C

MAGIC = b"Ftrace!\0"

# the 8 basic states of DIR / DIR.old
class Link(str):
    """a symbolic link (the string is its target)"""


def basic_states():
    return {
        "absent": None,
        "empty": {},
        "uftrace-info": {"info": MAGIC + b"\x04\x00", "123.dat": b"\x01\x02", "task.txt": b"x"},
        "uftrace-opts-only": {"default.opts": b"-F main\n"},
        "foreign-file": {"precious.txt": b"data"},
        "foreign-nested": {"sub": {"deep": {"x.c": b"int x;"}}, "notes": b"n"},
        "is-a-file": b"i am a file",
        "bad-info": {"info": b"not magic", "default.opts": b""},
        "only-hidden": {".git": {"config": b"[core]"}, ".secret": b"s"},
        # symbolic links that lead out of the directory (to the bystander next to it): never followed
        "uftrace-with-links": {"info": MAGIC, "out": Link("../bystander"), "f": Link("../bystander/keep"),
                               "sub": {"up": Link("../../bystander")}},
        "uftrace-dangling-link": {"info": MAGIC, "dangling": Link("nowhere"), "x": b"1"},
        "foreign-with-link": {"l": Link("../bystander")},
    }


def rand_tree(rng, depth=0):
    kind = rng.random()
    if depth > 2 or kind < 0.15:
        return {}
    t = {}
    names = ["info", "default.opts", "a", "b.dat", "sub", "task.txt", "z", "sid-1.map", ".channel", ".git", ".hidden"]
    for _ in range(rng.randint(1, 4)):
        n = rng.choice(names)
        r = rng.random()
        if rng.random() < 0.12:
            # a link named info/default.opts does not resolve (model assumption); others lead outside
            t[n] = Link("nowhere") if n in ("info", "default.opts") else \
                Link(rng.choice(["../" * (depth + 1) + "bystander", "../" * (depth + 1) + "bystander/keep", "nowhere"]))
        elif r < 0.25 and n not in ("info",):
            t[n] = rand_tree(rng, depth + 1)
        elif n == "info":
            t[n] = rng.choice([MAGIC, MAGIC + b"\x01", b"Ftrace", b"", b"garbage!!", {}])
        else:
            t[n] = bytes(rng.randrange(256) for _ in range(rng.randint(0, 5)))
    return t


def rand_state(rng):
    r = rng.random()
    if r < 0.1:
        return None
    if r < 0.2:
        return bytes(rng.randrange(256) for _ in range(rng.randint(0, 4)))
    return rand_tree(rng)


def materialize(path, node):
    if node is None:
        return
    if isinstance(node, Link):
        os.symlink(str(node), path)
        return
    if isinstance(node, bytes):
        with open(path, "wb") as f:
            f.write(node)
        return
    os.makedirs(path)
    for k, v in node.items():
        materialize(os.path.join(path, k), v)


def parse_tree(tokens):
    """tokens -> nested dict (for the monitor)."""
    def ents(i):
        d = {}
        while i < len(tokens):
            if tokens[i] == "F":
                d[tokens[i + 1]] = bytes.fromhex("" if tokens[i + 2] == "-" else tokens[i + 2])
                i += 3
            elif tokens[i] == "D":
                sub, i = ents(i + 2)
                d[tokens[i_name(i)]] = sub  # placeholder, replaced below
            else:
                break
        return d, i
    # simple recursive descent
    pos = 0

    def parse():
        nonlocal pos
        d = {}
        while pos < len(tokens):
            t = tokens[pos]
            if t == "F":
                d[tokens[pos + 1]] = bytes.fromhex("" if tokens[pos + 2] == "-" else tokens[pos + 2])
                pos += 3
            elif t == "L":
                d[tokens[pos + 1]] = Link(tokens[pos + 2])
                pos += 3
            elif t == "D":
                name = tokens[pos + 1]
                pos += 2
                d[name] = parse()
                assert tokens[pos] == "E"
                pos += 1
            else:
                break
        return d
    return parse()


def is_uftrace(n):
    if not isinstance(n, dict):
        return False
    if "info" in n and not isinstance(n["info"], Link):      # open() of an unresolved link fails
        return isinstance(n["info"], bytes) and n["info"][:8] == MAGIC
    return "default.opts" in n and not isinstance(n["default.opts"], Link)


def can_remove(n):
    return n is not None and (is_uftrace(n) or n == {})


def monitor(pre, post, ok, d):
    """The property itself as a predicate on the implementation's observable
    behaviour. Returns None or a description of what is violated."""
    old = d + ".old"
    for k in set(pre) | set(post):
        if k not in (d, old) and pre.get(k) != post.get(k):
            return "entry %r outside DIR/DIR.old changed" % k
    pd, po = pre.get(d), pre.get(old)
    if pd is not None and not can_remove(pd):
        if post != pre:
            return "foreign DIR modified"
        if ok:
            return "recording did not fail on a foreign DIR"
    if po is not None and not can_remove(po):
        if post.get(old) != po:
            return "foreign DIR.old modified"
        if pd is not None and post.get(d) != pd:
            return "DIR replaced although DIR.old is foreign"
    return None


def run(ctx):
    ok, problems = C.prove(ctx, "C20")
    if not ok:
        C.violation(ctx, "proof", {"kind": "proof-obligation-broken", "problems": problems}, True)
        return C.finish(ctx)

    ctx.snapshot()
    exe = os.path.join(ctx.scratch, "h_c20")
    okc, log = ctx.cc(exe, [os.path.join(C.VERIF, "harness/c20_dirguard.c"),
                            os.path.join(ctx.src, "utils/utils.c"),
                            os.path.join(ctx.src, "utils/debug.c")], extra=["-ldl"])
    if not okc:
        C.violation(ctx, "build", {"kind": "harness-build-failed", "log": log[-2000:]}, True)
        return C.finish(ctx)

    fsroot = os.path.join(ctx.scratch, "fs")
    os.makedirs(fsroot)
    fill = os.path.join(ctx.scratch, "fill")
    materialize(fill, {"1.dat": b"\x00", "info": MAGIC, "sub": {"k": b""}})
    fill_empty = os.path.join(ctx.scratch, "fill0")
    os.makedirs(fill_empty)

    cases = []   # (command line for the harness, description)
    bs = basic_states()
    kinds = ["stat", "unlink", "rmdir", "rename", "mkdir", "fopen"]
    single_faults = ["-"] + ["%s:%d" % (k, i) for k in kinds for i in (0, 1)]
    n = 0

    def add(dstate, ostate, faults, desc, others=True):
        nonlocal n
        parent = os.path.join(fsroot, "c%d" % n)
        n += 1
        os.makedirs(parent)
        materialize(os.path.join(parent, "DIR"), dstate)
        materialize(os.path.join(parent, "DIR.old"), ostate)
        if others:
            materialize(os.path.join(parent, "bystander"), {"keep": b"me", "more": {"deep": b"precious"}})
        cases.append(("cd %s DIR %s" % (parent, faults), desc))

    # exhaustive 9 x 9 grid x {no fault, each single fault}
    for dn, dv in bs.items():
        for on, ov in bs.items():
            for f in single_faults:
                add(dv, ov, f, {"dir": dn, "old": on, "faults": f})
    grid = n
    # random trees, double faults
    nrand = 300 if ctx.tier == "quick" else 6000
    for _ in range(nrand):
        k = ctx.rng.choice([0, 0, 1, 2, 3])
        fl = ",".join("%s:%d" % (ctx.rng.choice(kinds), ctx.rng.randint(0, 3)) for _ in range(k)) or "-"
        add(rand_state(ctx.rng), rand_state(ctx.rng), fl, {"random": True, "faults": fl})
    # live mode
    nlive = 0
    for f in single_faults + (["unlink:2", "rmdir:1,stat:2"] if ctx.tier == "thorough" else []):
        for fsrc in (fill, fill_empty):
            parent = os.path.join(fsroot, "c%d" % n)
            n += 1
            os.makedirs(parent)
            materialize(os.path.join(parent, "other"), {"keep": b"me"})
            materialize(os.path.join(parent, "uftrace-live-abc.old"), {"precious": b"1"})
            cases.append(("live %s uftrace-live-abc %s %s" % (parent, fsrc, f), {"live": True, "faults": f}))
            nlive += 1

    r = subprocess.run([exe], input="\n".join(c[0] for c in cases) + "\n", stdout=subprocess.PIPE,
                       stderr=subprocess.PIPE, text=True, timeout=1200)
    lines = r.stdout.split("\n")
    models = [l[6:] for l in lines if l.startswith("MODEL ")]
    impls = [l[5:] for l in lines if l.startswith("IMPL ")]
    fired = sum(int(l.split("=")[1]) for l in lines if l.startswith("INFO fired="))
    if r.returncode != 0 or len(models) != len(cases) or len(impls) != len(cases):
        C.violation(ctx, "harness", {"kind": "harness-failed", "rc": r.returncode,
                                     "stderr": r.stderr[-2000:], "cases": len(cases),
                                     "got": [len(models), len(impls)]}, True)
        return C.finish(ctx)
    mout = C.run_model("C20", models)
    pre_models = C.run_model("C20", [("cdpre" + m[2:]) if m.startswith("cd ") else m for m in models])

    disagree = 0
    monitor_fail = 0
    prefix_match = 0
    distinct = set()
    samples = []
    first_replays = 0
    for i, (case, desc) in enumerate(cases):
        mi, mm = C.norm(impls[i]), C.norm(mout[i])
        distinct.add(models[i].split("|", 1)[1] + "#" + str(desc.get("faults")))
        if len(samples) < 4 and i % 97 == 5:
            samples.append({"model_input": models[i][:300], "impl": mi[:300], "model": mm[:300]})
        bad = None
        if case.startswith("cd "):
            pre = parse_tree(models[i].split("|", 1)[1].split())
            okflag = mi.split("|")[0].strip() == "ok=1"
            post = parse_tree(mi.split("|", 1)[1].split())
            bad = monitor(pre, post, okflag, "DIR")
        else:
            pre = parse_tree(models[i].split("|")[1].split())
            post = parse_tree(mi.split())
            for k in set(pre) | set(post):
                if k != "uftrace-live-abc" and pre.get(k) != post.get(k):
                    bad = "live mode changed %r, which it did not create" % k
        if mi != mm:
            disagree += 1
        if bad or mi != mm:
            is_prefix = C.norm(pre_models[i]) == mi
            prefix_match += is_prefix
            if bad:
                monitor_fail += 1
            if (first_replays < 3 and not bad) or (bad and monitor_fail <= 3):
                first_replays += 1
                C.violation(ctx, "case%d" % i, {
                    "kind": "property-violated-on-implementation" if bad else "model-code-disagreement",
                    "what": bad, "harness_case": case, "desc": desc, "model_input": models[i],
                    "impl_output": mi, "model_output": mm,
                    "matches_prefix_model_F1": is_prefix,
                    "theorem": "c20_foreign_untouched" if bad else None,
                }, no_failing_input=not bad)
    if (disagree or monitor_fail) and first_replays == 0:
        pass
    e2e_runs, e2e_bad = e2e(ctx)
    ctx.coverage.update({
        "e2e_record_runs": e2e_runs, "e2e_monitor_failures": e2e_bad,
        "evaluations": len(cases),
        "distinct_nontrivial": len(distinct),
        "rule": "exhaustive 9x9 grid of DIR/DIR.old pre-states x {no fault, k-th (k<2) failure of each of "
                "stat/unlink/rmdir/rename/mkdir/fopen}; then random trees (depth<=3) with 0-3 random faults; "
                "then live-mode cases. distinct = distinct (readdir-ordered pre-tree, fault set) pairs",
        "grid_cases": grid, "random_cases": nrand, "live_cases": nlive,
        "faults_fired": fired,
        "model_code_disagreements": disagree,
        "monitor_failures_on_impl": monitor_fail,
        "disagreements_matching_prefix_model_F1": prefix_match,
        "exhaustive": False,
        "samples": samples,
    })
    ctx.assumptions += [
        "POSIX semantics of rename/mkdir/rmdir/unlink/lstat/symlink; a symbolic link named info or default.opts inside DIR, and DIR / DIR.old themselves when they are links, do not resolve (the probes that follow links are modelled for that case only)",
        "fault injection = EACCES from the k-th call of an interposed libc function",
        "read-side probes (access/open/opendir) are not made to fail: they define what 'uftrace directory' means",
    ]
    return C.finish(ctx)


def snapshot_tree(path):
    if not os.path.lexists(path):
        return None
    if os.path.isdir(path):
        return {n: snapshot_tree(os.path.join(path, n)) for n in os.listdir(path)}
    try:
        return open(path, "rb").read()
    except OSError:
        return b"<unreadable>"


def e2e(ctx):
    """The real `uftrace record` / `record --host` / live runs of the snapshot build against
    pre-populated DIR / DIR.old; the property monitor is evaluated on the file system."""
    import socket
    import time
    ok, log = ctx.make()
    if not ok:
        C.violation(ctx, "make", {"kind": "build-failed", "log": log[-2000:]}, True)
        return 0, 0
    uft = os.path.join(ctx.src, "uftrace")
    work = os.path.join(ctx.scratch, "e2e")
    os.makedirs(work)
    prog_c = os.path.join(work, "prog.c")
    open(prog_c, "w").write("int f(int x){return x+1;} int main(void){return f(1)-2;}\n")
    prog = os.path.join(work, "prog")
    subprocess.run(["gcc", "-pg", "-o", prog, prog_c], check=True)
    # loopback receiver for --host
    sock = socket.socket()
    sock.bind(("127.0.0.1", 0))
    port = sock.getsockname()[1]
    sock.close()
    rcv = subprocess.Popen([uft, "recv", "-d", os.path.join(work, "rcv"), "--port", str(port)],
                           stdout=subprocess.DEVNULL, stderr=subprocess.DEVNULL)
    time.sleep(0.5)
    bs = basic_states()
    states = ["absent", "empty", "uftrace-info", "foreign-file", "foreign-nested", "is-a-file", "only-hidden", "bad-info"]
    runs = bad = 0
    try:
        for mode in ("local", "host", "live"):
            for dn in states:
                for on in (["absent", "foreign-file", "uftrace-opts-only", "uftrace-with-links"] if mode != "live" else ["absent"]):
                    if mode == "live" and dn not in ("absent", "foreign-file"):
                        continue
                    parent = os.path.join(work, "%s-%s-%s" % (mode, dn, on))
                    os.makedirs(parent)
                    materialize(os.path.join(parent, "DIR"), bs[dn])
                    materialize(os.path.join(parent, "DIR.old"), bs[on])
                    materialize(os.path.join(parent, "bystander"), {"keep": b"me", "more": {"deep": b"precious"}})
                    pre = snapshot_tree(parent)
                    cmd = [uft, "record", "--libmcount-path=" + os.path.join(ctx.src, "libmcount"), "--no-event", "-d", "DIR"]
                    if mode == "host":
                        cmd += ["--host", "127.0.0.1", "--port", str(port)]
                    if mode == "live":
                        # live mode works in a temporary directory of its own; DIR here is a bystander
                        cmd = [uft, "live", "--libmcount-path=" + os.path.join(ctx.src, "libmcount"), "--no-event", "--no-pager"]
                    try:
                        p = subprocess.run(cmd + [prog], cwd=parent, stdout=subprocess.PIPE, stderr=subprocess.PIPE, timeout=60)
                        rc = p.returncode
                    except subprocess.TimeoutExpired:
                        rc = -999
                    post = snapshot_tree(parent)
                    runs += 1
                    for t in (pre, post):
                        t.pop("gmon.out", None)
                    if mode == "live":
                        what = None if pre == post else "live mode changed files it did not create"
                    else:
                        # the tracee exits non-zero on purpose?  no: rc 0 means recording succeeded
                        what = monitor(pre, post, rc == 0, "DIR")
                    if what:
                        bad += 1
                        if bad <= 2:
                            C.violation(ctx, "e2e-%s-%s-%s" % (mode, dn, on), {
                                "kind": "property-violated-on-implementation", "what": what, "mode": mode,
                                "command": " ".join(cmd + ["./prog"]), "DIR_before": dn, "DIR.old_before": on,
                                "after": sorted(post.keys()), "uftrace_rc": rc,
                                "theorem": "c20_foreign_untouched / c20_record_run_foreign_untouched"})
        # the receiving side: a directory of the same name in the receiver's working directory that is
        # somebody else's data must stay as it is (recv must not write into it)
        for dn in ("foreign-file", "bad-info", "foreign-nested", "is-a-file"):
            name = "R" + dn.replace("-", "")
            materialize(os.path.join(work, "rcv", name), bs[dn])
            pre = snapshot_tree(os.path.join(work, "rcv", name))
            parent = os.path.join(work, "hostfrom-" + dn)
            os.makedirs(parent)
            cmd = [uft, "record", "--libmcount-path=" + os.path.join(ctx.src, "libmcount"), "--no-event", "-d", name,
                   "--host", "127.0.0.1", "--port", str(port)]
            try:
                rc = subprocess.run(cmd + [prog], cwd=parent, stdout=subprocess.PIPE, stderr=subprocess.PIPE, timeout=60).returncode
            except subprocess.TimeoutExpired:
                rc = -999
            time.sleep(0.3)
            post = snapshot_tree(os.path.join(work, "rcv", name))
            runs += 1
            if pre != post:
                bad += 1
                if bad <= 3:
                    C.violation(ctx, "e2e-recv-%s" % dn, {
                        "kind": "property-violated-on-implementation",
                        "what": "uftrace recv wrote into a directory of its working directory that is not uftrace data",
                        "command": " ".join(cmd + ["./prog"]), "receiver_dir_before": dn,
                        "before": sorted(pre) if isinstance(pre, dict) else "file", "after": sorted(post) if isinstance(post, dict) else "file",
                        "uftrace_rc": rc, "theorem": "c20_foreign_untouched (create_directory refused; the caller must not go on)"})
    finally:
        rcv.kill()
        rcv.wait()
    return runs, bad


def replay(ctx, path):
    r = json.load(open(path))
    print(json.dumps(r, indent=1))
    return 0
