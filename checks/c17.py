"""C17 — Read-trigger and watchpoint events are placed and valued consistently.
Lean: Uft/Model/Events.lean (on top of Uft/Model/Mcount.lean), Uft/Lemmas/Events.lean,
Uft/Props/C17.lean.
Tie: T (translators/events2lean.py: ARGBUF_SIZE, EVTBUF_HDR, MAX_EVENT, ASYNC_IDX, the argument size
limit of save_to_argbuf, the event ids and the rows of read_events[] are regenerated into
lean/Uft/Gen/EventTab.lean from the snapshot's sources on every run) and
C (H1): the real libmcount configured through the real UFTRACE_TRIGGER (read=),
UFTRACE_WATCH (cpu, var:NAME), UFTRACE_THRESHOLD, UFTRACE_ARGUMENT / UFTRACE_RETVAL strings,
driven in-process (harness/h1_c17_driver.c) with a scripted clock and scripted value sources
(getrusage, /proc/self/statm, sched_getcpu, three watched globals, asynchronous events, up to
three threads), against the Lean model `C17`; monitors evaluate the property itself on the
implementation's record stream; an ASan build of the same harness looks for memory errors.
Class `filters`: -F / -N / -D option sets combined with -t, watchpoints and read triggers, mostly with
cygprof hooks, so that frames that are not recorded sit below, between and above recorded ones (rstack
index != record depth); the monitor `watch_iff_change` evaluates "a watch event is recorded exactly when
the watched value changed" on the implementation's stream under these filters (Lean:
c17_dropped_with_call_filtered, c17_dropped_keeps_callers_events).

Five behaviours of the anchored code have a repaired and an as-coded variant in the model
(`fixarg`, `fixvar`, `fixidx`, `fixpair`; S6 is a pure memory-safety defect seen by the ASan run).  The
check finds out which variant the implementation follows and reports every as-coded variant
that violates the property (KNOWN-FINDING if listed open in known_findings.json)."""
import glob
import itertools
import json
import os
import re
import struct
import sys
import time
from concurrent.futures import ThreadPoolExecutor

from lib import common as C, h1
from translators import events2lean

NF = 9
VAR_NAMES = ["wv8", "wv4", "wv1"]
VAR_SIZES = [8, 4, 1]
READ_NAME = {1: "proc/statm", 2: "page-fault"}
READ_IDS = {1: (100001, 100003, 3), 2: (100002, 100004, 2)}     # bit -> (read id, diff id, fields)
ID_CPU, ID_VAR = 100011, 100012
PAGEKB = os.sysconf("SC_PAGE_SIZE") // 1024
U64 = 1 << 64
ARG_MAX = 988       # `max_size` of save_to_argbuf(); replaced by the translated value at run time
ARG_SIZES = [8, 16, 100, 500, 872, 876, 880, 904, 908, 912, 944, 948, 952, 956, 960, 976, 980, 984, 988, 992,
             1000, 1016, 1020, 1024, 1100]
FLAGS = ("fixarg", "fixvar", "fixidx", "fixpair")
FINDING_OF = {"fixarg": "F17c", "fixvar": "F17b", "fixidx": "F17d", "fixpair": "F17e"}
WHAT = {
    "F17c": "save_trigger_read() (libmcount/record.c) takes the argument size from `*(uint32_t *)ptr` with "
            "ptr = argbuf + event_idx instead of the start of the frame's slice: with -A/-R on a read= function "
            "the read/diff events are dropped depending on the next frame's stale slice word (entry) and on the "
            "low 32 bits of the entry time stamp (exit); out-of-bounds read for the deepest frame",
    "F17b": "save_watchpoint() (libmcount/record.c) never refreshes the per-thread copy of a watched variable: a "
            "change back to the value the thread started with, and then to the last reported value, is not reported",
    "F17d": "save_watchpoint() tags events with the rstack index but mcount_exit_filter_record() keeps events with "
            "idx < mtdp->idx: watch events of a call dropped by the time filter are not dropped with it",
    "F17e": "save_trigger_read() (libmcount/record.c) tests the room left above the argument data event by event: with an "
            "argument payload of 957..988 bytes (read=page-fault; 941..980 for proc/statm) the read event of the entry "
            "hook is stored and the diff event of the exit hook is silently dropped, and an exit hook that finds no read "
            "event of its source stores a second READ event (stamped with the exit time) instead of a diff: a read "
            "without its diff / a diff-less read before EXIT",
    "S6": "mcount_watch_init() (libmcount/mcount.c) allocates the global watch item without room for data[] "
          "(and leaves `inited` uninitialised); mcount_watch_update() compares/copies `size` bytes into it: "
          "heap-buffer-overflow for an 8-byte variable",
}


def fname(i):
    return "g_big" if i == 8 else "f%d" % i


def align(n, a):
    return (n + a - 1) // a * a


# ---- abstract configuration -------------------------------------------------------------
def new_trig():
    return {"read": 0, "time": None, "trace": False, "arg": None, "ret": False}


def new_cfg():
    return {"threshold": None, "trig": {}, "watch": [], "max_stack": None, "F": [], "N": [], "D": None}


def norm_cfg(cfg):
    cfg = dict(cfg)
    cfg["trig"] = {int(k): dict(new_trig(), **v) for k, v in cfg.get("trig", {}).items()}
    cfg.setdefault("threshold", None)
    cfg.setdefault("watch", [])
    cfg.setdefault("max_stack", None)
    cfg.setdefault("F", [])           # -F: opt-in functions
    cfg.setdefault("N", [])           # -N: opt-out functions
    cfg.setdefault("D", None)         # -D: depth
    return cfg


def has_filters(cfg):
    return bool(cfg.get("F") or cfg.get("N") or cfg.get("D") is not None)


def to_env(cfg, fill=0):
    """`fill`: the byte fresh heap memory holds.  glibc's MALLOC_PERTURB_ makes it deterministic (the
    library reads uninitialised heap memory in two places on the unchanged tree: S6, F17c); 0 is what
    a fresh process sees from the kernel."""
    env = {"UFTRACE_BUFFER": "1048576", "MALLOC_PERTURB_": str(255 - fill),
           "GLIBC_TUNABLES": "glibc.malloc.tcache_count=0"}      # tcache hits are not perturbed
    if cfg["threshold"] is not None:
        env["UFTRACE_THRESHOLD"] = str(cfg["threshold"])
    trs, args, rets = [], [], []
    for fn, t in sorted(cfg["trig"].items()):
        items = ["read=" + READ_NAME[b] for b in (1, 2) if t["read"] & b]
        if t["time"] is not None:
            items.append("time=%dns" % t["time"])
        if t["trace"]:
            items.append("trace")
        if items:
            trs.append("^%s$@%s" % (fname(fn), ",".join(items)))
        if t["arg"] is not None:
            args.append("^%s$@arg1/t%d%%stack+1" % (fname(fn), t["arg"]))
        if t["ret"]:
            rets.append("^%s$@retval" % fname(fn))
    if trs:
        env["UFTRACE_TRIGGER"] = ";".join(trs)
    if args:
        env["UFTRACE_ARGUMENT"] = ";".join(args)
    if rets:
        env["UFTRACE_RETVAL"] = ";".join(rets)
    if cfg["watch"]:
        env["UFTRACE_WATCH"] = ";".join("cpu" if w == "cpu" else "var:" + VAR_NAMES[w] for w in cfg["watch"])
    if cfg["max_stack"] is not None:
        env["UFTRACE_MAX_STACK"] = str(cfg["max_stack"])
    filt = ["^%s$" % fname(f) for f in cfg.get("F", [])] + ["!^%s$" % fname(f) for f in cfg.get("N", [])]
    if filt:
        env["UFTRACE_FILTER"] = ";".join(filt)
    if cfg.get("D") is not None:
        env["UFTRACE_DEPTH"] = str(cfg["D"])
    return env


def arg_size(t):
    """what save_to_argbuf computes for `arg1/t<N>%stack+1` (values > ARG_MAX: it fails).  A struct passed in a
    register (`%rdi`) is not used: reg_idx and stack_ofs share a union in struct uftrace_arg_spec, so
    mcount_get_struct_arg() also copies `size` bytes from the stack after the register part and runs
    8 bytes over the reserved size (seen while building this harness; argument capture is C09's subject)."""
    if t["arg"] is None:
        return None
    return align(t["arg"], 4) if t["arg"] <= ARG_MAX else t["arg"]


def to_model(cfg, flags):
    wv = [w for w in cfg["watch"] if w != "cpu"]
    line = "CFG maxstack=%d depth=%d optin=%d threshold=%d watchcpu=%d pagekb=%d fixarg=%d fixvar=%d fixidx=%d fixpair=%d" % (
        cfg["max_stack"] if cfg["max_stack"] is not None else 1024,
        cfg["D"] if cfg.get("D") is not None else 1024, 1 if cfg.get("F") else 0, cfg["threshold"] or 0,
        1 if "cpu" in cfg["watch"] else 0, PAGEKB, flags[0], flags[1], flags[2], flags[3])
    if wv:
        line += " vars=" + ",".join(str(k) for k in wv)
    out = [line]
    fns = sorted(set(cfg["trig"]) | set(cfg.get("F", [])) | set(cfg.get("N", [])))
    for fn in fns:
        t = cfg["trig"].get(fn) or new_trig()
        items = []
        if fn in cfg.get("F", []):
            items.append("filter=in")
        elif fn in cfg.get("N", []):
            items.append("filter=out")
        if t["time"] is not None:
            items.append("time=%d" % t["time"])
        if t["trace"]:
            items.append("trace")
        if t["read"]:
            items.append("read=%d" % t["read"])
        if t["arg"] is not None:
            items.append("arg=%d" % arg_size(t))
        if t["ret"]:
            items.append("ret=8")
        out.append("TRIG %d %s" % (fn, " ".join(items)))
    return out


# ---- generators ---------------------------------------------------------------------------
def rand_cfg(rng, clean=False):
    c = new_cfg()
    if not clean and rng.random() < 0.45:
        c["threshold"] = rng.choice([3, 8, 15, 40])
    for fn in rng.sample(range(NF), rng.randint(1, 4)):
        t = new_trig()
        t["read"] = rng.choice([0, 1, 2, 2, 3, 3])
        if not clean and rng.random() < 0.2:
            t["time"] = rng.choice([1, 5, 12, 30])
        if not clean and rng.random() < 0.15:
            t["trace"] = True
        if rng.random() < 0.45:
            t["arg"] = rng.choice(ARG_SIZES)
        if rng.random() < 0.25:
            t["ret"] = True
        c["trig"][fn] = t
    w = []
    if rng.random() < 0.6:
        w.append("cpu")
    w += rng.sample([0, 1, 2], rng.choice([0, 0, 1, 1, 2, 3]))
    rng.shuffle(w)
    c["watch"] = w
    return c


def rand_filter_cfg(rng):
    """filters x events: -F / -N / -D option sets together with -t and watchpoints / read triggers, so that
    frames that are not recorded (NORECORD: outside the -F region, the -N function, beyond -D) sit on the
    return stack below and above recorded ones (cygprof hooks push a frame for every call; the -pg hook
    only for a call whose trigger changes the filter state): the rstack index of a frame then differs from
    its record depth"""
    c = new_cfg()
    c["threshold"] = rng.choice([8, 15, 15, 40])
    fns = list(range(NF))
    r = rng.random()
    if r < 0.8:
        c["F"] = rng.sample(fns[1:], rng.choice([1, 1, 2, 3]))
    if rng.random() < (0.35 if c["F"] else 0.9):
        c["N"] = [f for f in rng.sample(fns[1:], rng.choice([1, 1, 2])) if f not in c["F"]]
    if rng.random() < 0.4:
        c["D"] = rng.randint(1, 4)
    for fn in rng.sample(fns, rng.randint(0, 3)):
        t = new_trig()
        t["read"] = rng.choice([0, 1, 2, 3])
        if rng.random() < 0.15:
            t["trace"] = True
        if rng.random() < 0.15:
            t["time"] = rng.choice([5, 12, 30])
        if rng.random() < 0.2:
            t["arg"] = rng.choice([8, 16, 100])
        if rng.random() < 0.2:
            t["ret"] = True
        c["trig"][fn] = t
    w = []
    if rng.random() < 0.75:
        w.append("cpu")
    w += rng.sample([0, 1, 2], rng.choice([0, 1, 1, 2]))
    if not w:
        w = ["cpu"]
    rng.shuffle(w)
    c["watch"] = w
    return c


def needs_probe(cfg, fn):
    t = cfg["trig"].get(fn)
    return bool(t and t["read"] and (t["arg"] is not None or t["ret"]))


def gen_script(rng, cfg, nthreads=1, clean=False, max_calls=14, max_depth=5, asyncs=False, kind="pg", gaps=None,
               change=1.0):
    """`gaps`: the clock steps between hooks (default: the class's own); `change`: factor on the rate at which
    the cpu / the watched variables change between hooks"""
    ops = []
    src = {"ru": [rng.randrange(50), rng.randrange(5000)], "sm": [rng.randrange(1000, 9000) for _ in range(3)],
           "cpu": rng.randrange(4), "vars": [0, 0, 0]}
    ops.append("RU %d %d" % tuple(src["ru"]))
    ops.append("SM %d %d %d" % tuple(src["sm"]))
    ops.append("CPU %d" % src["cpu"])
    vals = [[0, 1, 2, 0xdeadbeefcafe, U64 - 1], [0, 1, 7, 0xfffffffe], [0, 1, 255]]
    for k in range(3):
        if rng.random() < 0.5:
            src["vars"][k] = rng.choice(vals[k])
            ops.append("V %d %x" % (k, src["vars"][k]))
    if gaps is None:
        gaps = [2, 3, 5, 10, 30] if clean else [0, 1, 1, 2, 2, 3, 5, 10, 30]
    now = 1000
    stacks = [[] for _ in range(nthreads)]
    started = [False] * nthreads
    calls = 0
    cur = 0
    plain = [f for f in range(NF) if not needs_probe(cfg, f)] or list(range(NF))
    while True:
        live = [t for t in range(nthreads) if stacks[t] or calls < max_calls]
        if not live:
            break
        th = rng.choice(live)
        if th != cur:
            ops.append("TH %d" % th)
            cur = th
        st = stacks[th]
        if not st:
            act = "E"
        elif len(st) >= max_depth or calls >= max_calls:
            act = "X"
        else:
            act = rng.choice("EEX")
        now += rng.choice(gaps)
        ops.append("T %d" % now)
        if rng.random() < 0.5:
            if rng.random() < 0.04 and not clean:
                ops.append("RU fail")
                src["ru"] = None
            else:
                base = src["ru"] or [rng.randrange(50), rng.randrange(5000)]
                if rng.random() < 0.1:
                    src["ru"] = [max(0, base[0] - rng.randrange(3)), max(0, base[1] - rng.randrange(40))]
                else:
                    src["ru"] = [base[0] + rng.choice([0, 0, 1, 3]), base[1] + rng.choice([0, 5, 17, 100])]
                ops.append("RU %d %d" % tuple(src["ru"]))
        if rng.random() < 0.4:
            src["sm"] = [max(0, v + rng.choice([-20, 0, 0, 3, 64])) for v in src["sm"]]
            ops.append("SM %d %d %d" % tuple(src["sm"]))
        if rng.random() < 0.3 * change:
            src["cpu"] = rng.randrange(4)
            ops.append("CPU %d" % src["cpu"])
        for k in range(3):
            if rng.random() < 0.25 * change:
                src["vars"][k] = rng.choice(vals[k])
                ops.append("V %d %x" % (k, src["vars"][k]))
        if asyncs and started[th] and rng.random() < 0.1:
            ops.append("AE %d" % (1000001 + rng.randrange(3)))
            if rng.random() < 0.7:
                now += rng.choice(gaps)
                ops.append("T %d" % now)
        if act == "E":
            fn = rng.choice(plain) if not started[th] else rng.randrange(NF)
            t = cfg["trig"].get(fn)
            k = "pg" if (t and t["arg"] is not None) else (kind if kind != "mix" else rng.choice(["pg", "cyg"]))
            ops.append("E %s %d" % (k, fn))
            st.append(fn)
            started[th] = True
            calls += 1
        else:
            ops.append("X")
            st.pop()
    if cur != 0:
        ops.append("TH 0")
    ops.append("END")
    return ops


# ---- reading the script back: the hooks with the values the sources had ---------------------
def parse_hooks(script):
    """-> (hooks, calls, has_async). hook = dict(i, th, typ, fn, t, ru, sm, cpu, vars, call);
    call = dict(id, th, fn, t0, t1, depth, parent, kind, hE, hX)"""
    now = 1000
    ru, sm, cpu, vs = (0, 0), (0, 0, 0), 0, [0, 0, 0]
    th = 0
    stacks = {}
    hooks, calls = [], []
    has_async = False
    for i, l in enumerate(script):
        p = l.split()
        if p[0] == "T":
            now = int(p[1])
        elif p[0] == "RU":
            ru = None if p[1] == "fail" else (int(p[1]), int(p[2]))
        elif p[0] == "SM":
            sm = (int(p[1]), int(p[2]), int(p[3]))
        elif p[0] == "CPU":
            cpu = int(p[1])
        elif p[0] == "V":
            k = int(p[1])
            vs = list(vs)
            vs[k] = int(p[2], 16) % (1 << (8 * VAR_SIZES[k]))
        elif p[0] == "TH":
            th = int(p[1])
        elif p[0] == "AE":
            has_async = True
        elif p[0] in ("E", "X"):
            st = stacks.setdefault(th, [])
            h = {"i": i, "th": th, "typ": p[0], "t": now, "ru": ru, "sm": sm, "cpu": cpu, "vars": list(vs)}
            if p[0] == "E":
                c = {"id": len(calls), "th": th, "fn": int(p[2]), "t0": now, "t1": None, "depth": len(st),
                     "parent": st[-1]["id"] if st else None, "kind": p[1], "hE": h, "hX": None, "kids": []}
                if st:
                    st[-1]["kids"].append(c)
                calls.append(c)
                st.append(c)
            else:
                if not st:
                    continue
                c = st.pop()
                c["t1"] = now
                c["hX"] = h
            h["fn"] = c["fn"]
            h["call"] = c
            hooks.append(h)
    return hooks, calls, has_async


def reading(h, bit):
    if bit == 1:
        return [v * PAGEKB for v in h["sm"]]
    return None if h["ru"] is None else list(h["ru"])


def ev_tok(eid, t, data):
    """V:id:time:dsize:data as the model prints it"""
    if eid == ID_CPU:
        return "V:%d:%d:4:%d" % (eid, t, data)
    if eid == ID_VAR:
        k, size, v = data
        return "V:%d:%d:%d:%d=%d" % (eid, t, 8 + size, k, v)
    return "V:%d:%d:%d:%s" % (eid, t, 8 * len(data), ",".join(str(x) for x in data))


def read_plan(cfg, call):
    """The read / diff events the property asks for around a recorded call: per source one read event
    after ENTRY and one diff event before EXIT, or neither.  Neither: when the frame's slice has no
    room for the read and the diff events of all selected sources above the argument data (4 + argument
    size); a source whose reading fails at entry has neither, one whose reading fails only at exit has
    its read event alone (nothing to subtract)."""
    t = cfg["trig"].get(call["fn"])
    if not t or not t["read"]:
        return [], []
    a = arg_size(t)
    floor = 4 + a if (a is not None and a <= ARG_MAX and call["kind"] == "pg") else 0
    need = sum(16 + 8 * READ_IDS[bit][2] for bit in (1, 2) if t["read"] & bit)
    if 1024 - 2 * need < floor:
        return [], []
    reads, diffs = [], []
    have = {}
    for bit in (1, 2):
        if t["read"] & bit:
            v = reading(call["hE"], bit)
            if v is None:
                continue
            have[bit] = v
            reads.append(ev_tok(READ_IDS[bit][0], call["t0"], v))
    if call["hX"] is not None:
        for bit in (1, 2):
            if t["read"] & bit and bit in have:
                v = reading(call["hX"], bit)
                if v is None:
                    continue
                diffs.append(ev_tok(READ_IDS[bit][1], call["t1"], [(x - y) % U64 for x, y in zip(v, have[bit])]))
    return reads, diffs


def spec_stream(cfg, script):
    """The property as a specification, for histories in the class the theorems cover: one thread,
    no asynchronous events, no time filter, every hook at least 2 ns after the previous one.
    Returns the expected token stream, or None when the history is outside that class (or would
    need more than MAX_EVENT pending watch events)."""
    hooks, calls, has_async = parse_hooks(script)
    if has_async or cfg["threshold"] or any(t["time"] is not None for t in cfg["trig"].values()):
        return None
    if has_filters(cfg):
        return None
    if any(h["th"] != 0 for h in hooks) or not hooks:
        return None
    last = None
    for h in hooks:
        if last is not None and h["t"] < last + 2:
            return None
        if h["ru"] is None:
            return None
        last = h["t"]
    if any(c["t1"] is None for c in calls):
        return None
    wv = [w for w in cfg["watch"] if w != "cpu"]
    out = []
    inited = False
    prev_cpu = None
    prev = [hooks[0]["vars"][k] for k in wv]
    pending = 0
    for h in hooks:
        c = h["call"]
        t = cfg["trig"].get(c["fn"]) or new_trig()
        first = bool(cfg["watch"]) and not inited
        wt = h["t"] + 1 if first else h["t"] - 1
        w = []
        if "cpu" in cfg["watch"]:
            if first or h["cpu"] != prev_cpu:
                w.append(ev_tok(ID_CPU, wt, h["cpu"]))
            prev_cpu = h["cpu"]
        for pos, k in enumerate(wv):
            if h["vars"][k] != prev[pos]:
                w.append(ev_tok(ID_VAR, wt, (pos, VAR_SIZES[k], h["vars"][k])))
                prev[pos] = h["vars"][k]
        if cfg["watch"]:
            inited = True
        pending += len(w)
        if pending > 4:
            return None
        reads, diffs = read_plan(cfg, c)
        if h["typ"] == "E":
            a = arg_size(t)
            tok = "E:%d:%d:%d" % (c["depth"], c["fn"], c["t0"])
            if a is not None and a <= ARG_MAX and c["kind"] == "pg":
                tok += ":m%d" % a
            out += ([tok] + reads + w) if first else (w + [tok] + reads)
        else:
            tok = "X:%d:%d:%d" % (c["depth"], c["fn"], c["t1"])
            if t["ret"] and c["kind"] == "pg":
                tok += ":m8"
            out += w + diffs + [tok]
            pending = 0
    return out


# ---- decoding the implementation's records -------------------------------------------------
def decode(hexs, syms, varaddrs, cfg):
    toks = []
    b = bytes.fromhex(hexs)
    wv = [w for w in cfg["watch"] if w != "cpu"]
    i = 0
    while i + 16 <= len(b):
        t, w = struct.unpack_from("<QQ", b, i)
        i += 16
        typ, more, magic, depth, addr = w & 3, (w >> 2) & 1, (w >> 3) & 7, (w >> 6) & 0x3ff, w >> 16
        if magic != 5:
            toks.append("BADMAGIC@%d" % (i - 16))
            break
        if typ == 3:
            ln, data = 0, b""
            if more:
                ln = struct.unpack_from("<H", b, i)[0]
                data = b[i + 2:i + 2 + ln]
                i += align(ln + 2, 8)
            if addr in (100001, 100002, 100003, 100004) and ln % 8 == 0:
                toks.append(ev_tok(addr, t, list(struct.unpack("<%dQ" % (ln // 8), data))))
            elif addr == ID_CPU and ln == 4:
                toks.append(ev_tok(addr, t, struct.unpack("<i", data)[0]))
            elif addr == ID_VAR and ln > 8:
                a = struct.unpack_from("<Q", data)[0]
                k = varaddrs.index(a) if a in varaddrs else -1
                pos = wv.index(k) if k in wv else -1
                toks.append(ev_tok(addr, t, (pos, ln - 8, int.from_bytes(data[8:], "little"))))
            else:
                toks.append("V:%d:%d:%d:%s" % (addr, t, ln, data.hex() if ln else "-"))
        elif typ in (0, 1):
            fn = syms.index(addr) if addr in syms else -1
            tok = "%s:%d:%s:%d" % ("EX"[typ], depth, fn if fn >= 0 else hex(addr), t)
            if more:
                tr = cfg["trig"].get(fn)
                if typ == 0 and tr and tr["arg"] is not None:
                    size = arg_size(tr)
                elif typ == 1 and tr and tr["ret"]:
                    size = 8
                else:
                    toks.append(tok + ":m?")
                    break
                tok += ":m%d" % size
                i += align(size, 8)
            toks.append(tok)
        else:
            toks.append("L:%d:%d" % (addr, t))
    if i != len(b) and not (toks and (toks[-1].startswith("BADMAGIC") or toks[-1].endswith(":m?"))):
        toks.append("TRAILING%d" % (len(b) - i))
    return " ".join(toks) if toks else "-"


def impl_lines(r, cfg):
    """-> (normalised lines in the model's format, probe words per op line, bad observations)"""
    if not r["lines"] or not r["lines"][0].startswith("SYMS"):
        return ["HARNESS-FAILED rc=%s %s" % (r["rc"], r["stderr"][-300:])], [], []
    p = r["lines"][0].split()
    syms = [int(x, 16) for x in p[1:10]]
    varaddrs = [int(x, 16) for x in p[-1].split("=")[1].split(",")]
    out, probes, bad = [], [], []
    for l in r["lines"][1:]:
        m = re.match(r"\d+ (.*)", l)
        body = m.group(1) if m else l
        mw = re.search(r"w=(\S+) ", body)
        probes.append(mw.group(1) if mw else None)
        if "errno=BAD" in body or "ret=BAD" in body:
            bad.append(body[:80])
        mm = re.search(r"recs=(\S*)", body)
        if mm:
            body = body[:mm.start()] + "recs=" + decode(mm.group(1).replace("-", ""), syms, varaddrs, cfg)
        body = re.sub(r"w=\S+ |rc=-?\d+ |errno=\S+ |ret=\S+ ", "", body)
        out.append(C.norm(body))
    return out, probes, bad


def stream_of(lines, script):
    """record tokens per thread, in order"""
    th = 0
    per = {}
    for l, op in zip(lines, script):
        if op.startswith("TH "):
            th = int(op.split()[1])
        m = re.search(r"recs=(.*)$", l)
        if m and m.group(1).strip() != "-":
            per.setdefault(th, []).extend(m.group(1).split())
    return per


# ---- monitors: the property evaluated on the implementation's stream --------------------------
def structural(stream):
    """events never break the nesting of ENTRY/EXIT records"""
    st = []
    for tok in stream:
        p = tok.split(":")
        if p[0] == "E":
            if int(p[1]) != len(st):
                return "depth != number of open calls at " + tok
            st.append(p[2])
        elif p[0] == "X":
            if not st or st[-1] != p[2] or int(p[1]) != len(st) - 1:
                return "exit does not match the open entry at " + tok
            st.pop()
        elif p[0] != "V":
            return "unexpected record " + tok
    return None


def monitors(cfg, script, per_thread):
    """-> (failure text or None, which monitor).  General monitors (any history):
    nesting; for histories with distinct hook times and successful readings: every recorded call of
    a read= function shows [ENTRY, read…] … [diff…, EXIT] with diff = exit reading - entry reading;
    with hooks >= 3 ns apart and no asynchronous event: no watch event of a call that was dropped."""
    hooks, calls, has_async = parse_hooks(script)
    for th, st in sorted(per_thread.items()):
        s = structural(st)
        if s:
            return "thread %d: %s" % (th, s), "nesting"
    times = [h["t"] for h in hooks]
    distinct = len(set(times)) == len(times)
    if distinct and all(h["ru"] is not None for h in hooks):
        for th, st in sorted(per_thread.items()):
            for c in calls:
                if c["th"] != th or c["t1"] is None:
                    continue
                e = [i for i, tok in enumerate(st) if tok.startswith("E:%d:%d:%d" % (c["depth"], c["fn"], c["t0"]))]
                x = [i for i, tok in enumerate(st) if tok.startswith("X:%d:%d:%d" % (c["depth"], c["fn"], c["t1"]))]
                if not e or not x:
                    continue
                reads, diffs = read_plan(cfg, c)
                got_r = []
                j = e[0] + 1
                while j < len(st) and st[j].startswith("V:1000") and int(st[j].split(":")[1]) <= 100010 and \
                        int(st[j].split(":")[2]) == c["t0"]:
                    got_r.append(st[j])
                    j += 1
                got_d = []
                j = x[0] - 1
                while j >= 0 and st[j].startswith("V:1000") and int(st[j].split(":")[1]) <= 100010 and \
                        int(st[j].split(":")[2]) == c["t1"]:
                    got_d.insert(0, st[j])
                    j -= 1
                if got_r != reads:
                    return ("call %s [%d..%d]: events after ENTRY are %s, the property asks for %s" % (
                        fname(c["fn"]), c["t0"], c["t1"], got_r, reads)), "read_diff_placement"
                if got_d != diffs:
                    return ("call %s [%d..%d]: events before EXIT are %s, the property asks for %s" % (
                        fname(c["fn"]), c["t0"], c["t1"], got_d, diffs)), "diff_value"
    spaced = all(b - a >= 3 for a, b in zip(times, times[1:]))
    if spaced and not has_async and cfg["watch"]:
        by_time = {}
        for h in hooks:
            by_time[h["t"] - 1] = h
            by_time.setdefault(h["t"] + 1, h)
        for th, st in sorted(per_thread.items()):
            ent = {(int(t.split(":")[2]), int(t.split(":")[3])) for t in st if t.startswith("E:") and
                   t.split(":")[2].isdigit()}
            for tok in st:
                p = tok.split(":")
                if p[0] == "V" and int(p[1]) in (ID_CPU, ID_VAR):
                    h = by_time.get(int(p[2]))
                    if h is None:
                        return "watch event %s does not belong to any hook" % tok, "event_times_inside"
                    c = h["call"]
                    if h["th"] == th and (c["fn"], c["t0"]) not in ent:
                        return ("watch event %s was saved by the %s hook of %s [%d..%s], a call that was dropped "
                                "by the time filter" % (tok, "entry" if h["typ"] == "E" else "exit", fname(c["fn"]),
                                                        c["t0"], c["t1"])), "dropped_with_call"
    return None, None

# ---- filters: which calls are inside the filters (documented semantics of -F / -N / -D) ---------
def in_filter(cfg, calls):
    """call id -> True when the call is one the filters select (DESIGN Appendix D, restricted to -F / -N / -D):
    nothing inside a -N region; with -F only calls inside a -F function; at most D nested selected calls,
    counted from the innermost -F function.  Only such calls have a recorded frame, and only their hooks
    look at the watched values."""
    F, N = set(cfg.get("F") or []), set(cfg.get("N") or [])
    D = cfg.get("D") if cfg.get("D") is not None else 1024
    vis = {}

    def walk(c, inc, outc, budget):
        if outc > 0:
            v = False
        else:
            if c["fn"] in F:
                inc, budget = inc + 1, D
            elif c["fn"] in N:
                outc += 1
            v = outc == 0 and (not F or inc > 0) and budget > 0
            if v:
                budget -= 1
        vis[c["id"]] = v
        for k in c["kids"]:
            walk(k, inc, outc, budget)
    for c in calls:
        if c["parent"] is None:
            walk(c, 0, 0, D)
    return vis


def norecord_below_recorded(cfg, script):
    """does the history put a selected call above a cygprof frame of a call the filters reject?"""
    hooks, calls, _ = parse_hooks(script)
    vis = in_filter(cfg, calls)
    byid = {c["id"]: c for c in calls}
    for c in calls:
        if not vis[c["id"]]:
            continue
        p = c["parent"]
        while p is not None:
            if not vis[p] and byid[p]["kind"] == "cyg":
                return True
            p = byid[p]["parent"]
    return False


def watch_monitor(cfg, script, per_thread, impl):
    """`a watch event is recorded exactly when the watched value changed`, for one thread, hooks at least
    3 ns apart, no asynchronous events, any -F / -N / -D / -t: going through the hooks of the calls the
    filters select (the only ones that observe), a hook whose observation differs from the previous one
    (the first observation always) owes one event per changed source, stamped hook time - 1 (+ 1 for the
    first observation); the event must be in the stream if the ENTRY of the hook's call is (a call the time
    filter drops takes its events with it: `dropped_with_call` in monitors()), and the stream holds no
    other watch event.  Stops (None) where more than MAX_EVENT events could be pending."""
    hooks, calls, has_async = parse_hooks(script)
    if has_async or not cfg["watch"] or cfg.get("max_stack") is not None:
        return None, None
    if any(h["th"] != 0 for h in hooks) or not hooks:
        return None, None
    times = [h["t"] for h in hooks]
    if not all(b - a >= 3 for a, b in zip(times, times[1:])):
        return None, None
    vis = in_filter(cfg, calls)
    st = per_thread.get(0, [])
    ent = {(int(t.split(":")[2]), int(t.split(":")[3])) for t in st if t.startswith("E:") and t.split(":")[2].isdigit()}
    got = [t for t in st if t.startswith("V:%d:" % ID_CPU) or t.startswith("V:%d:" % ID_VAR)]
    wrote = {}
    for k, l in enumerate(impl):
        m = re.search(r"recs=(.*)$", l)
        wrote[k] = bool(m and m.group(1).strip() != "-")
    wv = [w for w in cfg["watch"] if w != "cpu"]
    inited = False
    prev_cpu = None
    prev = [hooks[0]["vars"][k] for k in wv]
    pending = 0
    owed, allowed = [], set()
    for h in hooks:
        c = h["call"]
        w = []
        if vis[c["id"]]:
            first = not inited
            wt = h["t"] + 1 if first else h["t"] - 1
            if "cpu" in cfg["watch"]:
                if first or h["cpu"] != prev_cpu:
                    w.append(ev_tok(ID_CPU, wt, h["cpu"]))
                prev_cpu = h["cpu"]
            for pos, k in enumerate(wv):
                if h["vars"][k] != prev[pos]:
                    w.append(ev_tok(ID_VAR, wt, (pos, VAR_SIZES[k], h["vars"][k])))
                    prev[pos] = h["vars"][k]
            inited = True
            pending += len(w)
            if pending > 4:
                break
            for tok in w:
                allowed.add(tok)
                if (c["fn"], c["t0"]) in ent:
                    owed.append((tok, h))
        if wrote.get(h["i"]):
            pending = len(w) if h["typ"] == "E" else 0      # an exit record flushes every older event
    else:
        for tok in got:
            if tok not in allowed:
                return ("watch event %s although the value did not change at that hook (or no selected call has a "
                        "hook there)" % tok), "watch_iff_change"
    for tok, h in owed:
        if tok not in got:
            c = h["call"]
            return ("the %s hook of %s [%d..%s] (recorded: its ENTRY is in the stream) observed a new value, the watch "
                    "event %s is not in the stream" % ("entry" if h["typ"] == "E" else "exit", fname(c["fn"]), c["t0"],
                                                       c["t1"], tok)), "watch_iff_change"
    return None, None


# ---- builds -----------------------------------------------------------------------------------
def build_asan(ctx):
    """the H1 objects compiled with -fsanitize=address (lib/h1.py links without it)"""
    src = ctx.src
    san = ["-fsanitize=address", "-fno-omit-frame-pointer"]
    flags, _ = h1.lib_flags(ctx)
    flags = flags + ["-w", "-D" + C.GUARD] + san
    objdir = os.path.join(ctx.scratch, "h1obj-c17-asan")
    os.makedirs(objdir, exist_ok=True)
    srcs = [f for f in glob.glob(os.path.join(src, "libmcount/*.c")) if not f.endswith("-nop.c")]
    srcs += [os.path.join(src, "utils", u + ".c") for u in h1.UTILS]
    srcs += glob.glob(os.path.join(src, "utils/symbol*.c"))
    srcs += glob.glob(os.path.join(src, "arch/x86_64/mcount-*.c")) + [os.path.join(src, "arch/x86_64/symbol.c")]
    srcs += glob.glob(os.path.join(src, "arch/x86_64/*.S"))
    hdir = os.path.join(C.VERIF, "harness")
    jobs = []
    for s in srcs:
        o = os.path.join(objdir, os.path.relpath(s, src).replace("/", "_") + ".o")
        jobs.append((["gcc"] + flags + ["-c", s, "-o", o], o))
    for s in (os.path.join(hdir, "h1_c17_driver.c"), os.path.join(hdir, "h1_funcs_b.c")):
        o = os.path.join(objdir, "drv_" + os.path.basename(s) + ".o")
        dflags = [f for f in flags if f not in ("-fvisibility=hidden", "-mgeneral-regs-only", "-fno-builtin")]
        jobs.append((["gcc"] + dflags + ["-O0", "-c", s, "-o", o], o))

    def run(j):
        r = C.sh(j[0])
        return r.returncode, r.stdout
    with ThreadPoolExecutor(16) as ex:
        res = list(ex.map(run, jobs))
    bad = [(j, r) for j, r in zip(jobs, res) if r[0] != 0]
    if bad:
        return None, "\n".join(" ".join(j[0][-3:]) + "\n" + r[1][-800:] for j, r in bad[:5])
    exe = os.path.join(ctx.scratch, "h1c17-asan")
    r = C.sh(["gcc", "-o", exe] + san + [j[1] for j in jobs] +
             ["-ldl", "-pthread", "-lrt", "-lelf", "-ldw", "-lstdc++", "-no-pie"])
    if r.returncode != 0:
        return None, r.stdout[-3000:]
    return exe, ""


def asan_report(stderr):
    m = re.search(r"ERROR: AddressSanitizer: (\S+)", stderr)
    if not m:
        return None
    frames = re.findall(r"#\d+ 0x[0-9a-f]+ in (\S+) (\S+)", stderr)
    mine = [(f, os.path.basename(loc)) for f, loc in frames if "/libmcount/" in loc or "/utils/" in loc][:6]
    return {"kind": m.group(1), "frames": ["%s %s" % x for x in mine]}


# ---- running ------------------------------------------------------------------------------------
COMBOS = list(itertools.product((1, 0), repeat=4))    # (fixarg, fixvar, fixidx, fixpair); all-repaired first


def run_model_retry(mlines):
    """other builders relink lean/.lake/build/bin/uvmodel now and then: retry while it is away"""
    last = None
    for _ in range(20):
        try:
            return C.run_model("C17", mlines)
        except (FileNotFoundError, PermissionError, OSError) as e:
            last = e
            time.sleep(3)
    raise last


def run_cases(ctx, exe, cases, base_idx=0):
    def one(ic):
        i, c = ic
        return h1.run(ctx, exe, to_env(c["cfg"]), c["script"], base_idx + i)
    with ThreadPoolExecutor(16) as ex:
        rs = list(ex.map(one, enumerate(cases)))
    mlines, spans = [], []
    for c, r in zip(cases, rs):
        c["raw"] = r
        c["impl"], probes, c["bad_obs"] = impl_lines(r, c["cfg"])
        ops = []
        for k, op in enumerate(c["script"]):
            pr = probes[k] if k < len(probes) else None
            if op.split()[0] in ("E", "X") and pr is not None and pr.isdigit():
                op = op + " w=" + pr
            ops.append(op)
        c["mscript"] = ops
        c["unknown_probe"] = [k for k, op in enumerate(c["script"]) if op.split()[0] == "E" and
                              k < len(probes) and probes[k] in ("na", "oob") and
                              needs_probe(c["cfg"], int(op.split()[2]))]
        for combo in COMBOS:
            pre = ["RESET"] + to_model(c["cfg"], combo)
            spans.append((len(mlines) + len(pre), len(ops)))
            mlines += pre + ops
    mout = run_model_retry(mlines)
    k = 0
    for c in cases:
        c["model"] = {}
        for combo in COMBOS:
            a, n = spans[k]
            k += 1
            c["model"][combo] = [C.norm(x) for x in mout[a:a + n]]
        c["match"] = [combo for combo in COMBOS if c["model"][combo] == c["impl"]]
    return cases


def directed_cases():
    """small histories aimed at each mechanism (corpus; run first)"""
    out = []

    def case(note, cfg, script, **kw):
        cfg = norm_cfg(cfg)
        out.append(dict({"cfg": cfg, "script": script + ["END"], "note": note}, **kw))
    pf = {"read": 2}
    both = {"read": 3}
    case("read/diff around a leaf", {"trig": {1: pf}},
         ["RU 5 100", "T 1000", "E pg 1", "T 1030", "RU 8 150", "X"])
    case("two sources, negative difference", {"trig": {1: both}},
         ["RU 5 100", "SM 10 20 30", "T 1000", "E pg 1", "T 1030", "RU 8 150", "SM 11 19 30", "X"])
    case("read/diff with a recorded child (ENTRY written early)", {"trig": {1: both}},
         ["RU 5 100", "SM 10 20 30", "T 1000", "E pg 1", "T 1010", "RU 6 120", "E pg 2", "T 1020", "X", "T 1030",
          "RU 8 150", "SM 9 20 31", "X"])
    case("read + argument on the same function (F17c)", {"trig": {1: dict(pf, arg=8)}},
         ["T 1000", "E pg 0", "T 1004", "X", "RU 5 100", "T 1010", "E pg 1", "T 1030", "RU 8 150", "X"])
    case("read + return value on the same function (F17c)", {"trig": {1: dict(pf, ret=True)}},
         ["T 1000", "E pg 0", "T 1004", "X", "RU 5 100", "T 1010", "E pg 1", "T 1030", "RU 8 150", "X"])
    for a in (944, 948, 952, 956, 960, 984, 988, 992, 1020, 1024):
        case("argument data next to the event area, arg=%d" % a, {"trig": {1: dict(both if a < 984 else pf, arg=a)}},
             ["T 1000", "E pg 0", "T 1004", "X", "RU 5 100", "SM 1 2 3", "T 1010", "E pg 1", "T 1030", "RU 8 150",
              "SM 2 2 2", "X"])
    case("getrusage fails at entry", {"trig": {1: pf}},
         ["RU fail", "T 1000", "E pg 1", "T 1030", "RU 8 150", "X"])
    case("cpu watch: first observation, change, no change", {"watch": ["cpu"]},
         ["CPU 3", "T 1000", "E pg 1", "T 1010", "CPU 4", "E pg 2", "T 1020", "X", "T 1030", "E pg 2", "T 1040",
          "CPU 3", "X", "T 1070", "X"])
    case("variable 0 -> 1 -> 0 -> 1 -> 2 (F17b)", {"watch": [0]},
         ["V 0 0", "T 1000", "E pg 1", "T 1010", "V 0 1", "E pg 2", "T 1020", "X", "V 0 0", "T 1030", "E pg 2",
          "T 1040", "X", "V 0 1", "T 1050", "E pg 2", "T 1060", "X", "V 0 2", "T 1070", "X"])
    case("three variables and cpu: MAX_EVENT", {"watch": [0, "cpu", 1, 2]},
         ["T 1000", "E pg 1", "T 1010", "V 0 1", "V 1 1", "V 2 1", "CPU 2", "E pg 2", "T 1020", "V 0 2", "CPU 1",
          "E pg 3", "T 1030", "X", "T 1040", "X", "T 1050", "X"])
    case("watch event of a dropped top-level call (F17d)", {"watch": ["cpu"], "threshold": 50},
         ["CPU 3", "T 1000", "E pg 1", "T 1100", "X", "CPU 4", "T 1200", "E pg 2", "T 1210", "X", "T 1300", "E pg 3",
          "T 1400", "X"])
    case("watch event of a dropped child of a dropped parent", {"watch": ["cpu"], "threshold": 50},
         ["CPU 3", "T 1000", "E pg 1", "T 1100", "X", "T 1200", "E pg 2", "T 1210", "CPU 4", "E pg 3", "T 1220", "X",
          "T 1230", "X", "T 1300", "E pg 3", "T 1400", "X"])
    case("read events of a dropped call", {"trig": {2: pf}, "threshold": 50},
         ["T 1000", "E pg 1", "T 1010", "RU 1 1", "E pg 2", "T 1020", "RU 2 2", "X", "T 1100", "X"])
    case("asynchronous event forces the flush of a short call", {"threshold": 100},
         ["T 1000", "E pg 1", "T 1005", "AE 1000001", "T 1030", "X", "T 1040", "E pg 2", "T 1045", "X", "T 1050",
          "AE 1000002", "T 1060", "E pg 3", "T 1070", "X"])
    case("first watch event and a 1 ns call", {"watch": ["cpu"]},
         ["CPU 1", "T 1000", "E pg 1", "T 1001", "X", "T 1002", "E pg 2", "T 1003", "CPU 2", "X"])
    case("zero-duration call with trace", {"trig": {1: dict(pf, trace=True)}},
         ["RU 1 1", "T 1000", "E pg 1", "X"])
    case("two threads watch one variable", {"watch": [0]},
         ["V 0 0", "T 1000", "E pg 1", "TH 1", "T 1010", "E pg 2", "V 0 5", "T 1020", "X", "TH 0", "T 1030", "X",
          "T 1040", "E pg 3", "V 0 0", "T 1050", "X", "TH 1", "T 1060", "E pg 4", "T 1070", "X", "TH 0"])
    case("cygprof hooks with reads and return value", {"trig": {1: dict(both, ret=True)}, "watch": ["cpu"]},
         ["RU 1 2", "T 1000", "E cyg 0", "T 1005", "E cyg 1", "T 1010", "RU 3 4", "X", "T 1020", "X"])
    # filtered stacks: frames that are not recorded below / between / above recorded ones
    case("-F f2 -t 50, cygprof: pending watch event of a recorded caller above an unrecorded frame, short child",
         {"watch": ["cpu"], "threshold": 50, "F": [2]},
         ["CPU 3", "T 1000", "E cyg 1", "T 1010", "E cyg 2", "T 1020", "E cyg 3", "T 1025", "X", "T 1100", "X",
          "T 1110", "X"])
    case("-F f2 -t 50, cygprof: value changes at the entry of a recorded call, two short children",
         {"watch": [0, "cpu"], "threshold": 50, "F": [2]},
         ["CPU 3", "V 0 0", "T 1000", "E cyg 0", "T 1005", "E cyg 1", "T 1010", "E cyg 2", "T 1015", "X", "T 1020",
          "CPU 1", "V 0 7", "E cyg 2", "T 1030", "E cyg 3", "T 1035", "X", "T 1040", "V 0 9", "E cyg 4", "T 1045", "X",
          "T 1100", "X", "T 1110", "X", "T 1120", "X"])
    case("-F f1 -F f3 -D 2 -t 30, cygprof: recorded, beyond the depth, recorded again (depth reset by -F)",
         {"watch": ["cpu", 1], "threshold": 30, "F": [1, 3], "D": 2},
         ["CPU 0", "T 1000", "E cyg 1", "T 1005", "E cyg 2", "T 1010", "E cyg 5", "T 1015", "CPU 2", "V 1 7", "E cyg 3",
          "T 1020", "E cyg 4", "T 1025", "X", "T 1060", "X", "T 1065", "X", "T 1070", "X", "T 1075", "X"])
    case("-N f2 -t 30, -pg: the -N function has an unrecorded frame above a recorded caller",
         {"watch": ["cpu"], "threshold": 30, "N": [2]},
         ["CPU 0", "T 1000", "E pg 1", "T 1005", "CPU 1", "E pg 2", "T 1010", "E pg 3", "T 1015", "X", "T 1020", "X",
          "T 1025", "CPU 2", "E pg 3", "T 1030", "X", "T 1100", "X"])
    case("-F f2, read events of a call outside the filter and of one inside", {"trig": {1: pf, 2: both}, "F": [2],
                                                                                "threshold": 20},
         ["RU 1 1", "SM 1 2 3", "T 1000", "E cyg 1", "T 1005", "RU 2 2", "E cyg 2", "T 1010", "E cyg 3", "T 1015", "X",
          "T 1050", "RU 3 9", "SM 2 2 2", "X", "T 1060", "X"])
    return out


def asan_cases(rng):
    out = []
    for k, v in ((0, "1"), (1, "1"), (2, "1")):
        out.append({"cfg": norm_cfg({"watch": [k]}), "note": "-W var:%s" % VAR_NAMES[k],
                    "script": ["V %d 0" % k, "T 1000", "E pg 1", "T 1010", "V %d %s" % (k, v), "E pg 2", "T 1020", "X",
                               "T 1030", "X", "END"]})
    out.append({"cfg": norm_cfg({"trig": {2: {"read": 2, "arg": 8}}, "max_stack": 2}),
                "note": "read + argument in the deepest frame",
                "script": ["T 1000", "E pg 1", "T 1010", "E pg 2", "T 1020", "X", "T 1030", "X", "END"]})
    for _ in range(4):
        cfg = rand_cfg(rng)
        out.append({"cfg": cfg, "note": "random", "script": gen_script(rng, cfg, nthreads=rng.choice([1, 2]),
                                                                       asyncs=True, kind="mix")})
    return out


def fill_cases(rng):
    """histories whose result must not depend on what fresh heap memory holds"""
    out = []
    out.append({"cfg": norm_cfg({"watch": [2, 0]}), "note": "first reported values equal the fill pattern",
                "script": ["V 2 0", "V 0 0", "T 1000", "E pg 1", "T 1010", "V 2 55", "V 0 5555555555555555", "E pg 2",
                           "T 1020", "X", "T 1030", "V 2 1", "X", "END"]})
    out.append({"cfg": norm_cfg({"trig": {1: {"read": 3, "arg": 8}, 2: {"read": 2, "ret": True}}}),
                "note": "read + argument / return value",
                "script": ["T 1000", "E pg 0", "T 1004", "X", "RU 5 100", "SM 1 2 3", "T 1010", "E pg 1", "T 1020",
                           "E pg 2", "T 1030", "RU 6 101", "X", "T 1040", "RU 8 150", "X", "END"]})
    for _ in range(6):
        cfg = rand_cfg(rng)
        out.append({"cfg": cfg, "note": "random", "script": gen_script(rng, cfg, max_calls=8, max_depth=3)})
    return out


def shape_of(finding_id, report):
    """which finding an ASan report belongs to"""
    fr = " ".join(report["frames"])
    if "mcount_watch_update" in fr or ("save_watchpoint" in fr and "mcount_watch" in fr):
        return "S6"
    if "save_trigger_read" in fr:
        return "F17c"
    return None


def ensure_generated(ctx):
    """version.h is made by the build (and removed by `make clean`): make it in the snapshot if it is absent"""
    ctx.snapshot()
    vh = os.path.join(ctx.src, "version.h")
    if not os.path.exists(vh):
        r = C.sh(["make", "-C", ctx.src, "-s", vh])
        ctx.notes.append("version.h was absent in the tree; generated in the snapshot (rc=%d)" % r.returncode)


def translate(ctx):
    """Gen/EventTab.lean from the snapshot; the check's own constants follow it"""
    global ARG_MAX
    ensure_generated(ctx)
    changed, vals = events2lean.main(ctx.src, ctx.scratch)
    ARG_MAX = vals["ARG_MAX"]
    exp = {"ARGBUF_SIZE": 1024, "EVTBUF_HDR": 16, "sizeof_idx": 2}
    odd = {k: vals[k] for k in exp if vals[k] != exp[k]}
    ctx.notes.append("Gen/EventTab.lean regenerated from the snapshot (changed=%s): ARG_MAX=%d MAX_EVENT=%d table=%s" % (
        changed, vals["ARG_MAX"], vals["MAX_EVENT"], vals["table"]))
    return vals, odd


def run(ctx):
    try:
        tvals, odd = translate(ctx)
    except Exception as e:      # the translator cannot read the sources any more
        C.violation(ctx, "translator", {"kind": "translator-failed", "error": str(e)[-1500:],
                                        "theorem": "c17_* (constants and read_events[] of the model)"}, True)
        return C.finish(ctx)
    if odd:
        # the harness decoder and the generators are written for this geometry; the model follows the
        # translated values, so the correspondence run below will show the consequences
        ctx.notes.append("frame slice geometry changed: %s" % odd)
    ok, problems = C.prove(ctx, "C17")
    t_prove = ctx.elapsed()
    proof_broken = not ok
    if proof_broken:
        ctx.notes.append("proof obligation broken: %s" % problems[:5])
    exe, log = h1.build(ctx, "normal", driver="h1_c17_driver.c", out="h1c17")
    if not exe:
        C.violation(ctx, "build", {"kind": "harness-build-failed", "log": log[-3000:]}, True)
        return C.finish(ctx)
    rng = ctx.rng
    quick = ctx.tier == "quick"

    # ---- cases: corpus first, then generated
    cases = []
    cdir = os.path.join(C.VERIF, "corpus", "C17")
    for p in sorted(glob.glob(os.path.join(cdir, "*.json"))):
        j = json.load(open(p))
        cases.append({"cfg": norm_cfg(j["cfg"]), "script": j["script"], "note": j.get("note", os.path.basename(p)),
                      "class": "corpus"})
    for c in directed_cases():
        c["class"] = "directed"
        cases.append(c)
    n_clean, n_rand, n_mt = (50, 70, 20) if quick else (1500, 3000, 600)
    for i in range(n_clean):
        cfg = rand_cfg(rng, clean=True)
        cases.append({"cfg": cfg, "class": "clean", "script": gen_script(
            rng, cfg, clean=True, max_calls=rng.choice([4, 8, 14]), max_depth=rng.choice([2, 3, 5]),
            kind=rng.choice(["pg", "pg", "cyg", "mix"]))})
    for i in range(n_rand):
        cfg = rand_cfg(rng)
        cases.append({"cfg": cfg, "class": "random", "script": gen_script(
            rng, cfg, max_calls=rng.choice([5, 10, 20]), max_depth=rng.choice([2, 4, 6]), asyncs=rng.random() < 0.35,
            kind=rng.choice(["pg", "pg", "cyg", "mix"]))})
    for i in range(n_mt):
        cfg = rand_cfg(rng)
        cases.append({"cfg": cfg, "class": "threads", "script": gen_script(
            rng, cfg, nthreads=rng.choice([2, 3]), max_calls=rng.choice([6, 12]), max_depth=3,
            asyncs=rng.random() < 0.2, kind=rng.choice(["pg", "mix"]))})
    # filters x events (after the older classes: their random streams stay as they were)
    n_filt = 80 if quick else 2500
    for i in range(n_filt):
        cfg = rand_filter_cfg(rng)
        cases.append({"cfg": cfg, "class": "filters", "script": gen_script(
            rng, cfg, clean=True, max_calls=rng.choice([6, 10, 16]), max_depth=rng.choice([3, 4, 6]),
            kind=rng.choice(["cyg", "cyg", "cyg", "mix", "pg"]), gaps=[3, 3, 4, 5, 10, 30, 60], change=1.6)})
    t_build = ctx.elapsed()
    run_cases(ctx, exe, cases)
    t_cases = ctx.elapsed()

    # ---- which variant of the model does the implementation follow?
    usable = [c for c in cases if not c["unknown_probe"]]
    consistent = [combo for combo in COMBOS if all(combo in c["match"] for c in usable)]
    total = len(cases)
    distinct = {hash((json.dumps(c["cfg"], sort_keys=True), tuple(c["script"]))) for c in cases}
    disagreements = 0
    monitor_fail = 0
    known_hits = 0
    replays = 0
    findings = {f["id"]: f for f in C.known_findings("C17")}
    reported = set()

    def report_finding(fid, c, what, monitor):
        nonlocal known_hits, replays
        if fid in findings:
            known_hits += 1
            C.known(ctx, findings[fid], "%s %s" % (fid, WHAT[fid]))
            return
        if fid in reported:
            return
        reported.add(fid)
        C.violation(ctx, fid, {
            "kind": "property-violated-on-implementation", "finding": fid, "defect": WHAT[fid], "what": what,
            "monitor": monitor, "note": c.get("note"), "env": to_env(c["cfg"]), "cfg": c["cfg"], "script": c["script"],
            "impl_stream": stream_of(c["impl"], c["script"]),
            "theorem": {"F17c": "c17_read_diff_placement / c17_prefix_diff_lost_witness",
                        "F17b": "c17_watch_iff_change / c17_prefix_var_change_lost_witness",
                        "F17d": "c17_dropped_with_call / c17_prefix_watch_survives_witness",
                        "F17e": "c17_read_diff_paired / c17_prefix_unpaired_read_witness"}.get(fid)})

    # monitors on every case
    spec_checked = spec_fail = watch_checked = 0
    mon_by = {}
    for c in cases:
        per = stream_of(c["impl"], c["script"])
        bad, which = (c["bad_obs"][0], "errno") if c["bad_obs"] else (None, None)
        if c["impl"] and c["impl"][0].startswith("HARNESS-FAILED"):
            bad, which = c["impl"][0], "harness"
        if not bad:
            bad, which = monitors(c["cfg"], c["script"], per)
        if not bad:
            bad, which = watch_monitor(c["cfg"], c["script"], per, c["impl"])
            watch_checked += which is None and bool(c["cfg"]["watch"])
        if not bad:
            exp = spec_stream(c["cfg"], c["script"])
            if exp is not None:
                spec_checked += 1
                got = per.get(0, [])
                if got != exp:
                    spec_fail += 1
                    k = next((i for i, (a, b) in enumerate(zip(got, exp)) if a != b), min(len(got), len(exp)))
                    bad = "stream differs from the specified one at record %d: got %s, specified %s" % (
                        k, got[k:k + 3], exp[k:k + 3])
                    which = "spec"
        c["bad"], c["which"] = bad, which
        if bad:
            mon_by[which] = mon_by.get(which, 0) + 1

    best = consistent[0] if consistent else max(COMBOS, key=lambda cb: sum(cb in c["match"] for c in usable))
    all_fixed = (1, 1, 1, 1)
    for c in cases:
        follows_best = best in c["match"] or bool(c["unknown_probe"])
        if not follows_best:
            disagreements += 1
        if c["bad"]:
            # is the failure explained by an as-coded variant the implementation demonstrably follows?
            fid = None
            if follows_best and best != all_fixed and all_fixed not in c["match"]:
                for k, fl in enumerate(FLAGS):
                    if best[k] == 0:
                        alt = tuple(1 if j == k else b for j, b in enumerate(best))
                        if c["model"][alt] != c["model"][best]:
                            fid = FINDING_OF[fl]
                            break
            if fid:
                report_finding(fid, c, c["bad"], c["which"])
                continue
            monitor_fail += 1
            if replays < 3:
                replays += 1
                C.violation(ctx, "monitor%d" % replays, {
                    "kind": "property-violated-on-implementation", "what": c["bad"], "monitor": c["which"],
                    "note": c.get("note"), "env": to_env(c["cfg"]), "cfg": c["cfg"], "script": c["script"],
                    "impl_stream": stream_of(c["impl"], c["script"]),
                    "matches_model_variants": [list(x) for x in c["match"]]})
        elif not follows_best and replays < 4:
            replays += 1
            m = c["model"][best]
            first = next((i for i, (a, b) in enumerate(zip(c["impl"], m)) if a != b), None)
            C.violation(ctx, "corr%d" % replays, {
                "kind": "model-code-disagreement", "model_variant": dict(zip(FLAGS, best)),
                "note": c.get("note"), "env": to_env(c["cfg"]), "cfg": c["cfg"], "script": c["script"],
                "first_line_difference": None if first is None else {
                    "line": first, "op": c["mscript"][first], "impl": c["impl"][first][-400:], "model": m[first][-400:]},
                "theorem": "correspondence Events (all c17_* theorems rest on it)"}, no_failing_input=True)
    # an as-coded variant that no monitor caught on this seed is still reported (correspondence shows it)
    if consistent and best != all_fixed:
        for k, fl in enumerate(FLAGS):
            fid = FINDING_OF[fl]
            if best[k] == 0 and fid not in reported and not (fid in findings and known_hits):
                alt = tuple(1 if j == k else b for j, b in enumerate(best))
                wit = next((c for c in usable if c["model"][alt] != c["model"][best]), None)
                if wit is not None:
                    report_finding(fid, wit, "implementation follows the as-coded variant of the model (%s=0)" % fl,
                                   "correspondence")

    # ---- ASan run of the same harness
    asan_runs = asan_reports = 0
    aexe, alog = build_asan(ctx)
    if not aexe:
        ctx.notes.append("ASan build of the harness failed: " + alog[-300:])
        C.violation(ctx, "build-asan", {"kind": "harness-build-failed", "log": alog[-3000:]}, True)
    else:
        acs = asan_cases(rng)

        def one(ic):
            i, c = ic
            env = dict(to_env(c["cfg"]), ASAN_OPTIONS="detect_leaks=0:abort_on_error=0")
            return h1.run(ctx, aexe, env, c["script"], 100000 + i)
        with ThreadPoolExecutor(8) as ex:
            ars = list(ex.map(one, enumerate(acs)))
        for c, r in zip(acs, ars):
            asan_runs += 1
            rep = asan_report(r["stderr"])
            if rep is None:
                if r["rc"] != 0:
                    monitor_fail += 1
                    C.violation(ctx, "asan-crash", {"kind": "property-violated-on-implementation",
                                                    "what": "harness died rc=%s: %s" % (r["rc"], r["stderr"][-400:]),
                                                    "env": to_env(c["cfg"]), "script": c["script"]})
                continue
            asan_reports += 1
            fid = shape_of(None, rep)
            c["impl"] = []
            if fid:
                c2 = dict(c, impl=[])
                if fid in findings:
                    known_hits += 1
                    C.known(ctx, findings[fid], "%s %s" % (fid, WHAT[fid]))
                elif ("asan-" + fid) not in reported:
                    reported.add("asan-" + fid)
                    C.violation(ctx, "asan-" + fid, {
                        "kind": "property-violated-on-implementation", "finding": fid, "defect": WHAT[fid],
                        "what": "AddressSanitizer: %s in %s" % (rep["kind"], "; ".join(rep["frames"][:4])),
                        "note": c2.get("note"), "env": to_env(c["cfg"]), "script": c["script"]})
            else:
                monitor_fail += 1
                C.violation(ctx, "asan%d" % asan_reports, {
                    "kind": "property-violated-on-implementation",
                    "what": "AddressSanitizer: %s in %s" % (rep["kind"], "; ".join(rep["frames"][:4])),
                    "env": to_env(c["cfg"]), "script": c["script"]})

    # ---- the result must not depend on the contents of fresh heap memory (uninitialised reads)
    fcs = fill_cases(rng)

    def frun(args):
        i, c, fill = args
        return h1.run(ctx, exe, to_env(c["cfg"], fill), c["script"], 200000 + 2 * i + (1 if fill else 0))
    with ThreadPoolExecutor(16) as ex:
        frs = list(ex.map(frun, [(i, c, fill) for i, c in enumerate(fcs) for fill in (0, 0x55)]))
    fill_diffs = 0
    for i, c in enumerate(fcs):
        a, _, _ = impl_lines(frs[2 * i], c["cfg"])
        b, _, _ = impl_lines(frs[2 * i + 1], c["cfg"])
        if a == b:
            continue
        fill_diffs += 1
        sa, sb = stream_of(a, c["script"]), stream_of(b, c["script"])
        toks = set(sum(sa.values(), [])) ^ set(sum(sb.values(), []))
        ids = {int(t.split(":")[1]) for t in toks if t.startswith("V:")}
        fid = "S6" if ids and ids <= {ID_VAR} else ("F17c" if ids and max(ids) <= 100010 else None)
        what = ("the recorded stream depends on the contents of uninitialised heap memory (fill byte 0x00 vs 0x55): "
                "records only in one of the two runs: %s" % sorted(toks)[:6])
        c["impl"] = a
        if fid:
            if fid in findings:
                known_hits += 1
                C.known(ctx, findings[fid], "%s %s" % (fid, WHAT[fid]))
            elif ("fill-" + fid) not in reported and ("asan-" + fid) not in reported:
                reported.add("fill-" + fid)
                C.violation(ctx, "fill-" + fid, {
                    "kind": "property-violated-on-implementation", "finding": fid, "defect": WHAT[fid], "what": what,
                    "note": c.get("note"), "env": to_env(c["cfg"]), "script": c["script"],
                    "stream_fill_00": sa, "stream_fill_55": sb})
        else:
            monitor_fail += 1
            C.violation(ctx, "fill%d" % fill_diffs, {
                "kind": "property-violated-on-implementation", "what": what, "note": c.get("note"),
                "env": to_env(c["cfg"]), "script": c["script"], "stream_fill_00": sa, "stream_fill_55": sb})

    ctx.notes.append("phases (s, cumulative): translate+prove %.1f, harness build %.1f, cases+model %.1f, asan+fill %.1f" % (
        t_prove, t_build, t_cases, ctx.elapsed()))
    if proof_broken:
        C.violation(ctx, "proof", {"kind": "proof-obligation-broken", "problems": problems,
                                   "searched": "%d H1 cases; monitor failures %d" % (total, monitor_fail)},
                    no_failing_input=(monitor_fail == 0))

    dist = {"class": {}, "with_threshold": 0, "with_read": 0, "with_two_sources": 0, "with_arg": 0, "with_ret": 0,
            "read_and_arg_or_ret": 0, "watch_cpu": 0, "watch_var": 0, "async": 0, "threads>1": 0, "cyg_or_mix": 0,
            "time_trigger": 0, "trace_trigger": 0, "unknown_probe_cases": 0, "with_-F": 0, "with_-N": 0, "with_-D": 0,
            "filters_and_watch_and_threshold": 0, "unrecorded_frame_below_recorded (cases)": 0}
    for c in cases:
        cfg = c["cfg"]
        dist["class"][c["class"]] = dist["class"].get(c["class"], 0) + 1
        dist["with_threshold"] += cfg["threshold"] is not None
        dist["with_read"] += any(t["read"] for t in cfg["trig"].values())
        dist["with_two_sources"] += any(t["read"] == 3 for t in cfg["trig"].values())
        dist["with_arg"] += any(t["arg"] is not None for t in cfg["trig"].values())
        dist["with_ret"] += any(t["ret"] for t in cfg["trig"].values())
        dist["read_and_arg_or_ret"] += any(needs_probe(cfg, f) for f in cfg["trig"])
        dist["watch_cpu"] += "cpu" in cfg["watch"]
        dist["watch_var"] += any(w != "cpu" for w in cfg["watch"])
        dist["async"] += any(l.startswith("AE") for l in c["script"])
        dist["threads>1"] += any(l.startswith("TH") for l in c["script"])
        dist["cyg_or_mix"] += any(l.startswith("E cyg") for l in c["script"])
        dist["time_trigger"] += any(t["time"] is not None for t in cfg["trig"].values())
        dist["trace_trigger"] += any(t["trace"] for t in cfg["trig"].values())
        dist["unknown_probe_cases"] += bool(c["unknown_probe"])
        dist["with_-F"] += bool(cfg.get("F"))
        dist["with_-N"] += bool(cfg.get("N"))
        dist["with_-D"] += cfg.get("D") is not None
        dist["filters_and_watch_and_threshold"] += bool(has_filters(cfg) and cfg["watch"] and cfg["threshold"])
        if has_filters(cfg):
            dist["unrecorded_frame_below_recorded (cases)"] += norecord_below_recorded(cfg, c["script"])
    nev = sum(sum(tok.startswith("V:") for tok in st) for c in cases for st in stream_of(c["impl"], c["script"]).values())
    samples = [{"env": to_env(c["cfg"]), "script": c["script"][:40], "impl_stream": stream_of(c["impl"], c["script"])}
               for c in cases[len(directed_cases()) + 5::97][:3]]
    ctx.coverage.update({
        "evaluations": total + asan_runs + 2 * len(fcs), "distinct_nontrivial": len(distinct),
        "rule": "corpus + directed histories, then random configurations (read=proc/statm|page-fault, time=, trace, "
                "-A struct-by-value stack argument of 8..1100 bytes, -R, -t, -W cpu / var:wv8|wv4|wv1 in any order) x random call "
                "histories over 9 symbols with scripted clock (gaps 0..30 ns), page-fault/statm/cpu/variable values "
                "changing between hooks; class `filters`: -F (1-3 functions) / -N / -D 1..4 together with -t 8|15|40, "
                "watchpoints (always) and read / trace / time= / -A / -R triggers, mostly cygprof hooks (a frame for every "
                "call, so frames that are not recorded lie below, between and above recorded ones and the rstack index "
                "differs from the record depth), hooks >= 3 ns apart, values "
                "changing between hooks, asynchronous events, 1-3 threads, -pg / cygprof / mixed hooks; every case is "
                "run on the real libmcount and on the model in all 16 repaired/as-coded variants; distinct = distinct "
                "(configuration, script)",
        "input_distribution": dist, "event_records_in_impl_streams": nev,
        "model_variant_followed": dict(zip(FLAGS, best)), "consistent_variants": [list(x) for x in consistent],
        "model_code_disagreements": disagreements, "monitor_failures_on_impl": monitor_fail,
        "monitor_failures_by_kind_incl_findings": mon_by,
        "spec_monitor_cases": spec_checked, "spec_monitor_failures": spec_fail,
        "watch_iff_change_monitor_cases": watch_checked,
        "asan_runs": asan_runs, "asan_reports": asan_reports, "known_finding_hits": known_hits,
        "heap_fill_pairs": len(fcs), "heap_fill_differences": fill_diffs,
        "samples": samples, "exhaustive": False,
    })
    ctx.assumptions += [
        "value sources are interposed at link time in the harness executable (getrusage, sched_getcpu, "
        "fopen(/proc/self/statm), clock_gettime); pmu-* read sources are in the model's table but not exercised",
        "asynchronous events enter through mcount_save_event() as the SDT handler calls it",
        "the as-coded F17c variant reads a word of stale/uninitialised memory at function entry; the harness prints that "
        "word before each hook and the model takes it as an input (cases where it cannot be read are compared "
        "with the repaired variant only)",
        "argument payload contents are not compared, only sizes",
        "fresh heap memory is made deterministic with glibc's MALLOC_PERTURB_ and tcache_count=0 (zero-filled, as a "
        "new process sees it; a second fill pattern is used by the uninitialised-memory monitor)",
        "the stream-level theorems assume hooks >= 2 ns apart and no pending-event overflow (MAX_EVENT); the spec "
        "monitor evaluates the same statement on the implementation for the generated histories in that class, all "
        "other histories are covered by the model correspondence only",
    ]
    return C.finish(ctx)


def replay(ctx, path):
    translate(ctx)
    j = json.load(open(path))
    print(json.dumps(j, indent=1)[:5000])
    if "script" not in j or "cfg" not in j:
        return 0
    exe, log = h1.build(ctx, "normal", driver="h1_c17_driver.c", out="h1c17")
    if not exe:
        print("harness build failed", log[-1000:])
        return 2
    c = {"cfg": norm_cfg(j["cfg"]), "script": j["script"]}
    run_cases(ctx, exe, [c])
    print("implementation:", json.dumps(stream_of(c["impl"], c["script"]), indent=1))
    for combo in COMBOS:
        print("model %s: %s" % (dict(zip(FLAGS, combo)), "same" if c["model"][combo] == c["impl"] else
                                json.dumps(stream_of(c["model"][combo], c["script"]))))
    bad, which = monitors(c["cfg"], c["script"], stream_of(c["impl"], c["script"]))
    if not bad:
        bad, which = watch_monitor(c["cfg"], c["script"], stream_of(c["impl"], c["script"]), c["impl"])
    exp = spec_stream(c["cfg"], c["script"])
    print("monitor:", which, bad)
    differs = False
    if exp is not None:
        differs = exp != stream_of(c["impl"], c["script"]).get(0, [])
        print("specified stream:", exp, "DIFFERENT" if differs else "MATCH")
    return 1 if (bad or differs or (1, 1, 1, 1) not in c["match"]) else 0
