"""C12 — Analysis commands survive truncated or partially written data.

Lean: Uft/Model/Trunc.lean (trace-data reader), Uft/Model/InfoFile.lean, Uft/Model/TaskTxt.lean
(task.txt, sid-*.map, *.sym), Uft/Model/TextScan.lean; theorems in Uft/Props/C12.lean.

Tie (H3, ASan+UBSan build of the snapshot): for small synthesized data directories, EVERY
truncation length of every file and the removal of every file, for replay / report / graph /
dump / dump --chrome / info:
  * monitor (the property on the implementation's output): no sanitizer report, no hang, no
    signal, and stdout / exit status / diagnostic equal to those on the copy that the model says is
    the whole-record prefix of the cut file (`canonical`: re-rendered from the model's parse);
  * correspondence: the model's prediction for the cut (number of records delivered, error class
    of info / task.txt, failing info section) against what the implementation shows.
A failing case is attributed to a finding when the model of the code as found (`fixed = 0`)
predicts the misbehaviour at exactly that cut (tag -> finding id)."""
import hashlib
import json
import os
import re
import shutil
import struct
import time
from concurrent.futures import ThreadPoolExecutor

from lib import common as C
from lib import datadir as D

U64MAX = (1 << 64) - 1
STACK_LINE = b"7ffd00000000-7ffd00021000 rw-p 00000000 00:00 0                          [stack]\n"

CMDS = {
    "replay": ("replay", []),
    "report": ("report", []),
    "graph": ("graph", []),
    "dump": ("dump", []),
    "chrome": ("dump", ["--chrome"]),
    "info": ("info", ["-v"]),
}

# tag of the pre-fix model -> finding id
FINDING_OF_TAG = {
    "copy_info_str_dst[-1]": "F8",
    "tids[nr_tid]": "S2",
    "stale_exename": "F8t",
    "stale_line+5": "F8t",
    "check_symbol_file_buf[-1]": "F8s",
    "stale_byte_after_the_symbol_type": "F13",
    "sscanf_%s": "S3",
}

FINDING_TEXT = {
    "F7": "read_task_ustack() ignores a failed payload read (and a failed 16-byte header read leaves its bytes in "
          "task->ustack): a <tid>.dat cut inside an argument/event payload is delivered with a partial payload "
          "(heap-buffer-overflow in the printers), a cut inside a header changes report/graph times",
    "F8": "copy_info_str() reads dst[-1] when `info` is cut right after a `key:`",
    "S2": "read_taskinfo() stores tids[nr_tid++] without a bound (info cut after `taskinfo:tids=` with nr_tid=0, or more "
          "tids than nr_tid)",
    "F8t": "read_task_txt_file(): `exename=`/`libname=` at the very end of a line (pos + 9 is past the NUL), and "
           "`line + 5` for a 4-byte last line",
    "F8s": "check_symbol_file() reads buf[-1] when the .sym header is cut right after `# path name: ` / `# build-id: `",
    "F13": "load_module_symbol_file(): a symbol line ending before the type makes the parser read the stale rest of the "
           "previous line (a wrong symbol is created; with argument specs this ends in a heap-buffer-overflow)",
    "F12": "read_session_map() leaves kernel_base = 0 when the map has no [stack] line: every address is a kernel "
           "address (no symbols; dump --chrome dereferences handle->kernel == NULL)",
    "F14": "dump (raw): pr_args()/pr_retval() memcmp 4 bytes of a (len+1)-byte copy of a string argument shorter than 3 "
           "(complete data)",
    "S3": "sscanf %s without a width into sid[16] / prot[5] / build_id[51]",
    "F17": "replay: print_graph_rstack() reads symname[strlen(symname) - 1] of an empty symbol name (a .sym line cut "
           "right after the type)",
    "F16": "dump --chrome: dump_chrome_header() prints find_task(tid)->comm for every tid of `info`; a tid whose "
           "TASK/FORK line is missing from a cut task.txt gives a NULL task (segfault)",
}


# ---------------------------------------------------------------------------------------------
# synthetic directories
# ---------------------------------------------------------------------------------------------
def s_arg(s):
    b = s if isinstance(s, bytes) else s.encode()
    p = struct.pack("<H", len(b)) + b
    return p + b"\0" * ((-len(p)) % 4)


def i32(v):
    return struct.pack("<i", v)


SHORT_INFO = {
    "cpuinfo": None,
}


class Dir:
    """a synthesized directory + what the model needs to know about it"""

    def __init__(self, name, dd, argspec, retspec, specs, short_info=True):
        self.name = name
        self.dd = dd
        self.argspec, self.retspec = argspec, retspec
        self.specs = specs      # addr -> [(idx, fmt, size)]
        fs = dd.files()
        info = bytearray(fs["info"])
        if argspec or retspec:
            from checks.c09 import info_with_specs
            info = bytearray(info_with_specs(dd, argspec, retspec))
        if short_info:
            head, text = bytes(info[:40]), bytes(info[40:])
            text = text.replace(b"uftrace_version:v0.17 ( x86_64 dwarf python3 luajit tui perf sched dynamic kernel )",
                                b"uftrace_version:v0.17")
            text = text.replace(b"record_date:Tue Sep 29 12:00:00 2026", b"record_date:Tue Sep 29")
            text = text.replace(b" (voluntary / involuntary)", b"").replace(b" (major / minor)", b"")
            text = text.replace(b" (read / write)", b"").replace(b" (free / total)", b"")
            text = text.replace(b" (online/possible)", b"")
            info = bytearray(head + text)
        fs["info"] = bytes(info)
        self.files = fs
        self.tids = [t.tid for t in dd.tasks]
        self.modname = dd.exename.encode()
        self.symname = os.path.basename(dd.exename) + ".sym"
        self.mapname = "sid-%s.map" % D.SID

    def spec_str(self):
        if not self.specs:
            return "-"
        return "/".join("%x:%s" % (a, ",".join("%d.%s.%d" % s for s in l)) for a, l in sorted(self.specs.items()))

    def kind(self, fname):
        if fname.endswith(".dat"):
            return "dat"
        if fname == "info":
            return "info"
        if fname == "task.txt":
            return "task"
        if fname.endswith(".map"):
            return "map"
        return "sym"


def dir_args():
    syms = [(0x1000, 0x100, "main"), (0x1100, 0x80, "foo"), (0x1200, 0x80, "bar")]
    dd = D.DataDir(syms, [], feat_extra=(1 << 3) | (1 << 4) | (1 << 7))
    A = dd.addr_of
    recs = [
        D.Rec(2000, 'E', 0, A("main")),
        D.Rec(2100, 'E', 1, A("foo"), i32(7) + s_arg("hello")),
        D.Rec(2150, 'V', 2, 100001, struct.pack("<H", 24) + struct.pack("<QQQ", 10, 20, 30)),
        D.Rec(2200, 'E', 2, A("bar"), s_arg("wonderful")),
        D.Rec(2300, 'X', 2, A("bar"), s_arg("ok")),
        D.Rec(2400, 'X', 1, A("foo"), i32(-3)),
        D.Rec(2500, 'X', 0, A("main")),
    ]
    dd.tasks = [D.Task(101, recs)]
    specs = {A("foo"): [(1, "o", 4), (2, "s", 8), (0, "o", 4)], A("bar"): [(1, "s", 8), (0, "s", 8)]}
    return Dir("args", dd, "foo@arg1/i32,arg2/s;bar@arg1/s", "foo@retval/i32;bar@retval/s", specs)


def dir_tasks():
    syms = [(0x1000, 0x100, "main"), (0x1100, 0x80, "work"), (0x1200, 0x40, "leaf")]
    dd = D.DataDir(syms, [], feat_extra=(1 << 3) | (1 << 4) | (1 << 7))
    A = dd.addr_of
    r1 = [
        D.Rec(2000, 'E', 0, A("main")),
        D.Rec(2050, 'V', 1, 100011, struct.pack("<H", 4) + struct.pack("<i", 3)),
        D.Rec(2100, 'E', 1, A("work"), struct.pack("<q", 5) + b"x\0\0\0"),
        D.Rec(2200, 'E', 2, A("leaf")),
        D.Rec(2300, 'X', 2, A("leaf")),
        D.Rec(2350, 'L', 2, 3),
        D.Rec(2400, 'X', 1, A("work"), s_arg("done!")),
        D.Rec(2900, 'X', 0, A("main")),
    ]
    r2 = [
        D.Rec(2500, 'E', 0, A("main")),
        D.Rec(2600, 'E', 1, A("leaf")),
        D.Rec(2700, 'X', 1, A("leaf")),
    ]
    dd.tasks = [D.Task(101, r1), D.Task(103, r2, ppid=101, fork_time=2450)]
    specs = {A("work"): [(1, "o", 8), (2, "c", 1), (0, "s", 8)]}
    return Dir("tasks", dd, "work@arg1/i64,arg2/c", "work@retval/s", specs)


def dir_notask():
    """an `info` that lists no task (`nr_tid=0`, `tids=`): only the info file is cut"""
    syms = [(0x1000, 0x100, "main")]
    dd = D.DataDir(syms, [])
    dd.tasks = [D.Task(101, [D.Rec(2000, 'E', 0, dd.addr_of("main")), D.Rec(2100, 'X', 0, dd.addr_of("main"))])]
    dr = Dir("notask", dd, None, None, {})
    dr.files["info"] = dr.files["info"].replace(b"taskinfo:nr_tid=1\ntaskinfo:tids=101\n", b"taskinfo:nr_tid=0\ntaskinfo:tids=\n")
    assert b"nr_tid=0" in dr.files["info"]
    dr.tids = []
    return dr


def dir_random(rng, idx):
    """thorough tier: a random call tree with string / int / char / event payloads"""
    names = ["f%d" % i for i in range(rng.randint(3, 6))]
    syms = [(0x1000 + 0x100 * i, 0x80, n) for i, n in enumerate(names)]
    dd = D.DataDir(syms, [], feat_extra=(1 << 3) | (1 << 4) | (1 << 7))
    A = dd.addr_of
    kinds = {}
    argspec, retspec, specs = [], [], {}
    for n in names[1:]:
        k = rng.choice(["none", "s", "is", "c", "ret-s", "ret-i"])
        kinds[n] = k
        sp = []
        if k == "s":
            argspec.append("%s@arg1/s" % n); sp.append((1, "s", 8))
        elif k == "is":
            argspec.append("%s@arg1/i32,arg2/s" % n); sp += [(1, "o", 4), (2, "s", 8)]
        elif k == "c":
            argspec.append("%s@arg1/c" % n); sp.append((1, "c", 1))
        elif k == "ret-s":
            retspec.append("%s@retval/s" % n); sp.append((0, "s", 8))
        elif k == "ret-i":
            retspec.append("%s@retval/i64" % n); sp.append((0, "o", 8))
        if sp:
            specs[A(n)] = sp

    def rstr():
        return bytes(rng.choice(b"abcdefghij") for _ in range(rng.randint(3, 12)))

    def entry_payload(n):
        k = kinds.get(n, "none")
        if k == "s":
            return s_arg(rstr())
        if k == "is":
            return i32(rng.randint(-5, 500)) + s_arg(rstr())
        if k == "c":
            return bytes([rng.choice(b"xyz")]) + b"\0\0\0"
        return b""

    def exit_payload(n):
        k = kinds.get(n, "none")
        if k == "ret-s":
            return s_arg(rstr())
        if k == "ret-i":
            return struct.pack("<q", rng.randint(0, 1000))
        return b""
    tasks = []
    for ti in range(rng.randint(1, 2)):
        t = 2000 + 1000 * ti
        recs, stack = [], []
        for _ in range(rng.randint(6, 14)):
            t += rng.randint(1, 99)
            if stack and (len(stack) > 3 or rng.random() < 0.45):
                n = stack.pop()
                recs.append(D.Rec(t, 'X', len(stack), A(n), exit_payload(n)))
            elif rng.random() < 0.12:
                recs.append(D.Rec(t, 'V', len(stack), 100002, struct.pack("<H", 16) + struct.pack("<QQ", 1, 2)))
            else:
                n = names[0] if not stack else rng.choice(names[1:])
                recs.append(D.Rec(t, 'E', len(stack), A(n), entry_payload(n)))
                stack.append(n)
        tasks.append(D.Task(101 + ti, recs) if ti == 0 else D.Task(101 + ti, recs, pid=101))
    dd.tasks = tasks
    return Dir("rand%d" % idx, dd, ";".join(argspec) or None, ";".join(retspec) or None, specs)


# ---------------------------------------------------------------------------------------------
# running the implementation
# ---------------------------------------------------------------------------------------------
UB_ENV = {"UBSAN_OPTIONS": "halt_on_error=0:print_stacktrace=0",
          "ASAN_OPTIONS": "detect_leaks=0:abort_on_error=0:exitcode=99:symbolize=0:fast_unwind_on_fatal=1"}
UB_ENV_REPLAY = {"UBSAN_OPTIONS": "halt_on_error=0:print_stacktrace=1"}
BENIGN_UB = re.compile(r"runtime error: null pointer passed as argument \d+, which is declared to never be null")


class Runner:
    def __init__(self, ctx, uftrace):
        self.ctx = ctx
        self.uftrace = uftrace
        self.root = os.path.join("/dev/shm" if os.path.isdir("/dev/shm") else ctx.scratch, "uv-c12-%d" % os.getpid())
        shutil.rmtree(self.root, ignore_errors=True)
        os.makedirs(self.root)
        self.n = 0
        self.benign_ub = 0

    def cleanup(self):
        shutil.rmtree(self.root, ignore_errors=True)

    def run(self, files, cname, tag):
        d = os.path.join(self.root, tag)
        os.makedirs(d)
        for n, b in files.items():
            if b is None:
                continue
            with open(os.path.join(d, n), "wb") as f:
                f.write(b)
        c, a = CMDS[cname]
        rc, out, err = D.run_uftrace(self.uftrace, c, d, a, timeout=10, env=UB_ENV)
        shutil.rmtree(d, ignore_errors=True)
        return classify(rc, out.replace(d, "DIR"), err.replace(d, "DIR"))


def classify(rc, out, err):
    """-> dict(rc, san, diag, out, bit)"""
    san = None
    if rc == -999:
        san = "HANG"
    m = re.search(r"ERROR: AddressSanitizer: (\S+)", err)
    if m:
        fr = re.findall(r"#\d+ 0x\w+ in (\w+) /", err)
        san = "ASAN:%s:%s" % (m.group(1), fr[0] if fr else "?")
    elif "AddressSanitizer" in err or rc == 99:
        san = "ASAN:?"
    ub = [l for l in err.split("\n") if "runtime error:" in l]
    benign = 0
    for l in ub:
        if BENIGN_UB.search(l):
            benign += 1
        elif not san:
            san = "UBSAN:" + l.split("runtime error:")[1].strip()[:80]
    if rc < 0 and rc != -999 and not san:
        san = "SIGNAL:%d" % (-rc)
    if rc > 128 and rc != 255 and not san:
        san = "SIGNAL:%d" % (rc - 128)
    diag = ""
    for l in err.split("\n"):
        mm = re.search(r"(ERROR|WARN): (.*)", l)
        if mm:
            diag = mm.group(2).strip()
            break
    bit = None
    mm = re.search(r"error during read uftrace info \((\w+)\)", err)
    if mm:
        bit = int(mm.group(1), 16).bit_length() - 1
    out = re.sub(r'"recorded_time":"[^"]*"', '"recorded_time":""', out)
    return {"rc": rc, "san": san, "diag": diag, "out": out, "bit": bit, "benign_ub": benign}


def same(a, b):
    return a["rc"] == b["rc"] and a["out"] == b["out"] and a["diag"] == b["diag"]


# ---------------------------------------------------------------------------------------------
# canonical (whole-record) form of a cut file, from the model's parse (fixed = 1)
# ---------------------------------------------------------------------------------------------
def unhex(h):
    return b"" if h == "-" else bytes.fromhex(h)


def parse_model(kind, line):
    """model output line -> dict"""
    w = line.split()
    r = {"status": w[0] if w else "?", "raw": line}
    if kind == "dat":
        r["n"] = int(w[0].split("=")[1])
        r["st"] = w[1].split("=")[1]
        r["ust"] = w[2].split("=")[1]
        recs = line.split("|", 1)[1].strip()
        r["recs"] = [x.strip().split(",") for x in recs.split(";")] if recs else []
        r["status"] = "ok"
        return r
    if w[0] != "ok":
        r["tag"] = " ".join(w[1:]) if kind not in ("task",) else line.split("|", 1)[1].strip()
    if kind == "task":
        r["open"] = w[1].split("=")[1]
        r["chrome"] = w[2].split("=")[1] if len(w) > 2 and w[2].startswith("chrome=") else None
        r["items"] = [x.strip().split() for x in line.split("|", 1)[1].split(";") if x.strip()] if w[0] == "ok" else []
    elif kind == "map" and w[0] == "ok":
        r["kb"] = int(w[1].split("=")[1])
        r["maps"] = [x.strip().split() for x in line.split("|", 1)[1].split(";") if x.strip()]
    elif kind == "sym" and w[0] == "ok":
        r["use"] = w[1] == "use=1"
        r["names"] = w[2] == "names=1"
        r["lines"] = [x.strip().split() for x in line.split("|", 1)[1].split(";") if x.strip()]
    elif kind == "info" and w[0] == "ok":
        r["kv"] = dict(x.split("=", 1) for x in w[1:])
    return r


def ts(ns):
    return "%d.%09d" % (ns // 1000000000, ns % 1000000000)


def canonical(dr, fname, kind, m, cut_bytes):
    """-> (bytes | None for 'remove the file', comparable: bool)"""
    if kind == "dat":
        recs = dr.dd.tasks[[("%d.dat" % t.tid) for t in dr.dd.tasks].index(fname)].records
        if m["n"] == 0 and len(cut_bytes) > 0:
            # an empty <tid>.dat is "no data" for open_data_file (st_size test): the reference for a
            # non-empty file without a whole record is the shortest such file
            return cut_bytes[:1]
        return b"".join(r.pack() for r in recs[:m["n"]])
    if kind == "info":
        return dr.files["info"] if m["status"] == "ok" else cut_bytes
    if kind == "task":
        if m["status"] != "ok":
            return cut_bytes
        out = []
        for it in m["items"]:
            if it[0] == "T":
                out.append("TASK timestamp=%s tid=%s pid=%s" % (ts(int(it[1])), it[2], it[3]))
            elif it[0] == "F":
                out.append("FORK timestamp=%s pid=%s ppid=%s" % (ts(int(it[1])), it[2], it[3]))
            elif it[0] == "S":
                out.append("SESS timestamp=%s pid=%s sid=%s exename=\"%s\"" % (
                    ts(int(it[1])), it[2], unhex(it[3]).decode("latin1"), unhex(it[4]).decode("latin1")))
        return ("".join(x + "\n" for x in out)).encode("latin1")
    if kind == "map":
        if m["status"] != "ok":
            return cut_bytes
        out = b""
        for e in m["maps"]:
            out += b"%x-%x %s 00000000 00:00 0                          %s%s\n" % (
                int(e[0]), int(e[1]), unhex(e[2]), unhex(e[3]), (b" build-id:" + unhex(e[4])) if e[4] != "-" else b"")
        if m["kb"] in (U64MAX, 0xFFFF800000000000):
            out += STACK_LINE
        return out
    if kind == "sym":
        if m["status"] != "ok":
            return cut_bytes
        if not m["use"]:
            return None
        out = b"# symbols: %d\n# path name: %s\n# build-id: \n" % (len(m["lines"]), dr.modname)
        for l in m["lines"]:
            out += b"%016x %08x %c %s\n" % (int(l[0]), int(l[1]), int(l[2]), unhex(l[3]))
        return out
    raise ValueError(kind)


def model_query(dr, fname, kind, fixed, data):
    h = data.hex() or "-"
    if kind == "dat":
        return "dat %d %s %s" % (fixed, dr.spec_str(), h)
    if kind == "info":
        return "info %d %s" % (fixed, h)
    if kind == "task":
        return "task %d %s %s" % (fixed, ",".join(map(str, dr.tids)) or "-", h)
    if kind == "map":
        return "map %d %s" % (fixed, h)
    return "sym %d %s %s" % (fixed, dr.modname.hex(), h)


def prefix_finding(kind, cname, m0, m1):
    """which finding the model of the code as found predicts at this cut (or None)"""
    if kind == "dat":
        if m0["recs"] != m1["recs"] or m0["st"] != m1["st"] or m0["ust"] != m1["ust"]:
            return "F7"
        if cname == "dump" and any(r[8] == "0" for r in m0["recs"]):
            return "F14"
        return None
    if kind == "task" and cname == "chrome" and m0.get("chrome") == "oob":
        return "F16"
    if kind == "sym" and cname in ("replay",) and m0["status"] == "ok" and not m0["names"]:
        return "F17"
    if m0["status"] == "oob":
        return FINDING_OF_TAG.get(m0.get("tag", "").split(" ")[-1] if kind == "task" else m0.get("tag", ""), "?")
    if kind == "map" and m0["status"] == "ok" and m0["kb"] == 0:
        return "F12"
    return None


def predict_replay(dr, maps, kb, use, symlines, dat_override=None):
    """What `uftrace replay` must show for directory `dr` when its map file parses to `maps` (kernel
    base `kb`) and its .sym file to `symlines`: ("err", name) = "record missing argument info for
    <name>" for the first payload-carrying record that is read whose function has no argument spec
    (specs are bound by symbol NAME), or ("ok", [names of the entries shown]).
    Mirrors task_find_sym/find_symtabs (map lookup, kernel test, relative address, symbol range) and
    the read-ahead order of fstack (first record of every task, then the next one of the task whose
    record was consumed)."""
    spec_names = set()
    for sp in (dr.argspec or "").split(";") + (dr.retspec or "").split(";"):
        if "@" in sp:
            spec_names.add(sp.split("@")[0])
    syms = []
    if use:
        for l in symlines:
            if chr(int(l[2])) in "?TtwPKDdvu" and int(l[1]) > 0:
                syms.append((int(l[0]), int(l[1]), unhex(l[3]).decode("latin1")))

    def name_of(addr):
        if addr >= kb:
            return None
        for e in maps:
            if int(e[0]) <= addr < int(e[1]):
                if unhex(e[3]) != dr.modname:
                    return None
                rel = addr - int(e[0])
                for a, z, n in syms:
                    if a <= rel < a + z:
                        return n
                return None
        return None

    def check(rec):
        """the read of one record: an error name or None"""
        if rec.more and rec.typ in "EX":
            n = name_of(rec.addr)
            if n is None or n not in spec_names:
                return n if n is not None else "<%x>" % rec.addr
        return None
    queues = [list(t.records) for t in dr.dd.tasks]
    if dat_override is not None:
        queues = dat_override
    heads = []
    for q in queues:
        h = q.pop(0) if q else None
        if h is not None:
            e = check(h)
            if e is not None:
                return ("err", e)
        heads.append(h)
    shown = []
    while any(h is not None for h in heads):
        i = min((h.time, j) for j, h in enumerate(heads) if h is not None)[1]
        h = heads[i]
        if h.typ == "E":
            n = name_of(h.addr)
            shown.append(n if n is not None else "<%x>" % h.addr)
        nxt = queues[i].pop(0) if queues[i] else None
        if nxt is not None:
            e = check(nxt)
            if e is not None:
                return ("err", e)
        heads[i] = nxt
    return ("ok", shown)


def observed_replay(r):
    if r["rc"] != 0:
        m = re.search(r"record missing argument info for ?(.*)$", r["diag"])
        return ("err", m.group(1).strip() if m else r["diag"])
    names = []
    for ev in D.parse_replay(r["out"]):
        if ev[0] in ("E", "L"):
            names.append(ev[3])
    return ("ok", names)


def whole_records_before(recs, k):
    """independent of the model: how many leading records are completely inside the first k bytes"""
    n, off = 0, 0
    for r in recs:
        body = len(r.payload) if r.more else 0
        if off + 16 + body > k:
            break
        n += 1
        off += len(r.pack())
    return n


# ---------------------------------------------------------------------------------------------
def plan(ctx, dirs):
    """[(dir, fname, cut|None, cmd)]"""
    quick = ctx.tier == "quick"
    jobs = []
    for dr in dirs:
        for fname, data in dr.files.items():
            kind = dr.kind(fname)
            cmds = list(CMDS)
            if dr.name == "notask":
                if kind != "info":
                    continue
                cmds = ["replay"]
            elif quick and dr.name.startswith("rand"):
                cmds = ["replay", "report", "dump"] if kind == "dat" else []
            elif quick:
                if kind == "info":
                    cmds = ["info", "replay"] if dr.name == "args" else []
                elif dr.name == "tasks":
                    cmds = {"sym": ["replay"], "map": ["replay", "chrome"], "task": ["replay", "chrome"]}.get(kind, cmds)
                elif kind == "task":
                    cmds = ["replay", "report", "dump", "chrome", "info"]
                elif kind in ("map", "sym"):
                    cmds = ["replay", "report", "dump", "chrome"]
            for c in cmds:
                jobs.append((dr, fname, None, c))
                for k in range(len(data) + 1):
                    jobs.append((dr, fname, k, c))
    return jobs


def run(ctx):
    ok, problems = C.prove(ctx, "C12")
    if not ok:
        C.violation(ctx, "proof", {"kind": "proof-obligation-broken", "problems": problems}, True)
        return C.finish(ctx)
    ctx.snapshot()
    t0 = time.time()
    okm, log = ctx.make(extra=["ASAN=1"])
    uftrace = os.path.join(ctx.src, "uftrace")
    if not okm or not os.path.exists(uftrace):
        C.violation(ctx, "build", {"kind": "asan-build-failed", "log": log[-3000:]}, True)
        return C.finish(ctx)
    t_build = time.time() - t0
    kf = {f["id"]: f for f in C.known_findings("C12")}

    dirs = [dir_args(), dir_tasks(), dir_notask()]
    # seed-dependent directories: random call trees with string / int / char / event payloads
    dirs += [dir_random(ctx.rng, i) for i in range(6 if ctx.tier == "thorough" else 1)]
    jobs = plan(ctx, dirs)
    runner = Runner(ctx, uftrace)
    try:
        return check(ctx, runner, dirs, jobs, kf, t_build)
    finally:
        runner.cleanup()


def check(ctx, runner, dirs, jobs, kf, t_build):
    # ---- model: every (dir, file, cut) with fixed = 1 and fixed = 0 ------------------------
    cuts = {}
    for dr, fname, k, c in jobs:
        cuts.setdefault((dr.name, fname, k), (dr, fname, k))
    qs, keys = [], []
    for key, (dr, fname, k) in cuts.items():
        if k is None:
            continue
        kind = dr.kind(fname)
        data = dr.files[fname][:k]
        for fixed in (1, 0):
            qs.append(model_query(dr, fname, kind, fixed, data))
            keys.append((key, fixed))
    tm = time.time()
    mout = C.run_model("C12", qs)
    t_model = time.time() - tm
    model = {}
    for (key, fixed), line in zip(keys, mout):
        dr, fname, k = cuts[key]
        model[(key, fixed)] = parse_model(dr.kind(fname), C.norm(line))

    # the model's parse of the complete map and sym files (for the name oracle)
    fq = []
    for dr in dirs:
        fq.append(model_query(dr, dr.mapname, "map", 1, dr.files[dr.mapname]))
        fq.append(model_query(dr, dr.symname, "sym", 1, dr.files[dr.symname]))
    fo = C.run_model("C12", fq)
    for i, dr in enumerate(dirs):
        dr.full_models = {"map": parse_model("map", C.norm(fo[2 * i])), "sym": parse_model("sym", C.norm(fo[2 * i + 1]))}

    # raw dump of a complete short string (F14) does not depend on which other file is cut
    for dr in dirs:
        dr.f14 = False
        for fname in dr.files:
            if dr.kind(fname) == "dat":
                m0 = model.get(((dr.name, fname, len(dr.files[fname])), 0))
                if m0 and any(x[8] == "0" for x in m0["recs"]):
                    dr.f14 = True

    # ---- implementation: the cut copies and their canonical forms ---------------------------
    canon_cache = {}
    tasks = []        # (key, cmd, kind, which, files, tag)
    for i, (dr, fname, k, c) in enumerate(jobs):
        key = (dr.name, fname, k)
        kind = dr.kind(fname)
        fs = dict(dr.files)
        if k is None:
            fs[fname] = None
            tasks.append(((key, c), "cut", fs, "j%d" % i))
            continue
        fs[fname] = dr.files[fname][:k]
        tasks.append(((key, c), "cut", fs, "j%d" % i))
        m1 = model[(key, 1)]
        cb = canonical(dr, fname, kind, m1, fs[fname])
        ck = (dr.name, fname, c, cb)
        if cb == fs[fname]:
            continue        # the cut file is its own whole-record prefix
        if ck not in canon_cache:
            canon_cache[ck] = None
            fs2 = dict(dr.files)
            fs2[fname] = cb
            tasks.append((ck, "canon", fs2, "c%d" % i))
    results = {}

    def one(t):
        k, which, fs, tag = t
        return (k, which, runner.run(fs, k[1] if which == "cut" else k[2], tag))
    tr = time.time()
    with ThreadPoolExecutor(14) as ex:
        for k, which, r in ex.map(one, tasks):
            if which == "canon":
                canon_cache[k] = r
            else:
                results[k] = r

    t_runs = time.time() - tr
    # ---- compare -----------------------------------------------------------------------------
    stats = {"runs": len(tasks), "cuts": len([1 for k in cuts if k[2] is not None]), "monitor_fail": 0, "disagree": 0,
             "by_finding": {}, "benign_ub_runs": 0, "san": 0, "hang": 0}
    distinct = set()
    samples = []
    reported = {}

    def report(fid, kindname, obj, nfi=False):
        stats["by_finding"][fid] = stats["by_finding"].get(fid, 0) + 1
        if reported.get(fid, 0) >= (2 if fid in FINDING_TEXT else 4):
            return
        reported[fid] = reported.get(fid, 0) + 1
        if fid in kf:
            C.known(ctx, kf[fid], "%s open: %s" % (fid, FINDING_TEXT.get(fid, "")))
        else:
            C.violation(ctx, "%s-%d" % (fid, reported[fid]), obj, no_failing_input=nfi)

    for dr, fname, k, c in jobs:
        key = (dr.name, fname, k)
        kind = dr.kind(fname)
        r = results[(key, c)]
        stats["benign_ub_runs"] += 1 if r["benign_ub"] else 0
        base = {"dir": dr.name, "file": fname, "cut": k, "size": len(dr.files[fname]), "cmd": " ".join((CMDS[c][0],) + tuple(CMDS[c][1])),
                "files_hex": {n: b.hex() for n, b in dr.files.items()},
                "impl": {"rc": r["rc"], "san": r["san"], "diag": r["diag"], "stdout": r["out"][:1500]}}
        if k is None:
            # removal of a file: prompt termination with a diagnostic (or a partial result for .sym)
            bad = r["san"] or r["rc"] not in (0, 1, 255) or (r["rc"] != 0 and not r["diag"] and kind != "sym")
            distinct.add((dr.name, fname, "removed", c, r["rc"], r["diag"][:40]))
            if bad:
                stats["monitor_fail"] += 1
                report("removed-file", "property-violated-on-implementation",
                       dict(base, kind="property-violated-on-implementation",
                            what="removing %s: %s" % (fname, r["san"] or "no diagnostic / bad exit status")))
            continue
        m1, m0 = model[(key, 1)], model[(key, 0)]
        cb = canonical(dr, fname, kind, m1, dr.files[fname][:k])
        rc_ = r if cb == dr.files[fname][:k] else canon_cache[(dr.name, fname, c, cb)]
        distinct.add((dr.name, fname, c, r["rc"], r["san"], hashlib.md5(r["out"].encode()).hexdigest()[:8], r["diag"][:30],
                      m1["raw"][:40]))
        if len(samples) < 5 and (k * 7 + len(c)) % 211 == 3:
            samples.append({"dir": dr.name, "file": fname, "cut": k, "cmd": c, "model": m1["raw"][:200],
                            "impl": {"rc": r["rc"], "diag": r["diag"], "stdout": r["out"][:200]}})
        # monitor: the property itself
        bad = None
        if r["san"]:
            bad = "sanitizer/hang/signal: " + r["san"]
            stats["san"] += 1
            stats["hang"] += 1 if r["san"] == "HANG" else 0
        elif r["rc"] not in (0, 1, 255):
            bad = "exit status %d" % r["rc"]
        elif r["rc"] != 0 and not r["diag"]:
            bad = "non-zero exit status without a diagnostic"
        elif not same(r, rc_):
            bad = "output differs from the output on the whole-record prefix (%s)" % (
                "file removed" if cb is None else "%d bytes" % len(cb))
        # correspondence: model prediction vs implementation
        dis = None
        if kind == "dat":
            recs = dr.dd.tasks[[("%d.dat" % t.tid) for t in dr.dd.tasks].index(fname)].records
            wn = whole_records_before(recs, k)
            if m1["n"] != wn or m1["st"] != "eof":
                dis = "model delivers %d records (%s), the generator's record boundaries say %d" % (m1["n"], m1["st"], wn)
            elif c == "dump" and not r["san"] and r["rc"] == 0:
                shown = len(re.findall(r"^\d+\.\d+ +%s: \[(?:entry|exit |lost |event)\]" % fname[:-4], r["out"], re.M))
                if shown != wn:
                    dis = "raw dump shows %d records of %s, model/generator say %d" % (shown, fname, wn)
        elif kind == "info" and not r["san"]:
            if m1["status"] == "ok":
                if "cannot read" in r["diag"]:
                    dis = "model accepts the info file, implementation: " + r["diag"]
            else:
                want = "cannot read header data" if "header_data" in m1["tag"] else "cannot read uftrace header info!"
                if want not in r["diag"]:
                    dis = "model: %s, implementation: %r" % (m1["tag"], r["diag"])
                elif c == "info" and m1["tag"].startswith("info_bit_") and r["bit"] != int(m1["tag"].split("_")[2]):
                    dis = "model: reader of info bit %s fails, implementation: bit %s" % (m1["tag"].split("_")[2], r["bit"])
        elif kind == "task" and not r["san"] and c != "info":
            want = {"einval": "Invalid argument", "enodata": "No data available"}.get(m1["open"])
            if want and want not in r["diag"]:
                dis = "model: open_data_file fails with %s, implementation: %r" % (m1["open"], r["diag"])
            if not want and ("Invalid argument" in r["diag"] or "No data available" in r["diag"]):
                dis = "model: task.txt accepted, implementation: %r" % r["diag"]
        if kind in ("map", "sym") and c == "replay" and not r["san"] and m1["status"] == "ok":
            full = dr.full_models
            mm = m1 if kind == "map" else full["map"]
            ss = m1 if kind == "sym" else full["sym"]
            want = predict_replay(dr, mm["maps"], mm["kb"], ss["use"], ss["lines"])
            got = observed_replay(r)
            if want != got:
                dis = "replay: the model's parse of the %s file predicts %r, the implementation shows %r" % (kind, want, got)
        if not bad and not dis:
            continue
        fid = prefix_finding(kind, c, m0, m1) if kind != "info" or m0["status"] == "oob" else None
        if kind == "info" and m0["status"] == "oob":
            fid = FINDING_OF_TAG.get(m0["tag"], "?")
        if fid is None and c == "dump" and dr.f14 and (r["san"] or "").startswith("ASAN:heap-buffer-overflow"):
            fid = "F14"
        if bad:
            stats["monitor_fail"] += 1
            obj = dict(base, kind="property-violated-on-implementation", what=bad,
                       model_fixed=m1["raw"][:400], model_as_found=m0["raw"][:400],
                       expected={"rc": rc_["rc"], "diag": rc_["diag"], "stdout": rc_["out"][:1500]},
                       matches_prefix_model=fid, finding=FINDING_TEXT.get(fid), theorem="c12_cut_equals_whole_prefix / c12_parsers_total_in_bounds")
            report(fid or "unexplained", "property", obj)
        else:
            stats["disagree"] += 1
            report("correspondence", "model-code-disagreement",
                   dict(base, kind="model-code-disagreement", what=dis, model_fixed=m1["raw"][:400]), nfi=True)

    # the complete info file: parsed values against `uftrace info`
    for dr in dirs:
        key = (dr.name, "info", len(dr.files["info"]))
        if (key, 1) not in model or (key, "info") not in results:
            continue
        m1, r = model[(key, 1)], results[(key, "info")]
        if m1["status"] != "ok" or r["rc"] != 0:
            continue
        kv = m1["kv"]
        want = {"exe image": unhex(kv.get("exename:", "-")).decode("latin1"),
                "cmdline": unhex(kv.get("cmdline:", "-")).decode("latin1"),
                "number of tasks": kv.get("nr_tid")}
        if "" in r["out"].rstrip("\n").split("\n"):
            stats["disagree"] += 1
            report("correspondence", "model-code-disagreement",
                   {"kind": "model-code-disagreement", "dir": dr.name,
                    "what": "`uftrace info` prints an empty line: a value kept its newline (model: copy_info_str strips it)"},
                   nfi=True)
        for k2, v in want.items():
            mm = re.search(r"^# %s\s*: (.*)$" % re.escape(k2), r["out"], re.M)
            if not mm or mm.group(1).strip() != str(v):
                stats["disagree"] += 1
                report("correspondence", "model-code-disagreement",
                       {"kind": "model-code-disagreement", "what": "info field %r: model %r, implementation %r" % (
                           k2, v, mm.group(1) if mm else None), "dir": dr.name}, nfi=True)

    ctx.coverage.update({
        "evaluations": stats["runs"],
        "distinct_nontrivial": len(distinct),
        "rule": "exhaustive: every truncation length 0..size of every file (and the removal of each file) of "
                "%d synthesized directories x the commands listed in `plan` (quick: all 6 on every .dat of the two "
                "fixed directories, 4-5 commands on the args directory's task/map/sym, 1-2 on the tasks directory's, "
                "info+replay on info cuts, replay/report/dump on the .dat files of one random "
                "directory drawn from the seed; thorough: all 6 commands everywhere + 6 random directories); "
                "distinct = distinct (dir, file, cmd, exit, sanitizer, stdout hash, diagnostic, model result)" % len(dirs),
        "cut_points": stats["cuts"], "monitor_failures_on_impl": stats["monitor_fail"],
        "model_code_disagreements": stats["disagree"], "attributed": stats["by_finding"],
        "sanitizer_or_hang_runs": stats["san"], "hangs": stats["hang"],
        "runs_with_benign_nonnull_ubsan_report": stats["benign_ub_runs"],
        "directories": {d.name: {n: len(b) for n, b in d.files.items()} for d in dirs},
        "asan_build_s": round(t_build, 1), "model_s": round(t_model, 1), "runs_s": round(t_runs, 1),
        "exhaustive": True,
        "samples": samples,
    })
    ctx.assumptions += [
        "regular files: fread fails only at end of file (no I/O errors)",
        "little-endian 64-bit data (no byte swapping), no build-id / kernel / perf data in the directories",
        "UBSan's nonnull-attribute reports for bsearch/qsort(NULL, 0, ...) on an empty symbol table are counted, not "
        "treated as violations",
        "a last line without a newline is a line (fgets/getline semantics): the model accepts it as the code does",
    ]
    ctx.notes.append("findings with open patches in /verif/proposed_fixes/C12-*.diff: " + ", ".join(sorted(FINDING_TEXT)))
    return C.finish(ctx)


def replay(ctx, path):
    r = json.load(open(path))
    print(json.dumps({k: v for k, v in r.items() if k != "files_hex"}, indent=1))
    if "files_hex" not in r or r.get("cut") is None and "file" not in r:
        return 0
    ctx.snapshot()
    okm, log = ctx.make(extra=["ASAN=1"])
    if not okm:
        print("build failed")
        return 1
    d = os.path.join(ctx.scratch, "replay")
    os.makedirs(d)
    for n, h in r["files_hex"].items():
        b = bytes.fromhex(h)
        if n == r["file"]:
            if r["cut"] is None:
                continue
            b = b[:r["cut"]]
        open(os.path.join(d, n), "wb").write(b)
    cmd = r["cmd"].split()
    rc, out, err = D.run_uftrace(os.path.join(ctx.src, "uftrace"), cmd[0], d, cmd[1:], timeout=10, env=UB_ENV_REPLAY)
    print("rc=%d\n--- stdout\n%s\n--- stderr\n%s" % (rc, out[:3000], err[:3000]))
    return 0
