"""C12 — Analysis commands survive truncated or partially written data.

Lean: Uft/Model/Trunc.lean (trace-data reader), Uft/Model/InfoFile.lean, Uft/Model/TaskTxt.lean
(task.txt, sid-*.map, *.sym), Uft/Model/TextScan.lean; theorems in Uft/Props/C12.lean.

Tie (H3, ASan+UBSan build of the snapshot): for small synthesized data directories, EVERY
truncation length of every file and the removal of every file, for replay / report / graph /
dump / dump --chrome / info (and the --task views on task.txt cuts):
  * monitor (the property on the implementation's output, independent of the model): no sanitizer
    report, no hang, no signal, and stdout / exit status / diagnostic equal to those on the copy cut
    at the last whole record — for a text file the cut at the last newline (`whole`; the model's
    `wholeLines` / `infoWhole` are compared with it), for <tid>.dat the last whole record;
  * correspondence: the model with the flags that mirror the tree (`fixed = 1`, `nl` = what the
    probes of `tree_flags` observe per file kind) against the implementation: its parse re-rendered
    as a complete file (`canonical`) must give the same output as the cut, and its direct predictions
    (number of records delivered, error class of info / task.txt, failing info section, symbol names
    shown by replay) must be what the implementation shows.
A failing case is attributed to a finding when the model of the code without that repair predicts
the misbehaviour at exactly that cut: `fixed = 0` (tag -> finding id) for the memory-safety findings,
`nl = 0` for F18i/t/m/s (the cut is not at a record boundary, the implementation behaves as the
pre-fix model and differs from the repaired model), `tf0=oob` for F19.  An attributed case is a
KNOWN-FINDING if known_findings.json has an open entry of that id, a VIOLATION otherwise."""
import hashlib
import json
import os
import re
import shutil
import struct
import time
from concurrent.futures import ThreadPoolExecutor

from lib import common as C
from lib import datadir as D

U64MAX = (1 << 64) - 1
STACK_LINE = b"7ffd00000000-7ffd00021000 rw-p 00000000 00:00 0                          [stack]\n"

CMDS = {
    "replay": ("replay", []),
    "report": ("report", []),
    "graph": ("graph", []),
    "dump": ("dump", []),
    "chrome": ("dump", ["--chrome"]),
    "info": ("info", ["-v"]),
    # the views that use task->t of every task of `info` (F19)
    "rtask": ("report", ["--task"]),
    "gtask": ("graph", ["--task"]),
    "ftask": ("replay", ["-f", "task"]),
}
TASK_CMDS = ("rtask", "gtask", "ftask")
MAIN_CMDS = [c for c in CMDS if c not in TASK_CMDS]
# the commands of the perf-cpuN.dat sweep (`perf_family`)
CMDS["pfull"] = ("replay", ["--event-full"])
CMDS["itask"] = ("info", ["--task"])
PERF_CMDS = ["pfull", "dump", "chrome", "report", "graph", "info", "itask"]
F18_OF_KIND = {"info": "F18i", "task": "F18t", "map": "F18m", "sym": "F18s"}

# tag of the pre-fix model -> finding id
FINDING_OF_TAG = {
    "copy_info_str_dst[-1]": "F8",
    "tids[nr_tid]": "S2",
    "stale_exename": "F8t",
    "stale_line+5": "F8t",
    "check_symbol_file_buf[-1]": "F8s",
    "stale_byte_after_the_symbol_type": "F13",
    "sscanf_%s": "S3",
}

FINDING_TEXT = {
    "F7": "read_task_ustack() ignores a failed payload read (and a failed 16-byte header read leaves its bytes in "
          "task->ustack): a <tid>.dat cut inside an argument/event payload is delivered with a partial payload "
          "(heap-buffer-overflow in the printers), a cut inside a header changes report/graph times",
    "F8": "copy_info_str() reads dst[-1] when `info` is cut right after a `key:`",
    "S2": "read_taskinfo() stores tids[nr_tid++] without a bound (info cut after `taskinfo:tids=` with nr_tid=0, or more "
          "tids than nr_tid)",
    "F8t": "read_task_txt_file(): `exename=`/`libname=` at the very end of a line (pos + 9 is past the NUL), and "
           "`line + 5` for a 4-byte last line",
    "F8s": "check_symbol_file() reads buf[-1] when the .sym header is cut right after `# path name: ` / `# build-id: `",
    "F13": "load_module_symbol_file(): a symbol line ending before the type makes the parser read the stale rest of the "
           "previous line (a wrong symbol is created; with argument specs this ends in a heap-buffer-overflow)",
    "F12": "read_session_map() leaves kernel_base = 0 when the map has no [stack] line: every address is a kernel "
           "address (no symbols; dump --chrome dereferences handle->kernel == NULL)",
    "F14": "dump (raw): pr_args()/pr_retval() memcmp 4 bytes of a (len+1)-byte copy of a string argument shorter than 3 "
           "(complete data)",
    "S3": "sscanf %s without a width into sid[16] / prot[5] / build_id[51]",
    "F17": "replay: print_graph_rstack() reads symname[strlen(symname) - 1] of an empty symbol name (a .sym line cut "
           "right after the type)",
    "F16": "dump --chrome: dump_chrome_header() prints find_task(tid)->comm for every tid of `info`; a tid whose "
           "TASK/FORK line is missing from a cut task.txt gives a NULL task (segfault)",
    "F18i": "info line cut before its newline: the read handlers of cmds/info.c take the incomplete last line as a "
            "record (a cut value is stored and printed, e.g. `program version : v0.1` for `uftrace_version:v0.17`; "
            "the commands succeed where the copy cut at the last whole line is rejected)",
    "F18t": "task.txt line cut before its newline: read_task_txt_file() takes the incomplete last line as a record (a "
            "task / session built from cut numbers or a cut exename)",
    "F18m": "map line cut before its newline: read_session_map() takes the incomplete last line as a mapping (cut "
            "path; addresses are resolved through a mapping that is not completely present)",
    "F18s": "symbol line cut before its newline: load_module_symbol_file() / check_symbol_file() take the incomplete "
            "last line as a record (replay prints the cut symbol name, e.g. `l()` for `leaf`)",
    "F19": "a tid listed in `info` without TASK/FORK line in (a cut) task.txt has no task: report --task, graph --task "
           "and replay -f task dereference task->t == NULL (segfault)",
}


# ---------------------------------------------------------------------------------------------
# synthetic directories
# ---------------------------------------------------------------------------------------------
def s_arg(s):
    b = s if isinstance(s, bytes) else s.encode()
    p = struct.pack("<H", len(b)) + b
    return p + b"\0" * ((-len(p)) % 4)


def i32(v):
    return struct.pack("<i", v)


SHORT_INFO = {
    "cpuinfo": None,
}


class Dir:
    """a synthesized directory + what the model needs to know about it"""

    def __init__(self, name, dd, argspec, retspec, specs, short_info=True):
        self.name = name
        self.dd = dd
        self.argspec, self.retspec = argspec, retspec
        self.specs = specs      # addr -> [(idx, fmt, size)]
        fs = dd.files()
        info = bytearray(fs["info"])
        if argspec or retspec:
            from checks.c09 import info_with_specs
            info = bytearray(info_with_specs(dd, argspec, retspec))
        if short_info:
            head, text = bytes(info[:40]), bytes(info[40:])
            text = text.replace(b"uftrace_version:v0.17 ( x86_64 dwarf python3 luajit tui perf sched dynamic kernel )",
                                b"uftrace_version:v0.17")
            text = text.replace(b"record_date:Tue Sep 29 12:00:00 2026", b"record_date:Tue Sep 29")
            text = text.replace(b" (voluntary / involuntary)", b"").replace(b" (major / minor)", b"")
            text = text.replace(b" (read / write)", b"").replace(b" (free / total)", b"")
            text = text.replace(b" (online/possible)", b"")
            info = bytearray(head + text)
        fs["info"] = bytes(info)
        self.files = fs
        self.tids = [t.tid for t in dd.tasks]
        self.modname = dd.exename.encode()
        self.symname = os.path.basename(dd.exename) + ".sym"
        self.mapname = "sid-%s.map" % D.SID

    def spec_str(self):
        if not self.specs:
            return "-"
        return "/".join("%x:%s" % (a, ",".join("%d.%s.%d" % s for s in l)) for a, l in sorted(self.specs.items()))

    def kind(self, fname):
        if fname.startswith("perf-cpu"):
            return "perf"
        if fname.endswith(".dat"):
            return "dat"
        if fname == "info":
            return "info"
        if fname == "task.txt":
            return "task"
        if fname.endswith(".map"):
            return "map"
        return "sym"


def dir_args():
    syms = [(0x1000, 0x100, "main"), (0x1100, 0x80, "foo"), (0x1200, 0x80, "bar")]
    dd = D.DataDir(syms, [], feat_extra=(1 << 3) | (1 << 4) | (1 << 7))
    A = dd.addr_of
    recs = [
        D.Rec(2000, 'E', 0, A("main")),
        D.Rec(2100, 'E', 1, A("foo"), i32(7) + s_arg("hello")),
        D.Rec(2150, 'V', 2, 100001, struct.pack("<H", 24) + struct.pack("<QQQ", 10, 20, 30)),
        D.Rec(2200, 'E', 2, A("bar"), s_arg("wonderful")),
        D.Rec(2300, 'X', 2, A("bar"), s_arg("ok")),
        D.Rec(2400, 'X', 1, A("foo"), i32(-3)),
        D.Rec(2500, 'X', 0, A("main")),
    ]
    dd.tasks = [D.Task(101, recs)]
    specs = {A("foo"): [(1, "o", 4), (2, "s", 8), (0, "o", 4)], A("bar"): [(1, "s", 8), (0, "s", 8)]}
    return Dir("args", dd, "foo@arg1/i32,arg2/s;bar@arg1/s", "foo@retval/i32;bar@retval/s", specs)


def dir_tasks():
    syms = [(0x1000, 0x100, "main"), (0x1100, 0x80, "work"), (0x1200, 0x40, "leaf")]
    dd = D.DataDir(syms, [], feat_extra=(1 << 3) | (1 << 4) | (1 << 7))
    A = dd.addr_of
    r1 = [
        D.Rec(2000, 'E', 0, A("main")),
        D.Rec(2050, 'V', 1, 100011, struct.pack("<H", 4) + struct.pack("<i", 3)),
        D.Rec(2100, 'E', 1, A("work"), struct.pack("<q", 5) + b"x\0\0\0"),
        D.Rec(2200, 'E', 2, A("leaf")),
        D.Rec(2300, 'X', 2, A("leaf")),
        D.Rec(2350, 'L', 2, 3),
        D.Rec(2400, 'X', 1, A("work"), s_arg("done!")),
        D.Rec(2900, 'X', 0, A("main")),
    ]
    r2 = [
        D.Rec(2500, 'E', 0, A("main")),
        D.Rec(2600, 'E', 1, A("leaf")),
        D.Rec(2700, 'X', 1, A("leaf")),
    ]
    dd.tasks = [D.Task(101, r1), D.Task(103, r2, ppid=101, fork_time=2450)]
    specs = {A("work"): [(1, "o", 8), (2, "c", 1), (0, "s", 8)]}
    return Dir("tasks", dd, "work@arg1/i64,arg2/c", "work@retval/s", specs)


def dir_notask():
    """an `info` that lists no task (`nr_tid=0`, `tids=`): only the info file is cut"""
    syms = [(0x1000, 0x100, "main")]
    dd = D.DataDir(syms, [])
    dd.tasks = [D.Task(101, [D.Rec(2000, 'E', 0, dd.addr_of("main")), D.Rec(2100, 'X', 0, dd.addr_of("main"))])]
    dr = Dir("notask", dd, None, None, {})
    dr.files["info"] = dr.files["info"].replace(b"taskinfo:nr_tid=1\ntaskinfo:tids=101\n", b"taskinfo:nr_tid=0\ntaskinfo:tids=\n")
    assert b"nr_tid=0" in dr.files["info"]
    dr.tids = []
    return dr


def dir_oldinfo():
    """an `info` without the utc_offset section (as written before that section existed): its last line is
    `uftrace_version:…`, which `uftrace info` prints — a cut inside it shows up as a printed value.  Only
    the info file is cut, only `info` is run."""
    syms = [(0x1000, 0x100, "main")]
    dd = D.DataDir(syms, [])
    dd.tasks = [D.Task(101, [D.Rec(2000, 'E', 0, dd.addr_of("main")), D.Rec(2100, 'X', 0, dd.addr_of("main"))])]
    dr = Dir("oldinfo", dd, None, None, {})
    info = bytearray(dr.files["info"])
    mask = struct.unpack_from("<Q", info, 24)[0]
    struct.pack_into("<Q", info, 24, mask & ~(1 << 14))
    info = bytes(info).replace(b"utc_offset:0\n", b"")
    assert info.endswith(b"uftrace_version:v0.17\n")
    dr.files["info"] = info
    return dr


def dir_random(rng, idx):
    """thorough tier: a random call tree with string / int / char / event payloads"""
    names = ["f%d" % i for i in range(rng.randint(3, 6))]
    syms = [(0x1000 + 0x100 * i, 0x80, n) for i, n in enumerate(names)]
    dd = D.DataDir(syms, [], feat_extra=(1 << 3) | (1 << 4) | (1 << 7))
    A = dd.addr_of
    kinds = {}
    argspec, retspec, specs = [], [], {}
    for n in names[1:]:
        k = rng.choice(["none", "s", "is", "c", "ret-s", "ret-i"])
        kinds[n] = k
        sp = []
        if k == "s":
            argspec.append("%s@arg1/s" % n); sp.append((1, "s", 8))
        elif k == "is":
            argspec.append("%s@arg1/i32,arg2/s" % n); sp += [(1, "o", 4), (2, "s", 8)]
        elif k == "c":
            argspec.append("%s@arg1/c" % n); sp.append((1, "c", 1))
        elif k == "ret-s":
            retspec.append("%s@retval/s" % n); sp.append((0, "s", 8))
        elif k == "ret-i":
            retspec.append("%s@retval/i64" % n); sp.append((0, "o", 8))
        if sp:
            specs[A(n)] = sp

    def rstr():
        return bytes(rng.choice(b"abcdefghij") for _ in range(rng.randint(3, 12)))

    def entry_payload(n):
        k = kinds.get(n, "none")
        if k == "s":
            return s_arg(rstr())
        if k == "is":
            return i32(rng.randint(-5, 500)) + s_arg(rstr())
        if k == "c":
            return bytes([rng.choice(b"xyz")]) + b"\0\0\0"
        return b""

    def exit_payload(n):
        k = kinds.get(n, "none")
        if k == "ret-s":
            return s_arg(rstr())
        if k == "ret-i":
            return struct.pack("<q", rng.randint(0, 1000))
        return b""
    tasks = []
    for ti in range(rng.randint(1, 2)):
        t = 2000 + 1000 * ti
        recs, stack = [], []
        for _ in range(rng.randint(6, 14)):
            t += rng.randint(1, 99)
            if stack and (len(stack) > 3 or rng.random() < 0.45):
                n = stack.pop()
                recs.append(D.Rec(t, 'X', len(stack), A(n), exit_payload(n)))
            elif rng.random() < 0.12:
                recs.append(D.Rec(t, 'V', len(stack), 100002, struct.pack("<H", 16) + struct.pack("<QQ", 1, 2)))
            else:
                n = names[0] if not stack else rng.choice(names[1:])
                recs.append(D.Rec(t, 'E', len(stack), A(n), entry_payload(n)))
                stack.append(n)
        tasks.append(D.Task(101 + ti, recs) if ti == 0 else D.Task(101 + ti, recs, pid=101))
    dd.tasks = tasks
    return Dir("rand%d" % idx, dd, ";".join(argspec) or None, ";".join(retspec) or None, specs)


# ---------------------------------------------------------------------------------------------
# perf-cpuN.dat: the per-cpu files of scheduling / task / comm events (utils/perf.c read_perf_event)
# ---------------------------------------------------------------------------------------------
# A record is a struct perf_event_header {u32 type, u16 misc, u16 size} followed by size - 8 bytes.
#   PERF_RECORD_SWITCH (14): sample_id {u32 pid, u32 tid, u64 time}
#   PERF_RECORD_FORK (7) / PERF_RECORD_EXIT (4): {u32 pid, ppid, tid, ptid, u64 time} + sample_id
#   PERF_RECORD_COMM (3): {u32 pid, tid, char comm[] (NUL-terminated, padded to 8)} + sample_id
#   any other type is skipped by its size.
P_COMM, P_EXIT, P_FORK, P_SWITCH = 3, 4, 7, 14
P_NAMES = {P_COMM: "comm", P_EXIT: "task-exit", P_FORK: "task-new", P_SWITCH: "sched"}


def p_hdr(typ, misc, body):
    return struct.pack("<IHH", typ, misc, 8 + len(body)) + body


def p_sample_id(pid, tid, t):
    return struct.pack("<IIQ", pid, tid, t)


def p_switch(pid, tid, t, out, preempt=False):
    return p_hdr(P_SWITCH, (0x2000 if out else 0) | (0x4000 if (out and preempt) else 0), p_sample_id(pid, tid, t))


def p_task(typ, pid, ppid, tid, ptid, t):
    return p_hdr(typ, 0, struct.pack("<IIIIQ", pid, ppid, tid, ptid, t) + p_sample_id(pid, tid, t))


def p_comm(pid, tid, comm, t, exec_=True):
    c = comm.encode()[:15] + b"\0"
    c += b"\0" * ((-len(c)) % 8)
    return p_hdr(P_COMM, 0x2000 if exec_ else 0, struct.pack("<II", pid, tid) + c + p_sample_id(pid, tid, t))


def p_other(typ, nbytes, fill):
    """a record of a type the reader does not know (PERF_RECORD_LOST = 2, _THROTTLE = 5, _SAMPLE = 9, …)"""
    return p_hdr(typ, 0, bytes((fill + i) & 0xff for i in range(nbytes)))


def perf_frames(data):
    """the record framing, written independently of the model: [(offset, type, size)] of the records that
    are completely present in `data`, and the length of `data` cut at the last whole record"""
    off, fr = 0, []
    while off + 8 <= len(data):
        typ, _misc, size = struct.unpack_from("<IHH", data, off)
        if size < 8 or off + size > len(data):
            break
        fr.append((off, typ, size))
        off += size
    return fr, off


def perf_whole(data):
    return data[:perf_frames(data)[1]]


def perf_events(dr, cpus, rng):
    """per-cpu event lists for the directory `dr` (two tasks 101 and 103 with records in 2000..2900).
    rng = None: the fixed layout."""
    t1, t2 = dr.dd.tasks[0], dr.dd.tasks[1]
    evs = {c: [] for c in cpus}

    def cpu():
        return cpus[0] if rng is None else rng.choice(cpus)

    def add(c, t, b):
        evs[c].append((t, b))
    c1 = cpus[0]
    c2 = cpus[-1]
    add(c1, 1995, p_comm(t1.pid, t1.tid, "prog", 1995))
    # scheduled out and in again inside open calls (blocked or pre-empted), both tasks
    slots = [(t1, 2120, 2140), (t1, 2310, 2330), (t2, 2610, 2640), (t1, 2810, 2850)]
    if rng is not None:
        slots = [(tk, a + rng.randint(0, 8), b - rng.randint(0, 8)) for tk, a, b in slots if rng.random() < 0.8]
    for i, (tk, a, b) in enumerate(slots):
        pre = (i % 2 == 1) if rng is None else rng.random() < 0.4
        c = c1 if tk is t1 else c2
        add(c, a, p_switch(tk.pid, tk.tid, a, True, pre))
        # the task may come back on another cpu
        add(c if rng is None or rng.random() < 0.6 else cpu(), b, p_switch(tk.pid, tk.tid, b, False))
    # the second task: created, named, gone
    add(c1, 2452, p_task(P_FORK, t2.pid, t1.pid, t2.tid, t1.tid, 2452))
    add(c2, 2460, p_comm(t2.pid, t2.tid, "worker-%d" % (0 if rng is None else rng.randint(0, 99999)), 2460, False))
    add(c2, 2760, p_task(P_EXIT, t2.pid, t1.pid, t2.tid, t1.tid, 2760))
    # events of a task that is not in the directory, records of types the reader skips
    add(c2, 2470, p_switch(999, 999, 2470, True))
    add(c2, 2480, p_switch(999, 999, 2480, False))
    add(c1, 2200, p_other(9, 24 if rng is None else 8 * rng.randint(0, 6), 0x41))
    add(c2, 2650, p_other(2, 16 if rng is None else 8 * rng.randint(0, 4), 0x61))
    if rng is not None and rng.random() < 0.5:
        add(cpu(), 2050, p_task(P_FORK, 999, t1.pid, 999, t1.tid, 2050))
        add(cpu(), 2060, p_task(P_EXIT, 999, t1.pid, 999, t1.tid, 2060))
    if rng is not None and rng.random() < 0.5:
        add(cpu(), 2420, p_comm(t1.pid, t1.tid, "x" * rng.randint(1, 15), 2420))
    add(c1, 2950, p_task(P_EXIT, t1.pid, 1, t1.tid, t1.tid, 2950))
    if rng is not None:
        # what ends a file: any kind of record
        for c in cpus:
            k = rng.choice(["exit", "new", "comm", "switch", "other", "none"])
            t = 2960 + cpus.index(c)
            if k == "exit":
                add(c, t, p_task(P_EXIT, t1.pid, 1, t1.tid, t1.tid, t))
            elif k == "new":
                add(c, t, p_task(P_FORK, t1.pid, 1, t1.tid, t1.tid, t))
            elif k == "comm":
                add(c, t, p_comm(t1.pid, t1.tid, "last", t))
            elif k == "switch":
                add(c, t, p_switch(t1.pid, t1.tid, t, True))
            elif k == "other":
                add(c, t, p_other(5, 16, 0x30))
    return {c: [b for _, b in sorted(l, key=lambda x: x[0])] for c, l in evs.items()}


def dir_perf(rng=None, idx=0):
    """a directory recorded with perf events (feature bit PERF_EVENT): two tasks, per-cpu files with scheduling,
    task-new / task-exit, comm records and records of unknown types"""
    syms = [(0x1000, 0x100, "main"), (0x1100, 0x80, "work"), (0x1200, 0x40, "leaf")]
    dd = D.DataDir(syms, [], feat_extra=0x100)
    A = dd.addr_of
    r1 = [D.Rec(2000, 'E', 0, A("main")), D.Rec(2100, 'E', 1, A("work")), D.Rec(2150, 'X', 1, A("work")),
          D.Rec(2300, 'E', 1, A("leaf")), D.Rec(2350, 'X', 1, A("leaf")), D.Rec(2800, 'E', 1, A("work")),
          D.Rec(2870, 'X', 1, A("work")), D.Rec(2900, 'X', 0, A("main"))]
    r2 = [D.Rec(2500, 'E', 0, A("work")), D.Rec(2600, 'E', 1, A("leaf")), D.Rec(2700, 'X', 1, A("leaf")),
          D.Rec(2750, 'X', 0, A("work"))]
    dd.tasks = [D.Task(101, r1), D.Task(103, r2, pid=101, start_time=2450)]
    dr = Dir("perf" if rng is None else "perfrand%d" % idx, dd, None, None, {})
    cpus = [0, 1] if rng is None else sorted(rng.sample([0, 1, 2, 3, 7, 10, 12], rng.randint(1, 3)))
    dr.perf = {}
    for c, recs in perf_events(dr, cpus, rng).items():
        dr.files["perf-cpu%d.dat" % c] = b"".join(recs)
        dr.perf["perf-cpu%d.dat" % c] = recs
    return dr


# ---------------------------------------------------------------------------------------------
# running the implementation
# ---------------------------------------------------------------------------------------------
UB_ENV = {"UBSAN_OPTIONS": "halt_on_error=0:print_stacktrace=0",
          "ASAN_OPTIONS": "detect_leaks=0:abort_on_error=0:exitcode=99:symbolize=0:fast_unwind_on_fatal=1"}
UB_ENV_REPLAY = {"UBSAN_OPTIONS": "halt_on_error=0:print_stacktrace=1"}
BENIGN_UB = re.compile(r"runtime error: null pointer passed as argument \d+, which is declared to never be null")


class Runner:
    def __init__(self, ctx, uftrace):
        self.ctx = ctx
        self.uftrace = uftrace
        self.root = os.path.join("/dev/shm" if os.path.isdir("/dev/shm") else ctx.scratch, "uv-c12-%d" % os.getpid())
        shutil.rmtree(self.root, ignore_errors=True)
        os.makedirs(self.root)
        self.n = 0
        self.benign_ub = 0

    def cleanup(self):
        shutil.rmtree(self.root, ignore_errors=True)

    def run(self, files, cname, tag):
        d = os.path.join(self.root, tag)
        os.makedirs(d)
        for n, b in files.items():
            if b is None:
                continue
            with open(os.path.join(d, n), "wb") as f:
                f.write(b)
        c, a = CMDS[cname]
        rc, out, err = D.run_uftrace(self.uftrace, c, d, a, timeout=10, env=UB_ENV)
        shutil.rmtree(d, ignore_errors=True)
        return classify(rc, out.replace(d, "DIR"), err.replace(d, "DIR"))


def classify(rc, out, err):
    """-> dict(rc, san, diag, out, bit)"""
    san = None
    if rc == -999:
        san = "HANG"
    m = re.search(r"ERROR: AddressSanitizer: (\S+)", err)
    if m:
        fr = re.findall(r"#\d+ 0x\w+ in (\w+) /", err)
        san = "ASAN:%s:%s" % (m.group(1), fr[0] if fr else "?")
    elif "AddressSanitizer" in err or rc == 99:
        san = "ASAN:?"
    ub = [l for l in err.split("\n") if "runtime error:" in l]
    benign = 0
    for l in ub:
        if BENIGN_UB.search(l):
            benign += 1
        elif not san:
            san = "UBSAN:" + l.split("runtime error:")[1].strip()[:80]
    if rc < 0 and rc != -999 and not san:
        san = "SIGNAL:%d" % (-rc)
    if rc > 128 and rc != 255 and not san:
        san = "SIGNAL:%d" % (rc - 128)
    diag = ""
    for l in err.split("\n"):
        mm = re.search(r"(ERROR|WARN): (.*)", l)
        if mm:
            diag = mm.group(2).strip()
            break
    bit = None
    mm = re.search(r"error during read uftrace info \((\w+)\)", err)
    if mm:
        bit = int(mm.group(1), 16).bit_length() - 1
    out = re.sub(r'"recorded_time":"[^"]*"', '"recorded_time":""', out)
    return {"rc": rc, "san": san, "diag": diag, "out": out, "bit": bit, "benign_ub": benign}


def same(a, b):
    return a["rc"] == b["rc"] and a["out"] == b["out"] and a["diag"] == b["diag"]


# ---------------------------------------------------------------------------------------------
# canonical (whole-record) form of a cut file, from the model's parse (fixed = 1)
# ---------------------------------------------------------------------------------------------
def unhex(h):
    return b"" if h == "-" else bytes.fromhex(h)


def parse_model(kind, line):
    """model output line -> dict"""
    w = line.split()
    r = {"status": w[0] if w else "?", "raw": line}
    if kind == "dat":
        r["n"] = int(w[0].split("=")[1])
        r["st"] = w[1].split("=")[1]
        r["ust"] = w[2].split("=")[1]
        recs = line.split("|", 1)[1].strip()
        r["recs"] = [x.strip().split(",") for x in recs.split(";")] if recs else []
        r["status"] = "ok"
        return r
    if w[0] != "ok":
        r["tag"] = " ".join(w[1:]) if kind not in ("task",) else line.split("|", 1)[1].strip()
    if kind == "task":
        r["open"] = w[1].split("=")[1]
        r["chrome"] = w[2].split("=")[1] if len(w) > 2 and w[2].startswith("chrome=") else None
        r["tf0"] = w[3].split("=")[1] if len(w) > 3 and w[3].startswith("tf0=") else None
        r["items"] = [x.strip().split() for x in line.split("|", 1)[1].split(";") if x.strip()] if w[0] == "ok" else []
    elif kind == "map" and w[0] == "ok":
        r["kb"] = int(w[1].split("=")[1])
        r["maps"] = [x.strip().split() for x in line.split("|", 1)[1].split(";") if x.strip()]
    elif kind == "sym" and w[0] == "ok":
        r["use"] = w[1] == "use=1"
        r["names"] = w[2] == "names=1"
        r["lines"] = [x.strip().split() for x in line.split("|", 1)[1].split(";") if x.strip()]
    elif kind == "info" and w[0] == "ok":
        r["kv"] = dict(x.split("=", 1) for x in w[1:])
    return r


def ts(ns):
    return "%d.%09d" % (ns // 1000000000, ns % 1000000000)


def canonical(dr, fname, kind, m, cut_bytes):
    """-> (bytes | None for 'remove the file', comparable: bool)"""
    if kind == "dat":
        recs = dr.dd.tasks[[("%d.dat" % t.tid) for t in dr.dd.tasks].index(fname)].records
        if m["n"] == 0 and len(cut_bytes) > 0:
            # an empty <tid>.dat is "no data" for open_data_file (st_size test): the reference for a
            # non-empty file without a whole record is the shortest such file
            return cut_bytes[:1]
        return b"".join(r.pack() for r in recs[:m["n"]])
    if kind == "info":
        # an accepted info file is all of its lines; a reader without C12-F18i also accepts a last line
        # without its newline: that line, completed, is the record the model delivered (`info_last_value`)
        if m["status"] == "ok" and not cut_bytes.endswith(b"\n"):
            return cut_bytes + b"\n"
        return cut_bytes
    if kind == "task":
        if m["status"] != "ok":
            return cut_bytes
        out = []
        for it in m["items"]:
            if it[0] == "T":
                out.append("TASK timestamp=%s tid=%s pid=%s" % (ts(int(it[1])), it[2], it[3]))
            elif it[0] == "F":
                out.append("FORK timestamp=%s pid=%s ppid=%s" % (ts(int(it[1])), it[2], it[3]))
            elif it[0] == "S":
                out.append("SESS timestamp=%s pid=%s sid=%s exename=\"%s\"" % (
                    ts(int(it[1])), it[2], unhex(it[3]).decode("latin1"), unhex(it[4]).decode("latin1")))
        return ("".join(x + "\n" for x in out)).encode("latin1")
    if kind == "map":
        if m["status"] != "ok":
            return cut_bytes
        out = b""
        for e in m["maps"]:
            out += b"%x-%x %s 00000000 00:00 0                          %s%s\n" % (
                int(e[0]), int(e[1]), unhex(e[2]), unhex(e[3]), (b" build-id:" + unhex(e[4])) if e[4] != "-" else b"")
        if m["kb"] in (U64MAX, 0xFFFF800000000000):
            out += STACK_LINE
        return out
    if kind == "sym":
        if m["status"] != "ok":
            return cut_bytes
        if not m["use"]:
            return None
        out = b"# symbols: %d\n# path name: %s\n# build-id: \n" % (len(m["lines"]), dr.modname)
        for l in m["lines"]:
            out += b"%016x %08x %c %s\n" % (int(l[0]), int(l[1]), int(l[2]), unhex(l[3]))
        return out
    raise ValueError(kind)


def model_query(dr, fname, kind, fixed, nl, data):
    """`fixed`: with the memory-safety repairs (F7 … F17, S2 … S4); `nl`: with C12-F18i/t/m/s"""
    h = data.hex() or "-"
    if kind == "dat":
        return "dat %d %s %s" % (fixed, dr.spec_str(), h)
    if kind == "info":
        return "info %d %d %s" % (fixed, nl, h)
    if kind == "task":
        return "task %d %d %s %s" % (fixed, nl, ",".join(map(str, dr.tids)) or "-", h)
    if kind == "map":
        return "map %d %d %s" % (fixed, nl, h)
    return "sym %d %d %s %s" % (fixed, nl, dr.modname.hex(), h)


INFO_KEYS = ["exename:", "cmdline:", "meminfo:", "uftrace_version:", "utc_offset:", "elapsed_time:"]


def info_last_value(m, cut_bytes):
    """the model accepted an info file whose last line has no newline: the value it stored for that line's
    key must be the rest of the line (None: nothing to compare / equal; else a description)"""
    last = cut_bytes[40:].split(b"\n")[-1]
    for k in INFO_KEYS:
        if last.startswith(k.encode()):
            got = unhex(m["kv"].get(k, "-"))
            want = last[len(k):]
            return None if got == want else "model stores %r for the cut line %r" % (got, last)
    return None


def prefix_finding(kind, cname, m0, m1):
    """which finding the model of the code as found predicts at this cut (or None)"""
    if kind == "dat":
        if m0["recs"] != m1["recs"] or m0["st"] != m1["st"] or m0["ust"] != m1["ust"]:
            return "F7"
        if cname == "dump" and any(r[8] == "0" for r in m0["recs"]):
            return "F14"
        return None
    if kind == "task" and cname == "chrome" and m0.get("chrome") == "oob":
        return "F16"
    if kind == "sym" and cname in ("replay",) and m0["status"] == "ok" and not m0["names"]:
        return "F17"
    if m0["status"] == "oob":
        return FINDING_OF_TAG.get(m0.get("tag", "").split(" ")[-1] if kind == "task" else m0.get("tag", ""), "?")
    if kind == "map" and m0["status"] == "ok" and m0["kb"] == 0:
        return "F12"
    return None


def predict_replay(dr, maps, kb, use, symlines, dat_override=None):
    """What `uftrace replay` must show for directory `dr` when its map file parses to `maps` (kernel
    base `kb`) and its .sym file to `symlines`: ("err", name) = "record missing argument info for
    <name>" for the first payload-carrying record that is read whose function has no argument spec
    (specs are bound by symbol NAME), or ("ok", [names of the entries shown]).
    Mirrors task_find_sym/find_symtabs (map lookup, kernel test, relative address, symbol range) and
    the read-ahead order of fstack (first record of every task, then the next one of the task whose
    record was consumed)."""
    spec_names = set()
    for sp in (dr.argspec or "").split(";") + (dr.retspec or "").split(";"):
        if "@" in sp:
            spec_names.add(sp.split("@")[0])
    syms = []
    if use:
        for l in symlines:
            if chr(int(l[2])) in "?TtwPKDdvu" and int(l[1]) > 0:
                syms.append((int(l[0]), int(l[1]), unhex(l[3]).decode("latin1")))

    def name_of(addr):
        if addr >= kb:
            return None
        for e in maps:
            if int(e[0]) <= addr < int(e[1]):
                if unhex(e[3]) != dr.modname:
                    return None
                rel = addr - int(e[0])
                for a, z, n in syms:
                    if a <= rel < a + z:
                        return n
                return None
        return None

    def check(rec):
        """the read of one record: an error name or None"""
        if rec.more and rec.typ in "EX":
            n = name_of(rec.addr)
            if n is None or n not in spec_names:
                return n if n is not None else "<%x>" % rec.addr
        return None
    queues = [list(t.records) for t in dr.dd.tasks]
    if dat_override is not None:
        queues = dat_override
    heads = []
    for q in queues:
        h = q.pop(0) if q else None
        if h is not None:
            e = check(h)
            if e is not None:
                return ("err", e)
        heads.append(h)
    shown = []
    while any(h is not None for h in heads):
        i = min((h.time, j) for j, h in enumerate(heads) if h is not None)[1]
        h = heads[i]
        if h.typ == "E":
            n = name_of(h.addr)
            shown.append(n if n is not None else "<%x>" % h.addr)
        nxt = queues[i].pop(0) if queues[i] else None
        if nxt is not None:
            e = check(nxt)
            if e is not None:
                return ("err", e)
        heads[i] = nxt
    return ("ok", shown)


def observed_replay(r):
    if r["rc"] != 0:
        m = re.search(r"record missing argument info for ?(.*)$", r["diag"])
        return ("err", m.group(1).strip() if m else r["diag"])
    names = []
    for ev in D.parse_replay(r["out"]):
        if ev[0] in ("E", "L"):
            names.append(ev[3])
    return ("ok", names)


def cut_of(dr, fname, k):
    """the bytes of job position `k`: a prefix length, or ("nlt", n): the first n bytes completed with a
    newline (a short but terminated last line: not a truncation — these cases exercise the memory-safety
    repairs behind the newline test of C12-F18 and are compared with the model only)"""
    if isinstance(k, tuple):
        return dr.files[fname][:k[1]] + b"\n"
    return dr.files[fname][:k]


def whole(kind, data):
    """the text file `data` cut at its last whole record (line with its newline); `info`: behind the 40-byte
    binary header.  Written independently of the model (`TextScan.wholeLines`, `InfoFile.infoWhole`)."""
    if kind == "info":
        if len(data) < 40:
            return data
        return data[:40] + whole("text", data[40:])
    return data[:data.rfind(b"\n") + 1]


def whole_records_before(recs, k):
    """independent of the model: how many leading records are completely inside the first k bytes"""
    n, off = 0, 0
    for r in recs:
        body = len(r.payload) if r.more else 0
        if off + 16 + body > k:
            break
        n += 1
        off += len(r.pack())
    return n


# ---------------------------------------------------------------------------------------------
def plan(ctx, dirs):
    """[(dir, fname, cut|None, cmd)]"""
    quick = ctx.tier == "quick"
    jobs = []
    for dr in dirs:
        for fname, data in dr.files.items():
            kind = dr.kind(fname)
            cmds = list(MAIN_CMDS)
            first = 0
            if dr.name == "notask":
                if kind != "info":
                    continue
                cmds = ["replay"]
            elif dr.name == "oldinfo":
                if kind != "info":
                    continue
                cmds = ["info"]
                first = max(0, len(data) - 80) if quick else 0
            elif quick and dr.name.startswith("rand"):
                cmds = ["replay", "report", "dump"] if kind == "dat" else []
            elif quick:
                if kind == "info":
                    cmds = ["info", "replay"] if dr.name == "args" else []
                elif dr.name == "tasks":
                    cmds = {"sym": ["replay"], "map": ["replay", "chrome"],
                            "task": ["replay", "chrome"] + list(TASK_CMDS)}.get(kind, cmds)
                elif kind == "task":
                    cmds = ["replay", "report", "dump", "chrome", "info"]
                elif kind in ("map", "sym"):
                    cmds = ["replay", "report", "dump", "chrome"]
            elif kind == "task":
                cmds = cmds + list(TASK_CMDS)
            for c in cmds:
                if first == 0:
                    jobs.append((dr, fname, None, c))
                for k in range(first, len(data) + 1):
                    jobs.append((dr, fname, k, c))
            # every cut line of task.txt / map / .sym completed with a newline.  (Not for `info`: a complete
            # section line without `lines=N` leaves `lines` uninitialised in read_cpuinfo & co., and a complete
            # `tids=` line with fewer tids than nr_tid runs into an ASSERT — malformed content that no
            # truncation produces; the model has error enums there, see Model/InfoFile.lean.)
            if kind in ("task", "map", "sym") and (dr.name == "args" or (not quick and dr.name == "tasks")):
                for c in (["replay"] if quick else ["replay", "dump"]):
                    for k in range(len(data)):
                        if not data[:k].endswith(b"\n"):
                            jobs.append((dr, fname, ("nlt", k), c))
    # corpus/C12/*.json: the witnesses of the findings are always among the cases
    have = {(dr.name, fname, k, c) for dr, fname, k, c in jobs}
    byname = {d.name: d for d in dirs}
    rev = {" ".join((v[0],) + tuple(v[1])): n for n, v in CMDS.items()}
    cdir = os.path.join(C.VERIF, "corpus", "C12")
    for fn in sorted(os.listdir(cdir)) if os.path.isdir(cdir) else []:
        try:
            w = json.load(open(os.path.join(cdir, fn)))
            dr, c = byname[w["dir"]], rev[w["cmd"]]
            if {n: b.hex() for n, b in dr.files.items()} != w["files_hex"]:
                continue        # a witness of another synthesized directory: only replayable by --replay
            if (dr.name, w["file"], w["cut"], c) not in have:
                jobs.insert(0, (dr, w["file"], w["cut"], c))
        except (KeyError, ValueError, OSError):
            continue
    return jobs


def tree_flags(runner, dr):
    """Which of the C12-F18 repairs the tree being checked has, per file kind, observed on the
    implementation: 1 = a last line without its newline is treated as the end of the file.  One run per
    kind on the `args` directory with a file whose last line is complete but for its newline (map: its
    first line only): every command succeeds on the complete directory, and replay fails (no task / no
    mapping / `bar` unresolved: "record missing argument info") once that line is not read."""
    mapdata = dr.files[dr.mapname]
    probes = {
        "info": ("info", dr.files["info"][:-1], "info"),
        "task": ("task.txt", dr.files["task.txt"][:-1], "replay"),
        "map": (dr.mapname, mapdata[:mapdata.index(b"\n")], "replay"),
        "sym": (dr.symname, dr.files[dr.symname][:-1], "replay"),
    }
    flags, seen = {}, {}
    for kind, (fname, data, c) in probes.items():
        assert not data.endswith(b"\n")
        fs = dict(dr.files)
        fs[fname] = data
        r = runner.run(fs, c, "probe-" + kind)
        flags[kind] = 0 if r["rc"] == 0 and not r["san"] else 1
        seen[kind] = {"file": fname, "cmd": c, "rc": r["rc"], "diag": r["diag"][:80], "san": r["san"]}
    return flags, seen


def run(ctx):
    ok, problems = C.prove(ctx, "C12")
    if not ok:
        C.violation(ctx, "proof", {"kind": "proof-obligation-broken", "problems": problems}, True)
        return C.finish(ctx)
    ctx.snapshot()
    t0 = time.time()
    okm, log = ctx.make(extra=["ASAN=1"])
    uftrace = os.path.join(ctx.src, "uftrace")
    if not okm or not os.path.exists(uftrace):
        C.violation(ctx, "build", {"kind": "asan-build-failed", "log": log[-3000:]}, True)
        return C.finish(ctx)
    t_build = time.time() - t0
    kf = {f["id"]: f for f in C.known_findings("C12")}

    dirs = [dir_args(), dir_tasks(), dir_notask(), dir_oldinfo()]
    # seed-dependent directories: random call trees with string / int / char / event payloads
    dirs += [dir_random(ctx.rng, i) for i in range(6 if ctx.tier == "thorough" else 1)]
    jobs = plan(ctx, dirs)
    runner = Runner(ctx, uftrace)
    try:
        return check(ctx, runner, dirs, jobs, kf, t_build)
    finally:
        runner.cleanup()


def check(ctx, runner, dirs, jobs, kf, t_build):
    # ---- which repairs does the tree have?  (the model is run with the flags that mirror it) ----
    nl_tree, probe_seen = tree_flags(runner, dirs[0])
    nl_tree["dat"] = 0          # no such flag for the trace data

    # ---- model: every (dir, file, cut) in three variants --------------------------------------
    #   rep: fixed = 1, nl = 1            every repair (the theorems of Props/C12.lean, Part 1-3)
    #   cur: fixed = 1, nl = nl_tree      the mirror of the tree being checked
    #   old: fixed = 0, nl = nl_tree      the tree without the memory-safety repairs (attribution)
    cuts = {}
    for dr, fname, k, c in jobs:
        cuts.setdefault((dr.name, fname, k), (dr, fname, k))
    # the copy cut at the last whole line of a text-file cut is itself a cut of the file
    for key, (dr, fname, k) in list(cuts.items()):
        kind = dr.kind(fname)
        if k is None or kind == "dat" or isinstance(k, tuple):
            continue
        j = len(whole(kind, dr.files[fname][:k]))
        cuts.setdefault((dr.name, fname, j), (dr, fname, j))
    qs, keys = [], []
    for key, (dr, fname, k) in cuts.items():
        if k is None:
            continue
        kind = dr.kind(fname)
        data = cut_of(dr, fname, k)
        variants = {"rep": (1, 1), "cur": (1, nl_tree[kind]), "old": (0, nl_tree[kind])}
        done = {}
        for v, fl in variants.items():
            if fl in done:
                keys.append((key, v, done[fl]))
                continue
            done[fl] = len(qs)
            keys.append((key, v, len(qs)))
            qs.append(model_query(dr, fname, kind, fl[0], fl[1], data))
    # the model's `wholeLines` / `infoWhole` on every text cut
    wq, wkeys = [], []
    for key, (dr, fname, k) in cuts.items():
        kind = dr.kind(fname)
        if k is None or kind == "dat":
            continue
        wq.append("whole %s %s" % ("info" if kind == "info" else "text", cut_of(dr, fname, k).hex() or "-"))
        wkeys.append(key)
    tm = time.time()
    mout = C.run_model("C12", qs)
    wout = C.run_model("C12", wq)
    t_model = time.time() - tm
    model = {}
    parsed = {}
    for (key, v, qi) in keys:
        dr, fname, k = cuts[key]
        if qi not in parsed:
            parsed[qi] = parse_model(dr.kind(fname), C.norm(mout[qi]))
        model[(key, v)] = parsed[qi]

    # the model's parse of the complete map and sym files (for the name oracle)
    fq = []
    for dr in dirs:
        fq.append(model_query(dr, dr.mapname, "map", 1, 1, dr.files[dr.mapname]))
        fq.append(model_query(dr, dr.symname, "sym", 1, 1, dr.files[dr.symname]))
    fo = C.run_model("C12", fq)
    for i, dr in enumerate(dirs):
        dr.full_models = {"map": parse_model("map", C.norm(fo[2 * i])), "sym": parse_model("sym", C.norm(fo[2 * i + 1]))}

    # raw dump of a complete short string (F14) does not depend on which other file is cut
    for dr in dirs:
        dr.f14 = False
        for fname in dr.files:
            if dr.kind(fname) == "dat":
                m0 = model.get(((dr.name, fname, len(dr.files[fname])), "old"))
                if m0 and any(x[8] == "0" for x in m0["recs"]):
                    dr.f14 = True

    # ---- implementation: the cut copies, their whole-record copies and canonical forms -------
    runs = {}         # (dir, fname, cmd, content | None) -> result

    def need(dr, fname, c, content):
        rk = (dr.name, fname, c, content)
        if rk not in runs:
            runs[rk] = None
        return rk

    def refs(dr, fname, kind, k):
        """-> (cut, whole-record copy (the monitor's reference), canonical form of the mirror model's parse)"""
        cut = cut_of(dr, fname, k)
        m_cur = model[((dr.name, fname, k), "cur")]
        cb = canonical(dr, fname, kind, m_cur, cut)
        wb = cb if kind == "dat" else whole(kind, cut)
        return cut, wb, cb
    for dr, fname, k, c in jobs:
        if k is None:
            need(dr, fname, c, None)
            continue
        cut, wb, cb = refs(dr, fname, dr.kind(fname), k)
        need(dr, fname, c, cut)
        need(dr, fname, c, wb)
        need(dr, fname, c, cb)
    byname = {d.name: d for d in dirs}

    def one(t):
        i, rk = t
        fs = dict(byname[rk[0]].files)
        fs[rk[1]] = rk[3]
        return rk, runner.run(fs, rk[2], "j%d" % i)
    tr = time.time()
    with ThreadPoolExecutor(14) as ex:
        for rk, r in ex.map(one, list(enumerate(runs))):
            runs[rk] = r
    t_runs = time.time() - tr

    # ---- compare -----------------------------------------------------------------------------
    stats = {"runs": len(runs) + len(probe_seen), "cuts": len([1 for k in cuts if k[2] is not None and not isinstance(k[2], tuple)]),
             "newline_completed_cuts": len([1 for k in cuts if isinstance(k[2], tuple)]), "monitor_fail": 0,
             "disagree": 0, "by_finding": {}, "benign_ub_runs": 0, "san": 0, "hang": 0, "not_at_record_boundary": 0,
             "prefix_model_differs": 0}
    distinct = set()
    samples = []
    reported = {}

    def report(fid, kindname, obj, nfi=False):
        stats["by_finding"][fid] = stats["by_finding"].get(fid, 0) + 1
        if reported.get(fid, 0) >= (2 if fid in FINDING_TEXT else 4):
            return
        reported[fid] = reported.get(fid, 0) + 1
        if fid in kf:
            C.known(ctx, kf[fid], "%s open: %s" % (fid, FINDING_TEXT.get(fid, "")))
        else:
            C.violation(ctx, "%s-%d" % (fid, reported[fid]), obj, no_failing_input=nfi)

    # the model's whole-line cut against the independent one; the theorems of Part 3 on the compiled model
    for key, line in zip(wkeys, wout):
        dr, fname, k = cuts[key]
        kind = dr.kind(fname)
        cut = cut_of(dr, fname, k)
        wb = whole(kind, cut)
        if unhex(C.norm(line) or "-") != wb:
            stats["disagree"] += 1
            report("correspondence", "model-code-disagreement",
                   {"kind": "model-code-disagreement", "dir": dr.name, "file": fname, "cut": k,
                    "what": "the model's copy cut at the last whole line (%s) is not the file cut at its last newline"
                            % ("infoWhole" if kind == "info" else "wholeLines")}, nfi=True)
        mw = None if isinstance(k, tuple) else model.get(((dr.name, fname, len(wb)), "rep"))
        if mw is not None and mw["raw"] != model[(key, "rep")]["raw"]:
            stats["disagree"] += 1
            report("correspondence", "model-code-disagreement",
                   {"kind": "theorem-vs-compiled-model", "dir": dr.name, "file": fname, "cut": k,
                    "what": "the compiled model with nl = 1 reads the cut and its whole-line copy differently",
                    "theorem": "c12_text_cut_equals_last_whole_line / c12_info_cut_equals_last_whole_line"}, nfi=True)

    for dr, fname, k, c in jobs:
        key = (dr.name, fname, k)
        kind = dr.kind(fname)
        r = runs[(dr.name, fname, c, None if k is None else cut_of(dr, fname, k))]
        stats["benign_ub_runs"] += 1 if r["benign_ub"] else 0
        base = {"dir": dr.name, "file": fname, "cut": k[1] if isinstance(k, tuple) else k, "append_newline": isinstance(k, tuple),
                "size": len(dr.files[fname]), "cmd": " ".join((CMDS[c][0],) + tuple(CMDS[c][1])),
                "files_hex": {n: b.hex() for n, b in dr.files.items()},
                "impl": {"rc": r["rc"], "san": r["san"], "diag": r["diag"], "stdout": r["out"][:1500]}}
        if k is None:
            # removal of a file: prompt termination with a diagnostic (or a partial result for .sym)
            bad = r["san"] or r["rc"] not in (0, 1, 255) or (r["rc"] != 0 and not r["diag"] and kind != "sym")
            distinct.add((dr.name, fname, "removed", c, r["rc"], r["diag"][:40]))
            if bad:
                stats["monitor_fail"] += 1
                report("removed-file", "property-violated-on-implementation",
                       dict(base, kind="property-violated-on-implementation",
                            what="removing %s: %s" % (fname, r["san"] or "no diagnostic / bad exit status")))
            continue
        m_rep, m1, m0 = model[(key, "rep")], model[(key, "cur")], model[(key, "old")]
        cut, wb, cb = refs(dr, fname, kind, k)
        r_w = runs[(dr.name, fname, c, wb)]       # on the copy cut at the last whole record
        r_c = runs[(dr.name, fname, c, cb)]       # on the mirror model's parse, re-rendered
        at_boundary = kind == "dat" or wb == cut
        stats["not_at_record_boundary"] += 0 if at_boundary else 1
        stats["prefix_model_differs"] += 1 if m1["raw"] != m_rep["raw"] else 0
        distinct.add((dr.name, fname, c, r["rc"], r["san"], hashlib.md5(r["out"].encode()).hexdigest()[:8], r["diag"][:30],
                      m1["raw"][:40]))
        if len(samples) < 5 and not isinstance(k, tuple) and (k * 7 + len(c)) % 211 == 3:
            samples.append({"dir": dr.name, "file": fname, "cut": k, "cmd": c, "model": m1["raw"][:200],
                            "impl": {"rc": r["rc"], "diag": r["diag"], "stdout": r["out"][:200]}})
        # monitor: the property itself
        bad = None
        if r["san"]:
            bad = "sanitizer/hang/signal: " + r["san"]
            stats["san"] += 1
            stats["hang"] += 1 if r["san"] == "HANG" else 0
        elif r["rc"] not in (0, 1, 255):
            bad = "exit status %d" % r["rc"]
        elif r["rc"] != 0 and not r["diag"]:
            bad = "non-zero exit status without a diagnostic"
        elif not same(r, r_w):
            bad = "output differs from the output on the copy cut at the last whole record (%s)" % (
                "file removed" if wb is None else "%d bytes" % len(wb))
        # correspondence: prediction of the model that mirrors the tree vs implementation
        dis = None
        if not r["san"] and not same(r, r_c):
            dis = "output differs from the output on the model's parse re-rendered as a complete file (%s)" % (
                "file removed" if cb is None else "%d bytes" % len(cb))
        if kind == "dat":
            recs = dr.dd.tasks[[("%d.dat" % t.tid) for t in dr.dd.tasks].index(fname)].records
            wn = whole_records_before(recs, k)
            if m1["n"] != wn or m1["st"] != "eof":
                dis = "model delivers %d records (%s), the generator's record boundaries say %d" % (m1["n"], m1["st"], wn)
            elif c == "dump" and not r["san"] and r["rc"] == 0:
                shown = len(re.findall(r"^\d+\.\d+ +%s: \[(?:entry|exit |lost |event)\]" % fname[:-4], r["out"], re.M))
                if shown != wn:
                    dis = "raw dump shows %d records of %s, model/generator say %d" % (shown, fname, wn)
        elif kind == "info" and not r["san"]:
            if m1["status"] == "ok":
                if "cannot read" in r["diag"]:
                    dis = "model accepts the info file, implementation: " + r["diag"]
                elif not cut.endswith(b"\n"):
                    dis = info_last_value(m1, cut) or dis
            else:
                want = "cannot read header data" if "header_data" in m1["tag"] else "cannot read uftrace header info!"
                if want not in r["diag"]:
                    dis = "model: %s, implementation: %r" % (m1["tag"], r["diag"])
                elif c == "info" and m1["tag"].startswith("info_bit_") and r["bit"] != int(m1["tag"].split("_")[2]):
                    dis = "model: reader of info bit %s fails, implementation: bit %s" % (m1["tag"].split("_")[2], r["bit"])
        elif kind == "task" and not r["san"] and c != "info":
            want = {"einval": "Invalid argument", "enodata": "No data available"}.get(m1["open"])
            if want and want not in r["diag"]:
                dis = "model: open_data_file fails with %s, implementation: %r" % (m1["open"], r["diag"])
            if not want and ("Invalid argument" in r["diag"] or "No data available" in r["diag"]):
                dis = "model: task.txt accepted, implementation: %r" % r["diag"]
        if kind in ("map", "sym") and c == "replay" and not r["san"] and m1["status"] == "ok":
            full = dr.full_models
            mm = m1 if kind == "map" else full["map"]
            ss = m1 if kind == "sym" else full["sym"]
            want = predict_replay(dr, mm["maps"], mm["kb"], ss["use"], ss["lines"])
            got = observed_replay(r)
            if want != got:
                dis = "replay: the model's parse of the %s file predicts %r, the implementation shows %r" % (kind, want, got)
        if not bad and not dis:
            continue
        # which finding does the model of the code without a repair predict at this cut?
        fid = None
        if kind == "task" and c in TASK_CMDS and r["san"] and m1["status"] == "ok" and m1["open"] == "ok" and m1.get("tf0") == "oob":
            fid = "F19"
        elif bad and not dis and not r["san"] and not at_boundary and nl_tree[kind] == 0 and m1["raw"] != m_rep["raw"]:
            # the implementation is what the pre-fix model says (no disagreement with `cur`), the repaired
            # model differs, and the cut is not at a record boundary: the F18 shape of this file kind
            fid = F18_OF_KIND[kind]
        elif kind == "info":
            fid = FINDING_OF_TAG.get(m0["tag"], "?") if m0["status"] == "oob" else None
        else:
            fid = prefix_finding(kind, c, m0, m1)
        if fid is None and c == "dump" and dr.f14 and (r["san"] or "").startswith("ASAN:heap-buffer-overflow"):
            fid = "F14"
        if bad:
            stats["monitor_fail"] += 1
            obj = dict(base, kind="property-violated-on-implementation", what=bad,
                       whole_record_copy_bytes=None if wb is None else len(wb), cut_at_record_boundary=at_boundary,
                       tree_flags=nl_tree,
                       model_repaired=m_rep["raw"][:400], model_mirror=m1["raw"][:400], model_as_found=m0["raw"][:400],
                       expected={"rc": r_w["rc"], "diag": r_w["diag"], "stdout": r_w["out"][:1500]},
                       matches_prefix_model=fid, finding=FINDING_TEXT.get(fid),
                       theorem="c12_cut_equals_whole_prefix / c12_parsers_total_in_bounds / "
                               "c12_text_cut_equals_last_whole_line / c12_info_cut_equals_last_whole_line / c12_task_fields_total")
            report(fid or "unexplained", "property", obj)
        if dis and not (bad and fid):
            stats["disagree"] += 1
            report("correspondence", "model-code-disagreement",
                   dict(base, kind="model-code-disagreement", what=dis, tree_flags=nl_tree, model_mirror=m1["raw"][:400]),
                   nfi=True)

    # the complete info file: parsed values against `uftrace info`
    for dr in dirs:
        key = (dr.name, "info", len(dr.files["info"]))
        rk = (dr.name, "info", "info", dr.files["info"])
        if (key, "rep") not in model or runs.get(rk) is None:
            continue
        m1, r = model[(key, "rep")], runs[rk]
        if m1["status"] != "ok" or r["rc"] != 0:
            continue
        kv = m1["kv"]
        want = {"exe image": unhex(kv.get("exename:", "-")).decode("latin1"),
                "cmdline": unhex(kv.get("cmdline:", "-")).decode("latin1"),
                "program version": unhex(kv.get("uftrace_version:", "-")).decode("latin1"),
                "number of tasks": kv.get("nr_tid")}
        if "" in r["out"].rstrip("\n").split("\n"):
            stats["disagree"] += 1
            report("correspondence", "model-code-disagreement",
                   {"kind": "model-code-disagreement", "dir": dr.name,
                    "what": "`uftrace info` prints an empty line: a value kept its newline (model: copy_info_str strips it)"},
                   nfi=True)
        for k2, v in want.items():
            mm = re.search(r"^# %s\s*: (.*)$" % re.escape(k2), r["out"], re.M)
            if not mm or mm.group(1).strip() != str(v):
                stats["disagree"] += 1
                report("correspondence", "model-code-disagreement",
                       {"kind": "model-code-disagreement", "what": "info field %r: model %r, implementation %r" % (
                           k2, v, mm.group(1) if mm else None), "dir": dr.name}, nfi=True)

    # ---- perf-cpuN.dat: every cut of every per-cpu perf file ------------------------------------
    tp = time.time()
    pst = perf_family(ctx, runner, kf, report)
    pst["wall_s"] = round(time.time() - tp, 1)
    stats["monitor_fail"] += pst["monitor_fail"]
    stats["disagree"] += pst["disagree"]

    ctx.coverage.update({
        "evaluations": stats["runs"] + pst["runs"],
        "distinct_nontrivial": len(distinct) + pst["distinct"],
        "perf_files": pst,
        "rule": "exhaustive: every truncation length 0..size of every file (and the removal of each file) of "
                "%d synthesized directories x the commands listed in `plan` (quick: all 6 on every .dat of the two "
                "fixed directories, 4-5 commands on the args directory's task/map/sym, 1-2 on the tasks directory's "
                "(+ report --task, graph --task, replay -f task on its task.txt), info+replay on info cuts, `info` on the "
                "last 80 cuts of an info file that ends with the version line, replay/report/dump on the .dat files of "
                "one random directory drawn from the seed; thorough: all 6 commands everywhere + 6 random directories); "
                "every cut of the args directory's task/map/sym completed with a newline (replay); each cut is run, "
                "and so are its copy cut at the last whole record and the mirror model's parse re-rendered as a file; "
                "distinct = distinct (dir, file, cmd, exit, sanitizer, stdout hash, diagnostic, model result).  "
                "perf-cpuN.dat (coverage.perf_files): every truncation length 0..size of every per-cpu perf file (sched-in/out, "
                "pre-emption, task-new, task-exit, comm, records of unknown types, events of foreign tasks) of one fixed and "
                "%d seed-drawn directories (1-3 cpu files with holes in the numbering, random record order, lengths and last "
                "record) x replay --event-full, dump, dump --chrome (+ report, graph, info, info --task: quick on the first "
                "file of the fixed directory, thorough everywhere), the removal of each file and of all of them; every cut is "
                "compared with its copy cut at the last whole perf record"
                % (len(dirs), len(pst["dirs"]) - 1),
        "tree_flags": {"nl": {k2: v for k2, v in nl_tree.items() if k2 != "dat"}, "probes": probe_seen},
        "cuts_not_at_a_record_boundary": stats["not_at_record_boundary"],
        "cut_lines_completed_with_a_newline": stats["newline_completed_cuts"],
        "cases_where_mirror_and_repaired_model_differ": stats["prefix_model_differs"],
        "cut_points": stats["cuts"], "monitor_failures_on_impl": stats["monitor_fail"],
        "model_code_disagreements": stats["disagree"], "attributed": stats["by_finding"],
        "sanitizer_or_hang_runs": stats["san"], "hangs": stats["hang"],
        "runs_with_benign_nonnull_ubsan_report": stats["benign_ub_runs"],
        "directories": {d.name: {n: len(b) for n, b in d.files.items()} for d in dirs},
        "asan_build_s": round(t_build, 1), "model_s": round(t_model, 1), "runs_s": round(t_runs, 1),
        "exhaustive": True,
        "samples": samples,
    })
    ctx.assumptions += [
        "regular files: fread fails only at end of file (no I/O errors)",
        "little-endian 64-bit data (no byte swapping), no build-id / kernel data in the directories; perf data only in the "
        "directories of the perf-cpuN.dat sweep",
        "UBSan's nonnull-attribute reports for bsearch/qsort(NULL, 0, ...) on an empty symbol table are counted, not "
        "treated as violations",
        "a record of a text file is a line with its newline; the tree's handling of a last line without one is observed "
        "per file kind (coverage.tree_flags: 1 = end of file, C12-F18 applied; 0 = taken as a line) and the model is run "
        "with the same flags",
    ]
    ctx.notes.append("findings with patches in /verif/proposed_fixes/C12-*.diff: " + ", ".join(sorted(FINDING_TEXT)))
    ctx.notes.append("tree flags observed (1 = C12-F18 repair present): " + ", ".join(
        "%s=%d" % (k2, v) for k2, v in sorted(nl_tree.items()) if k2 != "dat"))
    return C.finish(ctx)


# ---------------------------------------------------------------------------------------------
# the perf-cpuN.dat sweep
# ---------------------------------------------------------------------------------------------
def parse_perf_model(line):
    """`perf` op of uv_C12 -> dict(n, st, evs = [(type, misc, pid, tid, time)])"""
    w = line.split()
    r = {"raw": line, "n": int(w[0].split("=")[1]), "st": w[1].split("=")[1], "evs": []}
    rest = line.split("|", 1)[1].strip() if "|" in line else ""
    for x in rest.split(";"):
        x = x.strip()
        if x:
            r["evs"].append(tuple(int(v) for v in x.split(",")))
    return r


def perf_event_name(typ, misc):
    if typ == P_SWITCH:
        return "linux:sched-in" if not misc & 0x2000 else (
            "linux:sched-out (pre-empted)" if misc & 0x4000 else "linux:sched-out")
    return {P_FORK: "linux:task-new", P_EXIT: "linux:task-exit", P_COMM: "linux:task-name"}[typ]


def dump_perf_block(out, fname):
    """the event lines raw `dump` prints under "reading <fname>": [(time ns, tid, event name)]"""
    got, on = [], False
    for l in out.split("\n"):
        if l.startswith("reading "):
            on = l.strip() == "reading " + fname
            continue
        m = re.match(r"^(\d+)\.(\d{9}) +(\d+): \[event\] (.*)\(\d+\)", l)
        if on and m:
            got.append((int(m.group(1)) * 1000000000 + int(m.group(2)), int(m.group(3)), m.group(4)))
    return got


def drop_empty_perf_headings(out):
    """raw `dump` announces a per-cpu file that is not empty ("reading perf-cpuN.dat") before it reads it, and says
    nothing about an empty one: a file cut inside its first record gets the heading and no event line.  The heading
    names the file, not a record of it, so headings without an event line below them are not compared."""
    ls = out.split("\n")
    keep = []
    for i, l in enumerate(ls):
        if re.fullmatch(r"reading perf-cpu\d+\.dat", l.strip()) and not (i + 1 < len(ls) and "[event]" in ls[i + 1]):
            continue
        if l.strip():       # the blank line in front of the per-cpu blocks goes with the first heading
            keep.append(l)
    return "\n".join(keep)


def perf_family(ctx, runner, kf, report):
    """every truncation length of every perf-cpuN.dat (and its removal, and the removal of all of them) of the
    directories of `dir_perf`: monitor = the output on the cut equals the output on the copy cut at the last whole
    perf record (framing by `perf_frames`, independent of the model); correspondence = the events `Trunc.readPerfAll`
    (the reader as coded) delivers from the cut are the records completely present and the events raw `dump` lists."""
    quick = ctx.tier == "quick"
    dirs = [dir_perf()] + [dir_perf(ctx.rng, i) for i in range(1 if quick else 5)]
    st = {"dirs": {d.name: {n: len(b) for n, b in d.files.items() if d.kind(n) == "perf"} for d in dirs},
          "cuts": 0, "runs": 0, "monitor_fail": 0, "disagree": 0, "cuts_inside_a_record": 0,
          "cuts_in_the_trailing_sample_id_of_a_task_record": 0, "record_types_cut": {}}
    jobs = []
    for dr in dirs:
        pfiles = sorted(n for n in dr.files if dr.kind(n) == "perf")
        for fi, fname in enumerate(pfiles):
            if not quick or (dr.name == "perf" and fi == 0):
                cmds = list(PERF_CMDS)
            elif dr.name == "perf":
                cmds = ["pfull", "dump", "chrome"]
            else:
                cmds = ["pfull", "dump"]
            for c in cmds:
                jobs.append((dr, fname, None, c))
                for k in range(len(dr.files[fname]) + 1):
                    jobs.append((dr, fname, k, c))
        for c in PERF_CMDS:
            jobs.append((dr, "*", None, c))
    # model
    cuts = {}
    for dr, fname, k, c in jobs:
        if k is not None:
            cuts.setdefault((dr.name, fname, k), (dr, fname, k))
    ckeys = list(cuts)
    mout = C.run_model("C12", ["perf 0 %s" % (cuts[key][0].files[cuts[key][1]][:key[2]].hex() or "-") for key in ckeys])
    model = {key: parse_perf_model(C.norm(l)) for key, l in zip(ckeys, mout)}
    # implementation
    runs = {}

    def files_of(dr, fname, content):
        fs = dict(dr.files)
        if fname == "*":
            for n in list(fs):
                if dr.kind(n) == "perf":
                    fs[n] = None
        else:
            fs[fname] = content
        return fs
    for dr, fname, k, c in jobs:
        data = None if k is None else dr.files[fname][:k]
        runs.setdefault((dr.name, fname, c, data), None)
        if data is not None:
            runs.setdefault((dr.name, fname, c, perf_whole(data)), None)
    byname = {d.name: d for d in dirs}

    def one(t):
        i, rk = t
        return rk, runner.run(files_of(byname[rk[0]], rk[1], rk[3]), rk[2], "p%d" % i)
    with ThreadPoolExecutor(14) as ex:
        for rk, r in ex.map(one, list(enumerate(runs))):
            runs[rk] = r
    st["runs"] = len(runs)
    st["cuts"] = len(cuts)
    distinct = set()
    for dr, fname, k, c in jobs:
        data = None if k is None else dr.files[fname][:k]
        r = runs[(dr.name, fname, c, data)]
        base = {"dir": dr.name, "file": fname, "cut": k, "size": len(dr.files.get(fname, b"")),
                "cmd": " ".join((CMDS[c][0],) + tuple(CMDS[c][1])),
                "files_hex": {n: b.hex() for n, b in dr.files.items()},
                "impl": {"rc": r["rc"], "san": r["san"], "diag": r["diag"], "stdout": r["out"][:2500]}}
        if k is None:
            # a perf file (or all of them) removed: the events of that cpu are missing, nothing else happens
            distinct.add((dr.name, fname, "removed", c, r["rc"], hashlib.md5(r["out"].encode()).hexdigest()[:8]))
            if r["san"] or r["rc"] != 0:
                st["monitor_fail"] += 1
                report("perf-removed-file", "property-violated-on-implementation",
                       dict(base, kind="property-violated-on-implementation",
                            what="removing %s: %s" % (fname, r["san"] or "exit status %d (%s)" % (r["rc"], r["diag"]))))
            continue
        frames, wl = perf_frames(data)
        r_w = runs[(dr.name, fname, c, data[:wl])]
        m = model[(dr.name, fname, k)]
        inside = wl != k
        if c == "pfull":
            st["cuts_inside_a_record"] += 1 if inside else 0
            if inside and k - wl >= 8:
                typ, _, size = struct.unpack_from("<IHH", data, wl)
                nm = P_NAMES.get(typ, "other")
                st["record_types_cut"][nm] = st["record_types_cut"].get(nm, 0) + 1
                if typ in (P_FORK, P_EXIT) and k - wl >= size - 16:
                    st["cuts_in_the_trailing_sample_id_of_a_task_record"] += 1
        distinct.add((dr.name, fname, c, r["rc"], r["san"], hashlib.md5(r["out"].encode()).hexdigest()[:8], m["n"]))
        bad = None
        if r["san"]:
            bad = "sanitizer/hang/signal: " + r["san"]
        elif r["rc"] not in (0, 1, 255):
            bad = "exit status %d" % r["rc"]
        elif r["rc"] != 0 and not r["diag"]:
            bad = "non-zero exit status without a diagnostic"
        elif not same(r, r_w) and not (c == "dump" and same(dict(r, out=drop_empty_perf_headings(r["out"])),
                                                            dict(r_w, out=drop_empty_perf_headings(r_w["out"])))):
            bad = "output differs from the output on the copy cut at the last whole perf record (%d bytes)" % wl
        elif c == "dump" and not same(r, r_w):
            st["dump_heading_of_a_file_without_whole_record"] = st.get("dump_heading_of_a_file_without_whole_record", 0) + 1
        # the model (reader as coded) against the framing and against what raw dump lists
        dis = None
        known = [(o, t, z) for o, t, z in frames if t in P_NAMES]
        want = []
        for o, t, z in known:
            misc = struct.unpack_from("<H", data, o + 4)[0]
            if t == P_SWITCH:
                pid, tid, tm = struct.unpack_from("<IIQ", data, o + 8)
            elif t == P_COMM:
                pid, tid = struct.unpack_from("<II", data, o + 8)
                tm = struct.unpack_from("<Q", data, o + z - 8)[0]
            else:
                pid, _pp, tid, _pt, tm = struct.unpack_from("<IIIIQ", data, o + 8)
            want.append((t, misc, pid, tid, tm))
        if m["st"] != "eof" or m["evs"] != want:
            dis = "model delivers %r (%s), the records completely present are %r" % (m["evs"], m["st"], want)
        elif c == "dump" and not r["san"] and r["rc"] == 0:
            shown = dump_perf_block(r["out"], fname)
            mine = [(tm, tid, perf_event_name(t, misc)) for t, misc, _pid, tid, tm in m["evs"] if tid in dr.tids]
            if shown != mine:
                dis = "raw dump lists %r under %s, the model's reader delivers %r" % (shown, fname, mine)
        if bad:
            st["monitor_fail"] += 1
            report("perf-cut", "property-violated-on-implementation",
                   dict(base, kind="property-violated-on-implementation", what=bad, whole_record_copy_bytes=wl,
                        records_completely_present=[(o, P_NAMES.get(t, "type %d" % t), z) for o, t, z in frames],
                        cut_record=(None if not inside or k - wl < 8 else
                                    "%s, %d of %d bytes present" % ((lambda t, z: (P_NAMES.get(t, "type %d" % t), k - wl, z))(
                                        *struct.unpack_from("<IHH", data, wl)[0:3:2]))),
                        model=m["raw"][:400],
                        expected={"rc": r_w["rc"], "diag": r_w["diag"], "stdout": r_w["out"][:2500]},
                        theorem="c12_perf_cut_equals_whole_prefix / c12_perf_commands_prefix"))
        if dis and not bad:
            st["disagree"] += 1
            report("perf-correspondence", "model-code-disagreement",
                   dict(base, kind="model-code-disagreement", what=dis, model=m["raw"][:400],
                        theorem="c12_perf_cut_equals_whole_prefix"), nfi=True)
    st["distinct"] = len(distinct)
    return st


def replay(ctx, path):
    r = json.load(open(path))
    print(json.dumps({k: v for k, v in r.items() if k != "files_hex"}, indent=1))
    if "files_hex" not in r or r.get("cut") is None and "file" not in r:
        return 0
    ctx.snapshot()
    okm, log = ctx.make(extra=["ASAN=1"])
    if not okm:
        print("build failed")
        return 1
    d = os.path.join(ctx.scratch, "replay")
    os.makedirs(d)
    for n, h in r["files_hex"].items():
        b = bytes.fromhex(h)
        if n == r["file"]:
            if r["cut"] is None:
                continue
            b = b[:r["cut"]] + (b"\n" if r.get("append_newline") else b"")
        open(os.path.join(d, n), "wb").write(b)
    cmd = r["cmd"].split()
    rc, out, err = D.run_uftrace(os.path.join(ctx.src, "uftrace"), cmd[0], d, cmd[1:], timeout=10, env=UB_ENV_REPLAY)
    print("rc=%d\n--- stdout\n%s\n--- stderr\n%s" % (rc, out[:3000], err[:3000]))
    return 0
